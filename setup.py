#!/usr/bin/env python3
"""Offline setup: warm the Go build cache by compiling every harness test binary once."""
import os, subprocess, sys
V = os.path.dirname(os.path.abspath(__file__))
env = dict(os.environ, GOFLAGS="-mod=mod", GOPROXY="off", GOSUMDB="off", GOTOOLCHAIN="local")
h = os.path.join(V, "harness")
if not os.path.exists(os.path.join(h, "go.sum")):
    open(os.path.join(h, "go.sum"), "w").write(open("/repo/go.sum").read())

r2 = subprocess.run(["go", "test", "-tags", "verif", "-count=1", "-run", "^$", "./..."], cwd=h, env=env)
sys.exit(0 if r2.returncode == 0 else 1)
