#!/usr/bin/env python3
"""Driver for the thunder property checks.

  run.py <ID> [--tier quick|thorough] [--replay <path>] [--seed N]

Builds the property's test binary from /repo's current working tree (harness module has
`replace github.com/samsarahq/thunder => /repo`, build tag `verif`), runs its rapid
properties in one or more processes (sharded by PRNG value), merges the counters the
properties wrote, writes /verif/evidence/<ID>.json and exits
  0  property held on everything explored (KNOWN-FINDING lines may be printed)
  1  violation: prints `VIOLATION property=<ID> replay=<path>`
  2  inconclusive (build failure, time-out, worker death, harness-internal error)
"""
import argparse, concurrent.futures as cf, glob, json, os, re, shutil, subprocess, sys, time

VERIF = os.path.dirname(os.path.abspath(__file__))
HARNESS = os.path.join(VERIF, "harness")
REPO = os.environ.get("VERIF_REPO", "/repo")
IDS = ["C%02d" % i for i in range(1, 21)]

# Per property: package, tests. A test = name, checks per tier (None = plain test run once),
# shards per tier, race (thorough only unless 'race_quick'), extra env.
def T(name, quick=None, thorough=None, sq=1, st=8, race=False, steps=None, timeout_q=600, timeout_t=3000, env=None, tier=None, pkg=None):
    return dict(name=name, quick=quick, thorough=thorough, sq=sq, st=st, race=race, steps=steps,
                timeout_q=timeout_q, timeout_t=timeout_t, env=env or {}, tier=tier, pkg=pkg)

sys.path.insert(0, VERIF)
import checks_config  # noqa: E402
CHECKS = checks_config.config(T)


def goenv():
    e = dict(os.environ)
    e.update(GOFLAGS="-mod=mod", GOPROXY="off", GOSUMDB="off", GOTOOLCHAIN="local", CGO_ENABLED=e.get("CGO_ENABLED", "1"))
    return e


def seed_for(base, pi, ti, k):
    s = (base * 1000003 + pi * 100003 + ti * 1009 + k * 7919 + 1) & ((1 << 62) - 1)
    return s or 1


def build(pkg, work, race):
    out = os.path.join(work, "%s-test-race.bin" % pkg if race else "%s-test.bin" % pkg)
    cmd = ["go", "test", "-c", "-tags", "verif", "-vet=off", "-o", out]
    if race:
        cmd.append("-race")
    cmd.append("./" + pkg + "/")
    p = subprocess.run(cmd, cwd=HARNESS, env=goenv(), stdout=subprocess.PIPE, stderr=subprocess.STDOUT, text=True)
    if p.returncode != 0 or not os.path.exists(out):
        print(p.stdout)
        return None
    return out


MEM_LIMIT_KB = int(os.environ.get("VERIF_MEM_KB", str(5 * 1024 * 1024)))  # per test process


def rss_kb(pid):
    try:
        for line in open("/proc/%d/status" % pid):
            if line.startswith("VmRSS:"):
                return int(line.split()[1])
    except Exception:
        pass
    return 0


def run_proc(binp, args, env, log, timeout):
    """Runs one test process under a wall-clock limit and a resident-memory watchdog
    (returns -999 on time-out, -998 when the memory limit was exceeded)."""
    t0 = time.time()
    with open(log, "w") as f:
        p = subprocess.Popen([binp] + args, cwd=os.path.dirname(binp), env=env, stdout=f, stderr=subprocess.STDOUT)
        rc = None
        while True:
            try:
                rc = p.wait(timeout=1.0)
                break
            except subprocess.TimeoutExpired:
                pass
            if time.time() - t0 > timeout + 60:
                p.kill()
                p.wait()
                rc = -999
                break
            if rss_kb(p.pid) > MEM_LIMIT_KB:
                p.kill()
                p.wait()
                rc = -998
                break
    return rc, time.time() - t0


def fuzz_leg(pid, cfg, work, base_env, scale):
    """Native coverage-guided fuzzing (thorough tier only). Returns (stats, violations, notes).
    Only a crasher file written by the fuzzing engine counts as a violation; any other
    non-zero exit of the engine is recorded as a note (that leg is then inconclusive)."""
    stats, viols, notes = [], [], []
    for fz in cfg.get("fuzz", []):
        name, secs = fz["name"], max(5, int(fz["secs"] * scale))
        tdir = os.path.join(HARNESS, cfg["pkg"], "testdata", "fuzz", name)
        shutil.rmtree(tdir, ignore_errors=True)  # crashers of an earlier run would be replayed as seeds
        env = dict(base_env, VERIF_OUT=os.path.join(work, "fuzzout"), VERIF_SHARD="fuzz", VERIF_NOJS="1")
        os.makedirs(env["VERIF_OUT"], exist_ok=True)
        log = os.path.join(work, "fuzz-%s.log" % name)
        cmd = ["go", "test", "-tags", "verif", "-vet=off", "-run", "^$", "-fuzz", "^%s$" % name,
               "-fuzztime", "%ds" % secs, "-parallel", str(fz.get("workers", 16)), "./" + cfg["pkg"] + "/"]
        t0 = time.time()
        with open(log, "w") as f:
            try:
                rc = subprocess.run(cmd, cwd=HARNESS, env=env, stdout=f, stderr=subprocess.STDOUT, timeout=secs + 600).returncode
            except subprocess.TimeoutExpired:
                rc = -999
        out = open(log, errors="replace").read()
        execs = [int(x) for x in re.findall(r"execs: (\d+)", out)]
        inter = [int(x) for x in re.findall(r"new interesting: (\d+)", out)]
        total = [int(x) for x in re.findall(r"\(total: (\d+)\)", out)]
        st = dict(target=name, seconds=round(time.time() - t0, 1), execs=max(execs or [0]), new_interesting=max(inter or [0]),
                  corpus_total=max(total or [0]), exit=rc)
        crashers = sorted(glob.glob(os.path.join(tdir, "*")))
        if crashers:
            keep = os.path.join(VERIF, "replays", pid)
            os.makedirs(keep, exist_ok=True)
            for c in crashers:
                dst = os.path.join(keep, "fuzz-%s-%s" % (name, os.path.basename(c)))
                shutil.copy(c, dst)
                m = re.search(r"--- FAIL: .*?\n((?:.*\n){0,12})", out)
                viols.append((dst, "native fuzzing (%s) found a failing input:\n%s" % (name, (m.group(1) if m else out[-1500:]))))
            st["crashers"] = len(crashers)
        elif rc != 0 and re.search(r"^\s*--- FAIL: Fuzz", out, re.M):
            # a failing entry of the seed corpus (f.Add) is reported without a saved input
            keep = os.path.join(VERIF, "replays", pid)
            os.makedirs(keep, exist_ok=True)
            dst = os.path.join(keep, "fuzzlog-%s.log" % name)
            shutil.copy(log, dst)
            m = re.search(r"--- FAIL: .*?\n((?:.*\n){0,12})", out)
            viols.append((dst, "native fuzzing (%s): a seed corpus entry fails:\n%s" % (name, m.group(1) if m else "")))
            st["crashers"] = 1
        elif rc != 0:
            notes.append("fuzz target %s: engine exited %d without writing a failing input (leg inconclusive); tail:\n%s" % (name, rc, out[-800:]))
        shutil.rmtree(os.path.join(HARNESS, cfg["pkg"], "testdata"), ignore_errors=True)
        stats.append(st)
    return stats, viols, notes


def fuzz_replay(pid, cfg, path, base_env):
    """Re-runs one saved fuzz input (file name fuzz-<Target>-<hash>) through its target."""
    base = os.path.basename(path)
    m = re.match(r"fuzz-(Fuzz\w+)-(.+)$", base)
    if not m:
        print("cannot tell the fuzz target from the file name", base)
        return 2
    name, h = m.group(1), m.group(2)
    tdir = os.path.join(HARNESS, cfg["pkg"], "testdata", "fuzz", name)
    shutil.rmtree(tdir, ignore_errors=True)
    os.makedirs(tdir)
    shutil.copy(path, os.path.join(tdir, h))
    env = dict(base_env, VERIF_NOJS="1", VERIF_OUT="/tmp")
    try:
        p = subprocess.run(["go", "test", "-tags", "verif", "-vet=off", "-count=1", "-run", "^%s$/^%s$" % (name, re.escape(h)), "./" + cfg["pkg"] + "/"],
                           cwd=HARNESS, env=env, stdout=subprocess.PIPE, stderr=subprocess.STDOUT, text=True, timeout=900)
    finally:
        shutil.rmtree(os.path.join(HARNESS, cfg["pkg"], "testdata"), ignore_errors=True)
    print(p.stdout[-3000:])
    if p.returncode != 0:
        print("VIOLATION property=%s replay=%s" % (pid, path))
        return 1
    return 0


def main():
    ap = argparse.ArgumentParser()
    ap.add_argument("id")
    ap.add_argument("--tier", default=os.environ.get("VERIF_TIER", "quick"))
    ap.add_argument("--replay")
    ap.add_argument("--seed", type=int, default=int(os.environ.get("VERIF_SEED", "1") or 1))
    ap.add_argument("--scale", type=float, default=float(os.environ.get("VERIF_SCALE", "1")))
    ap.add_argument("--keep", action="store_true")
    a = ap.parse_args()
    pid = a.id.upper()
    if pid not in CHECKS:
        print("unknown or unclaimed property", pid)
        return 2
    tier = "thorough" if a.tier == "thorough" else "quick"
    cfg = CHECKS[pid]
    pi = IDS.index(pid)
    t0 = time.time()
    work = os.path.join(VERIF, ".work", "%s-%d" % (pid, os.getpid()))
    shutil.rmtree(work, ignore_errors=True)
    os.makedirs(os.path.join(work, "out"))
    # rapid replays testdata/rapid/*.fail first: never keep any
    shutil.rmtree(os.path.join(HARNESS, cfg["pkg"], "testdata", "rapid"), ignore_errors=True)
    try:
        return run(a, pid, tier, cfg, pi, work, t0)
    finally:
        if not a.keep:
            shutil.rmtree(work, ignore_errors=True)


def run(a, pid, tier, cfg, pi, work, t0):
    need_race = any(t["race"] for t in cfg["tests"]) and (tier == "thorough" or cfg.get("race_quick")) and not a.replay
    # a test may live in another property's package (shared machinery): one binary per package
    pkgs = [cfg["pkg"]] + sorted({t["pkg"] for t in cfg["tests"] if t.get("pkg") and t["pkg"] != cfg["pkg"]})
    bins, racebins = {}, {}
    for pk in pkgs:
        shutil.rmtree(os.path.join(HARNESS, pk, "testdata", "rapid"), ignore_errors=True)
        bins[pk] = build(pk, work, False)
        if not bins[pk]:
            print("INCONCLUSIVE property=%s build failed (%s)" % (pid, pk))
            return 2
        if need_race and any(t["race"] and (t.get("pkg") or cfg["pkg"]) == pk for t in cfg["tests"]):
            racebins[pk] = build(pk, work, True)
            if not racebins[pk]:
                print("INCONCLUSIVE property=%s race build failed (%s)" % (pid, pk))
                return 2
    binp = bins[cfg["pkg"]]

    base_env = goenv()
    base_env.update(VERIF_OUT=os.path.join(work, "out"), VERIF_REPLAY_DIR=os.path.join(VERIF, "replays"),
                    VERIF_KNOWN=os.path.join(VERIF, "known_findings.jsonl"), VERIF_TIER=tier, VERIF_REPO=REPO,
                    VERIF_HARNESS=HARNESS)
    if a.replay and os.path.basename(a.replay).startswith("fuzz-"):
        return fuzz_replay(pid, cfg, os.path.abspath(a.replay), base_env)
    jobs = []
    if a.replay:
        env = dict(base_env, VERIF_REPLAY=os.path.abspath(a.replay), VERIF_SHARD="replay", VERIF_SHARD_SEED="replay")
        # a case saved by a test that lives in another property's package is replayed there
        rdir = os.path.basename(os.path.dirname(os.path.abspath(a.replay)))
        rbin = binp
        if rdir in CHECKS and CHECKS[rdir]["pkg"] in bins:
            rbin = bins[CHECKS[rdir]["pkg"]]
        jobs.append(dict(bin=rbin, args=["-test.run", "^TestReplay$", "-test.v", "-test.count=1", "-test.timeout=600s"], env=env,
                         log=os.path.join(work, "replay.log"), timeout=600, test="TestReplay", want=None, shard="replay"))
    else:
        for ti, t in enumerate(cfg["tests"]):
            if t["tier"] and t["tier"] != tier:
                continue
            checks = t[tier]
            shards = (t["st"] if tier == "thorough" else t["sq"]) if checks else 1
            timeout = t["timeout_t"] if tier == "thorough" else t["timeout_q"]
            for k in range(shards):
                sd = seed_for(a.seed, pi, ti, k)
                env = dict(base_env, VERIF_SHARD="%s-%d" % (t["name"], k), VERIF_SHARD_SEED=str(sd), VERIF_SHARD_INDEX=str(k))
                env.update(t["env"])
                args = ["-test.run", "^%s$" % t["name"], "-test.v", "-test.count=1", "-test.timeout=%ds" % timeout]
                want = None
                if checks:
                    per = max(1, int(checks * a.scale) // shards)
                    want = per
                    args += ["-rapid.checks=%d" % per, "-rapid.seed=%d" % sd, "-rapid.nofailfile", "-rapid.shrinktime=60s"]
                    if t["steps"]:
                        args += ["-rapid.steps=%d" % t["steps"]]
                pk = t.get("pkg") or cfg["pkg"]
                racebin = racebins.get(pk)
                use_race = t["race"] and racebin and (k % 4 == 3 or shards == 1)
                jobs.append(dict(bin=racebin if use_race else bins[pk], args=args, env=env,
                                 log=os.path.join(work, "%s-%d.log" % (t["name"], k)), timeout=timeout,
                                 test=t["name"], want=want, shard=k, race=bool(use_race)))

    results = []
    with cf.ThreadPoolExecutor(max_workers=int(os.environ.get("VERIF_JOBS", "16"))) as ex:
        futs = {ex.submit(run_proc, j["bin"], j["args"], j["env"], j["log"], j["timeout"]): j for j in jobs}
        for f in cf.as_completed(futs):
            j = futs[f]
            rc, dt = f.result()
            results.append((j, rc, dt))

    fuzz_stats, fuzz_viols, fuzz_notes = [], [], []
    if tier == "thorough" and not a.replay and cfg.get("fuzz"):
        fuzz_stats, fuzz_viols, fuzz_notes = fuzz_leg(pid, cfg, work, base_env, a.scale)

    # merge parts
    parts = []
    for p in sorted(glob.glob(os.path.join(work, "out", "*.part.json"))):
        try:
            parts.append(json.load(open(p)))
        except Exception as e:
            print("warning: unreadable part", p, e)
    merged = dict(evals=0, nontrivial=0, hashes=set(), classes={}, samples=[], excluded={}, known_seen={}, violations=[], extra={}, rule="", assumptions=[])
    for p in parts:
        merged["evals"] += p.get("evaluations", 0)
        merged["nontrivial"] += p.get("nontrivial", 0)
        merged["hashes"].update(p.get("distinct_hashes") or [])
        for k, v in (p.get("classes") or {}).items():
            merged["classes"][k] = merged["classes"].get(k, 0) + v
        for k, v in (p.get("excluded_known") or {}).items():
            merged["excluded"][k] = merged["excluded"].get(k, 0) + v
        merged["known_seen"].update(p.get("known_seen") or {})
        merged["violations"] += p.get("violations") or []
        for s in p.get("samples") or []:
            if len(merged["samples"]) < 6 and s.get("label") not in [x.get("label") for x in merged["samples"]]:
                merged["samples"].append(s)
        merged["extra"].update(p.get("extra") or {})
        if p.get("property_id") == pid or not merged["rule"]:
            merged["rule"] = p.get("rule") or merged["rule"]
            merged["assumptions"] = p.get("assumptions") or merged["assumptions"]
    if not merged["samples"]:
        for p in parts:
            merged["samples"] += (p.get("samples") or [])[:2]

    status = 0
    notes = []
    viol_lines = []
    for j, rc, dt in results:
        log = open(j["log"], errors="replace").read()
        passed = sum(int(x) for x in re.findall(r"\[rapid\] OK, passed (\d+) tests", log))
        if rc == 0:
            if j["want"] and passed < j["want"]:
                notes.append("%s shard %s: rapid passed %d of %d requested" % (j["test"], j["shard"], passed, j["want"]))
                status = max(status, 2)
            continue
        # non-zero exit
        mine = [v for v in merged["violations"]]
        if rc == -998:
            notes.append("%s shard %s: killed after exceeding the memory limit of %d MB (inconclusive)" % (j["test"], j["shard"], MEM_LIMIT_KB // 1024))
            status = max(status, 2)
            continue
        if rc == -999 or "panic: test timed out" in log:
            notes.append("%s shard %s: timed out (inconclusive)" % (j["test"], j["shard"]))
            keep = os.path.join(VERIF, "replays", pid)
            os.makedirs(keep, exist_ok=True)
            shutil.copy(j["log"], os.path.join(keep, "timeout-%s-%s.log" % (j["test"], j["shard"])))
            status = max(status, 2)
            continue
        crash = re.search(r"^(fatal error: .*|panic: .*|WARNING: DATA RACE)", log, re.M)
        if not crash:
            # a panic that rapid caught inside the property: a violation if it was raised in
            # thunder code (the innermost frame outside the Go runtime and reflect belongs to
            # thunder), a harness error otherwise
            m = re.search(r"\[rapid\] panic after \d+ tests?: (.*)\n(?:.*\n)*?\s+Traceback:\n((?:\s+\S+ in \S+\n)+)", log)
            if m:
                for fr in re.findall(r"^\s+(\S+) in (\S+)$", m.group(2), re.M):
                    if fr[0].startswith("/usr/lib/go") or "/go/src/" in fr[0] or fr[1].startswith(("reflect.", "runtime.", "sync.", "sort.", "strconv.", "encoding/")):
                        continue
                    if "github.com/samsarahq/thunder/" in fr[1]:
                        crash = re.match(r"(.*)", "panic: " + m.group(1))
                    break
        harness_err = "harness:" in log and not mine
        if mine:
            continue  # reported below
        if crash and cfg.get("crash_is_violation", True) and not harness_err:
            keep = os.path.join(VERIF, "replays", pid)
            os.makedirs(keep, exist_ok=True)
            dst = os.path.join(keep, "crash-%s-%s.log" % (j["test"], j["shard"]))
            shutil.copy(j["log"], dst)
            viol_lines.append((dst, crash.group(1)))
            continue
        notes.append("%s shard %s: exit %d without a recorded violation (inconclusive); tail:\n%s" % (j["test"], j["shard"], rc, log[-3000:]))
        status = max(status, 2)

    viol_lines += fuzz_viols
    notes += fuzz_notes
    if fuzz_stats:
        merged["extra"]["native_fuzz"] = fuzz_stats
    seen = set()
    for v in merged["violations"]:
        key = v.get("replay")
        if key in seen:
            continue
        seen.add(key)
        viol_lines.append((v.get("replay"), v.get("message", "")))

    wall = time.time() - t0
    evidence = {
        "property_id": pid, "tier": tier, "seed": a.seed, "level": "exploration",
        "coverage": {
            "evaluations": merged["evals"], "distinct_nontrivial": len(merged["hashes"]),
            "nontrivial_total": merged["nontrivial"], "rule": merged["rule"], "samples": merged["samples"],
            "classes": dict(sorted(merged["classes"].items())), "excluded_known": merged["excluded"],
            "processes": len(jobs), "race_processes": sum(1 for j in jobs if j.get("race")),
            "extra": merged["extra"], "notes": notes, "replay_mode": bool(a.replay),
        },
        "assumptions": merged["assumptions"], "wall_s": round(wall, 2), "violations": len(viol_lines),
    }
    if not a.replay:
        os.makedirs(os.path.join(VERIF, "evidence"), exist_ok=True)
        tmp = os.path.join(VERIF, "evidence", pid + ".json.tmp")
        json.dump(evidence, open(tmp, "w"), indent=1, sort_keys=True)
        os.replace(tmp, os.path.join(VERIF, "evidence", pid + ".json"))

    for sig, what in sorted(merged["known_seen"].items()):
        print("KNOWN-FINDING: property=%s %s [%s]" % (pid, what, sig))
    print("%s tier=%s seed=%d evaluations=%d distinct_nontrivial=%d processes=%d wall=%.1fs" % (
        pid, tier, a.seed, merged["evals"], len(merged["hashes"]), len(jobs), wall))
    for n in notes:
        print("NOTE:", n)
    if viol_lines:
        for path, msg in viol_lines:
            print("VIOLATION property=%s replay=%s" % (pid, path))
            print("  " + str(msg)[:1500].replace("\n", "\n  "))
        return 1
    if status == 2:
        print("INCONCLUSIVE property=%s" % pid)
    return status


if __name__ == "__main__":
    sys.exit(main())
