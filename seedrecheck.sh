#!/bin/bash
# usage: seedrecheck.sh <suffix> [ids...]   e.g. seedrecheck.sh j   or   seedrecheck.sh j C04 C07
# Re-runs the quick tier of each property against its kept seeded change /verif/seeded/<ID><suffix>/patch.diff
# (after the checks were strengthened): git -C /repo apply, run.py, git -C /repo checkout -- . ;
# rewrites check_quick.log and the quick_rc / thorough_rc members of result.json.
set -u
SUF=$1; shift
IDS=${@:-$(seq -f "C%02g" 1 20)}
cd /repo || exit 3
for ID in $IDS; do
  D=/verif/seeded/$ID$SUF
  [ -f $D/patch.diff ] || { echo "$ID$SUF: no patch"; continue; }
  if [ -n "$(git status --porcelain)" ]; then echo "repo dirty"; exit 3; fi
  git apply $D/patch.diff || { echo "$ID$SUF: patch does not apply"; continue; }
  timeout 1500 python3 /verif/run.py $ID --tier quick > $D/check_quick.log 2>&1; q=$?
  git checkout -- .
  rm -f $D/check_thorough.log
  python3 - $D $q <<'PY'
import json,sys
d,q=sys.argv[1],int(sys.argv[2])
r=json.load(open(d+"/result.json"))
r["quick_rc"]=q; r["thorough_rc"]="-"
json.dump(r,open(d+"/result.json","w"))
PY
  echo "RECHECK $ID$SUF quick_rc=$q $(grep -m1 '^VIOLATION' $D/check_quick.log | cut -c1-120)"
done
rm -rf /verif/replays
