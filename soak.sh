#!/bin/bash
# usage: soak.sh <tier> <seeds...>   runs every property at the given seeds, prints one line per run
tier=$1; shift
for s in "$@"; do
  for i in $(seq -w 1 20); do
    id=C$i
    out=$(python3 /verif/run.py $id --tier $tier --seed $s 2>&1); rc=$?
    echo "$id seed=$s tier=$tier rc=$rc $(echo "$out" | grep -E '^C[0-9]+ tier' | sed 's/.*evaluations/evaluations/')"
    if [ $rc -ne 0 ]; then echo "$out" | grep -A3 -E 'VIOLATION|NOTE|INCONCLUSIVE' | head -20 | cut -c1-400; fi
  done
done
