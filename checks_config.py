"""Per-property test plan used by run.py. T(name, quick_checks, thorough_checks, sq=, st=, race=, ...)."""


def config(T):
    return {
        "C01": dict(pkg="c01", tests=[T("TestPinned"), T("TestExec", 9600, 80000, sq=8, st=16, race=True), T("TestExecUnionEdge", 2400, 16000, sq=4, st=8), T("TestExecSharedFragments", 1200, 32000, sq=4, st=8, race=True), T("TestExecDirectives", 1200, 24000, sq=4, st=8)]),
        "C02": dict(pkg="c02", tests=[T("TestConverge", 2400, 32000, sq=8, st=16, race=True), T("TestRoundTrip", 8000, 80000, sq=4, st=8, pkg="c03")]),
        "C03": dict(pkg="c03", fuzz=[dict(name="FuzzRoundTrip", secs=60)], tests=[T("TestPinned"), T("TestRoundTrip", 36000, 400000, sq=8, st=16)]),
        "C06": dict(pkg="c06", race_quick=True, tests=[T("TestKnownTypename"), T("TestSiblingHops", race=True), T("TestTransparent", 1600, 16000, sq=8, st=16), T("TestDirectivesGateway", 80, 4000, sq=4, st=8),
                                                       T("TestConcurrentRefresh", 30, 600, sq=1, st=4, race=True, timeout_q=900), T("TestRefreshAfterChange", 400, 6000, sq=4, st=8), T("TestCancelledRequest", 600, 12000, sq=4, st=8, race=True)]),
        "C07": dict(pkg="c07", tests=[T("TestLiveSQL", 9600, 64000, sq=8, st=16, race=True)]),
        "C08": dict(pkg="c08", tests=[T("TestPinned"), T("TestCache", 7200, 96000, sq=8, st=16, race=True), T("TestRegisterRace", 1600, 24000, sq=4, st=8, pkg="c04")]),
        "C09": dict(pkg="c09", fuzz=[dict(name="FuzzMergeAlgebra", secs=45)], tests=[T("TestKnownOrder"), T("TestMergeAlgebra", 12000, 160000, sq=8, st=16), T("TestVersionedGateway", 240, 8000, sq=4, st=8), T("TestRefreshAfterChange", 240, 4000, sq=3, st=8, pkg="c06")]),
        "C10": dict(pkg="c10", fuzz=[dict(name="FuzzBatchTransparent", secs=40)], tests=[T("TestBatchTransparent", 4800, 48000, sq=8, st=16, race=True)]),
        "C11": dict(pkg="c11", fuzz=[dict(name="FuzzPagination", secs=45)], tests=[T("TestPagination", 18000, 240000, sq=8, st=16)]),
        "C12": dict(pkg="c12", fuzz=[dict(name="FuzzShardLimit", secs=40)], tests=[T("TestShardLimit", 7200, 64000, sq=8, st=16)]),
        "C13": dict(pkg="c13", fuzz=[dict(name="FuzzCodec", secs=40)], tests=[T("TestCodec", 18000, 300000, sq=6, st=16), T("TestProtoFilter", 9000, 100000, sq=4, st=8), T("TestSameNamedTypes", 300, 3000), T("TestInterleavedRows", 3000, 60000, sq=2, st=4)]),
        "C14": dict(pkg="c14", tests=[T("TestPinned"), T("TestAdvertised", 1800, 24000, sq=6, st=16), T("TestMethodShapes", 9000, 120000, sq=4, st=8)]),
        "C15": dict(pkg="c15", fuzz=[dict(name="FuzzPipeline", secs=90), dict(name="FuzzEnvelope", secs=45), dict(name="FuzzHTTP", secs=45)], tests=[T("TestPinned"), T("TestDocuments", 36000, 600000, sq=6, st=16), T("TestBombs", 200, 2000, sq=2, st=4),
                                      T("TestEnvelopes", 600, 20000, sq=2, st=8, race=True), T("TestHTTP", 800, 20000, sq=2, st=4),
                                      T("TestPanicContained", 150, 3000, sq=1, st=4, race=True), T("TestCancellation", 200, 4000, sq=1, st=1), T("TestGatewayCancellation", 150, 3000, sq=1, st=1), T("TestGatewaySiblingFailure", 120, 2000, sq=4, st=8), T("TestPanicPaginated", 600, 8000, sq=2, st=4), T("TestSocketCancellation", 900, 16000, sq=3, st=8, race=True)]),
        "C16": dict(pkg="c16", tests=[T("TestDirect", 32000, 240000, sq=8, st=12), T("TestSocket", 1800, 12000, sq=6, st=8, race=True), T("TestMutations", 600, 12000, sq=4, st=8, race=True), T("TestPaginatedFailures", 2400, 40000, sq=4, st=8, race=True)]),
        "C17": dict(pkg="c17", tests=[T("TestPinned"), T("TestStaleCloser"), T("TestLifecycle", 1920, 24000, sq=8, st=16, race=True)]),
        "C18": dict(pkg="c18", fuzz=[dict(name="FuzzArgs", secs=45), dict(name="FuzzArgsNegative", secs=30)], tests=[T("TestArgs", 24000, 400000, sq=6, st=16), T("TestArgsNegative", 12000, 100000, sq=4, st=8)]),
        "C19": dict(pkg="c19", fuzz=[dict(name="FuzzDirectives", secs=45)], tests=[T("TestPinned"), T("TestDirectives", 12000, 160000, sq=8, st=16), T("TestDirectivesGateway", 240, 4000, sq=6, st=8, pkg="c06")]),
        "C20": dict(pkg="c20", tests=[T("TestPinned"), T("TestLimiter", 480, 24000, sq=8, st=16, race=True), T("TestNestedWith", 480, 6400, sq=4, st=8), T("TestBatchJoiners", 640, 9600, sq=4, st=8, race=True)]),
        "C04": dict(pkg="c04", tests=[T("TestRerun", 7200, 96000, sq=8, st=16, race=True), T("TestArmRace", 2400, 40000, sq=4, st=8), T("TestRegisterRace", 1600, 24000, sq=4, st=8)]),
        "C05": dict(pkg="c05", tests=[T("TestBatch", 6000, 64000, sq=8, st=16, race=True)]),
    }
