"""Per-property test plan used by run.py. T(name, quick_checks, thorough_checks, sq=, st=, race=, ...)."""


def config(T):
    return {
        "C03": dict(pkg="c03", tests=[T("TestPinned"), T("TestRoundTrip", 12000, 400000, sq=4, st=16)]),
    }
