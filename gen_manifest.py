#!/usr/bin/env python3
"""Regenerates MANIFEST.json from manifest_src.py (claims) so it is always schema-valid."""
import json, os, sys
sys.path.insert(0, os.path.dirname(os.path.abspath(__file__)))
import manifest_src as M

ALL = ["C%02d" % i for i in range(1, 21)]
checks = []
for pid in ALL:
    c = M.CLAIMS.get(pid)
    if not c:
        continue
    checks.append({
        "property_id": pid,
        "quick_cmd": "python3 run.py %s --tier quick" % pid,
        "thorough_cmd": "python3 run.py %s --tier thorough" % pid,
        "evidence_file": "evidence/%s.json" % pid,
        "replay_cmd_template": "python3 run.py %s --replay {path}" % pid,
        "engine": "rapid-harness",
        "level_claimed": {"category": "exploration", "text": c["text"], "design_ref": c["ref"]},
        "level_note": c["note"],
        "technique": c["technique"],
    })
na = [{"property_id": pid, "reason": M.NOT_APPLICABLE.get(pid, "check not built yet in this session; see DESIGN.md section 4 for the planned generator and oracle")}
      for pid in ALL if pid not in M.CLAIMS]
man = {
    "version": 1,
    "setup_cmd": "python3 setup.py",
    "hooks": {
        "guard": "verif",
        "enable": "go test -tags verif (harness module /verif/harness replaces github.com/samsarahq/thunder with /repo)",
        "baseline_off_cmd": "cd /repo && GOFLAGS=-mod=mod GOPROXY=off GOSUMDB=off go test -vet=off -count=1 -timeout 25m ./...",
        "source_commits": M.HOOK_COMMITS,
        "add_only": True,
    },
    "engines": [{"name": "rapid-harness", "path": "harness", "serves_properties": sorted(M.CLAIMS),
                 "kind_free_text": "Go module of pgregory.net/rapid v1.3.0 properties (generated inputs, histories, schedules) with reference models; run.py shards, merges counters, writes evidence"}],
    "checks": checks,
    "notes": "All checks are generated-input searches against explicit oracles (property-based testing with rapid; native go fuzzing in thorough tiers where noted). Exit 2 = inconclusive.",
    "not_applicable": na,
}
json.dump(man, open(os.path.join(os.path.dirname(os.path.abspath(__file__)), "MANIFEST.json"), "w"), indent=1)
print("claims:", len(checks), "unclaimed:", len(na))
