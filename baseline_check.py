#!/usr/bin/env python3
"""Runs the repository's test suite (guard off unless --tags is given) and compares the set of
passing tests with the stable baseline in /root/.vp/BASELINE.json."""
import json, subprocess, sys, os
tags = sys.argv[1:]  # e.g. -tags verif
env = dict(os.environ, GOFLAGS="-mod=mod", GOPROXY="off", GOSUMDB="off")
p = subprocess.run(["go", "test", "-json", "-vet=off", "-count=1", "-timeout", "25m"] + tags + ["./..."], cwd="/repo", env=env, stdout=subprocess.PIPE, stderr=subprocess.STDOUT, text=True)
passed = set()
for line in p.stdout.splitlines():
    try:
        e = json.loads(line)
    except Exception:
        continue
    if e.get("Action") == "pass" and e.get("Test"):
        passed.add(e["Package"] + "::" + e["Test"])
base = set(json.load(open("/root/.vp/BASELINE.json"))["stable_pass"])
missing = sorted(base - passed)
print("passed %d, baseline %d, missing from baseline: %d" % (len(passed), len(base), len(missing)))
for m in missing[:40]:
    print("  MISSING", m)
sys.exit(1 if missing else 0)
