HOOK_COMMITS = ["299a240", "e13245c"]
NOT_APPLICABLE = {}
CLAIMS = {
    "C03": dict(
        text="Random and edit-related pairs of JSON trees (typed executor forms and post-JSON forms); for each pair Diff's delta is applied by an independent reference applier written from the documented format, by merge.Merge and by the real client/src/merge.ts under node, and compared with the key-stripped new value; also Diff(x,x)=nil, argument immutability, JSON stability of the delta. Exploration, not proof: ~10^4 (quick) to ~10^5-10^6 (thorough) pairs.",
        ref="DESIGN.md 4/C03", technique="property-based round-trip + differential (rapid): Diff → {reference applier, merge.Merge, merge.ts}",
        note="__key values scalar and unique per array; no NaN/Inf; merge.ts leg needs /usr/bin/node (recorded as skipped otherwise)"),
    "C20": dict(
        text="Generated multi-goroutine programs over Acquire / release (own, repeated, by another goroutine, during a temporary release) / nested TemporarilyRelease / cancelled and limiter-less contexts, stepped by a driver in a drawn global order with blocked steps left in flight; a verif-tagged yield point inside holder.block lets the driver run other steps inside the re-acquire window. Oracle: an undercounting holder count never exceeds the limit; after wind-down exactly n tokens can be acquired. Exploration of schedules the harness owns, plus -race in the thorough tier.",
        ref="DESIGN.md 4/C20", technique="stateful property-based testing (rapid) with harness-owned schedule and yield-point injection; invariant over the history",
        note="holder count undercounts by construction, so a report is a real excess; windows narrower than the instrumented yield site are only reachable by the OS scheduler"),
    "C05": dict(
        text="Generated crowds of concurrent Invoke callers (arrival offsets around the wait-interval / max-duration timers, shards, MaxSize, outcome plan ok/error/panic/short/long/slow per invocation, per-caller and shared cancellation, optional concurrency limiter, drawn sleeps at verif yield sites inside Invoke). The batch function records every invocation; oracle checks own-result correspondence, at-most-once / exactly-once hand-over, MaxSize, shard purity, error attribution and that every caller returns (10 s watchdog vs <=10 ms timers).",
        ref="DESIGN.md 4/C05", technique="property-based testing (rapid) of concurrent callers against a recording batch function; invariants over the invocation log",
        note="which callers share a batch is timing dependent and not asserted; schedules limited to arrival offsets, yield-site sleeps and the OS scheduler (+ -race in thorough)"),
    "C01": dict(
        text="Generated schema specs (reflect.MakeFunc field funcs over a pool of Go struct/union/enum types, every receiver/args/error signature form) x generated valid queries (merged aliases with different sub-selections, repeated and nested named fragments, unions incl. several fragments per member, fragments on the union, uncovered members, nil objects, empty lists, keyed objects, variables with defaults). Each case runs under 3-6 combinations of per-field execution mode (plain/Expensive/batch/batch-with-fallback/NumParallelInvocations=k), work scheduler (thunder's goroutine scheduler, FIFO, LIFO, seeded-random, pools), fallback flag, inside/outside a reactive rerunner with batching, resolver yields; every result must equal an independent sequential reference interpreter.",
        ref="DESIGN.md 4/C01 and appendix A", technique="property-based differential + metamorphic testing (rapid): thunder executor under generated modes/schedulers vs reference interpreter",
        note="the reference interpreter (harness/world/ref.go) and the pure data function are trusted; same response key implies same field+args by construction; interleavings limited to the provided schedulers, yields and -race shards"),
    "C19": dict(
        text="Generated valid queries annotated with @skip/@include (literal and variable conditions, defaults, both directives on one node, same named fragment spread several times with different conditions, directives on union-member fragments and on copies of a duplicated alias). Metamorphic oracle: thunder(annotated, vars) == thunder(pruned) == reference(pruned), where pruning is done on the harness AST.",
        ref="DESIGN.md 4/C19", technique="property-based metamorphic testing (rapid): annotated vs textually pruned query, plus reference interpreter",
        note="conditions are booleans; each selection set keeps an unconditional leaf; federation-gateway leg is part of the C06 machinery"),
}
