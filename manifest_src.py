HOOK_COMMITS = []
NOT_APPLICABLE = {}
CLAIMS = {
    "C03": dict(
        text="Random and edit-related pairs of JSON trees (typed executor forms and post-JSON forms); for each pair Diff's delta is applied by an independent reference applier written from the documented format, by merge.Merge and by the real client/src/merge.ts under node, and compared with the key-stripped new value; also Diff(x,x)=nil, argument immutability, JSON stability of the delta. Exploration, not proof: ~10^4 (quick) to ~10^5-10^6 (thorough) pairs.",
        ref="DESIGN.md 4/C03", technique="property-based round-trip + differential (rapid): Diff → {reference applier, merge.Merge, merge.ts}",
        note="__key values scalar and unique per array; no NaN/Inf; merge.ts leg needs /usr/bin/node (recorded as skipped otherwise)"),
}
