#!/bin/bash
# usage: mutant.sh <ID> <file-in-repo> <python-literal-old> <python-literal-new> [run.py args...]
# Applies a textual mutation to /repo, runs the check, restores /repo (git checkout).
set -u
ID=$1; FILE=$2; OLD=$3; NEW=$4; shift 4
cd /repo || exit 3
if [ -n "$(git status --porcelain)" ]; then echo "repo dirty, refusing"; exit 3; fi
python3 - "$FILE" "$OLD" "$NEW" <<'PY'
import sys
p, old, new = sys.argv[1], sys.argv[2], sys.argv[3]
s = open(p).read()
if old not in s:
    print("MUTANT: pattern not found"); sys.exit(4)
open(p, "w").write(s.replace(old, new, 1))
PY
rc=$?
if [ $rc -ne 0 ]; then git checkout -- .; exit $rc; fi
(go build ./... 2>&1 | head -5)
python3 /verif/run.py "$ID" "$@" 2>&1 | tail -6
rc=${PIPESTATUS[0]}
git checkout -- .
echo "mutant rc=$rc"
