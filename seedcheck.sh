#!/bin/bash
# usage: [SEEDROOT=/tmp/seed2 SUFFIX=b] seedcheck.sh <ID> <pkgdir-of-demo> <demo -run regex> [extra go test flags e.g. "-tags verif"]
# Confirms a seeded change delivered in /tmp/seed/<ID>/SEED (patch.diff + demo test), copies it to
# /verif/seeded/<ID>/, runs the property's checks against it in /repo and restores /repo.
set -u
ID=$1; PKG=$2; RUN=$3; EXTRA=${4:-}
export GOFLAGS=-mod=mod GOPROXY=off GOSUMDB=off GOTOOLCHAIN=local
ROOT=${SEEDROOT:-/tmp/seed}
W=$ROOT/$ID
OUT=/verif/seeded/$ID${SUFFIX:-}
mkdir -p $OUT
cp $W/SEED/patch.diff $OUT/patch.diff
for f in $W/SEED/*; do case "$f" in *patch.diff) ;; *) cp "$f" $OUT/ ;; esac; done
cd $W || exit 3
# normalise: make sure the patch is applied in the agent's worktree
git apply --check -R $OUT/patch.diff 2>/dev/null || git apply $OUT/patch.diff 2>/dev/null
echo "== build with change"; go build ./... 2>&1 | tail -3
echo "== demo WITH change (expect FAIL)"
go test -vet=off -count=1 $EXTRA -run "$RUN" ./$PKG/ > $OUT/demo_with.log 2>&1; with=$?
tail -3 $OUT/demo_with.log
git apply -R $OUT/patch.diff
echo "== demo WITHOUT change (expect ok)"
go test -vet=off -count=1 $EXTRA -run "$RUN" ./$PKG/ > $OUT/demo_without.log 2>&1; without=$?
tail -2 $OUT/demo_without.log
git apply $OUT/patch.diff
echo "== existing suite with change (stable baseline)"
# move the demo aside so that it does not count as an existing test
mkdir -p $ROOT/aside-$ID; for f in $(git status --porcelain | grep '^??' | awk '{print $2}' | grep '_test.go$'); do mv $f $ROOT/aside-$ID/; done
go test -json -vet=off -count=1 -timeout 20m ./... 2>/dev/null | python3 -c "
import json,sys
passed=set()
for l in sys.stdin:
    try: e=json.loads(l)
    except Exception: continue
    if e.get('Action')=='pass' and e.get('Test'): passed.add(e['Package']+'::'+e['Test'])
base=set(json.load(open('/root/.vp/BASELINE.json'))['stable_pass'])
missing=sorted(base-passed)
print('suite with change: passed',len(passed),'missing from baseline',len(missing)); print(missing[:10])
open('$OUT/suite_with.txt','w').write('passed %d missing %d %s\n'%(len(passed),len(missing),missing[:10]))
"
for f in $ROOT/aside-$ID/*; do [ -e "$f" ] && mv $f $W/$PKG/ 2>/dev/null; done
echo "== my checks against the change"
cd /repo || exit 3
if [ -n "$(git status --porcelain)" ]; then echo "repo dirty"; exit 3; fi
git apply $OUT/patch.diff || { echo "patch does not apply to /repo"; exit 4; }
python3 /verif/run.py $ID --tier quick > $OUT/check_quick.log 2>&1; q=$?
tail -4 $OUT/check_quick.log
t=-
if [ $q -eq 0 ]; then python3 /verif/run.py $ID --tier thorough > $OUT/check_thorough.log 2>&1; t=$?; tail -4 $OUT/check_thorough.log; fi
git checkout -- . ; git status --porcelain | head -3
echo "RESULT id=$ID demo_with_rc=$with demo_without_rc=$without quick_rc=$q thorough_rc=$t"
echo "{\"demo_with_rc\": $with, \"demo_without_rc\": $without, \"quick_rc\": $q, \"thorough_rc\": \"$t\"}" > $OUT/result.json
