package c17

import (
	"context"
	"fmt"
	"strings"
	"sync"
	"sync/atomic"
	"testing"
	"time"

	"github.com/samsarahq/thunder/graphql"
	"github.com/samsarahq/thunder/graphql/schemabuilder"
	"github.com/samsarahq/thunder/reactive"

	"verifharness/fakesock"
	"verifharness/srvm"
)

// A subscription's run that ends in context.Canceled, and a finished mutation, spawn a
// goroutine that closes "the subscription with this id". TestStaleCloser owns the schedule of
// that goroutine (hook H6 delays it) and re-uses the id at once: the closer of the OLD
// subscription / mutation must not end the NEW subscription.

type evLog struct {
	mu  sync.Mutex
	evs []string
}

func (l *evLog) Subscribe(ctx context.Context, id string, tags map[string]string) { l.add("S:" + id) }
func (l *evLog) Unsubscribe(ctx context.Context, id string)                        { l.add("U:" + id) }
func (l *evLog) add(e string) {
	l.mu.Lock()
	l.evs = append(l.evs, e)
	l.mu.Unlock()
}
func (l *evLog) snap() []string { l.mu.Lock(); defer l.mu.Unlock(); return append([]string{}, l.evs...) }

type staleCase struct {
	Variant string `json:"variant"` // cancelled-run | finished-mutation
	DelayUs int    `json:"delay_us"`
}

func staleCloser(c staleCase) (string, error) {
	reactive.WriteThenReadDelay = 0
	delay := time.Duration(c.DelayUs) * time.Microsecond
	srvm.SetCloserDelay(delay)
	defer srvm.SetCloserDelay(0)

	var calls int32
	started := make(chan struct{}, 16)
	res := reactive.NewResource()
	var resMu sync.Mutex
	schema := schemabuilder.NewSchema()
	q := schema.Query()
	q.FieldFunc("v", func(ctx context.Context) (int64, error) {
		n := atomic.AddInt32(&calls, 1)
		resMu.Lock()
		r := res
		resMu.Unlock()
		reactive.AddDependency(ctx, r, nil)
		if n == 1 && c.Variant == "cancelled-run" {
			// the first run honours cancellation
			started <- struct{}{}
			<-ctx.Done()
			return 0, ctx.Err()
		}
		return int64(n), nil
	})
	m := schema.Mutation()
	m.FieldFunc("bump", func() int64 { return 1 })
	built := schema.MustBuild()

	sock := fakesock.New()
	lg := &evLog{}
	ctx, cancel := context.WithCancel(context.Background())
	defer cancel()
	conn := graphql.CreateConnection(ctx, sock, built, graphql.WithMinRerunInterval(0), graphql.WithSubscriptionLogger(lg), graphql.WithMaxSubscriptions(4))
	served := make(chan struct{})
	go func() { conn.ServeJSONSocket(); close(served) }()
	defer func() { sock.Close(); <-served }()

	sub := map[string]interface{}{"query": "{ v }", "variables": map[string]interface{}{}}
	switch c.Variant {
	case "cancelled-run":
		sock.SendEnvelope("x", "subscribe", sub)
		select {
		case <-started:
		case <-time.After(10 * time.Second):
			return "harness", fmt.Errorf("harness: the first run never started")
		}
		// back to back: the unsubscribe cancels the run in flight, whose closer goroutine is
		// held back by the hook while the new subscription with the same id is accepted
		sock.SendEnvelope("x", "unsubscribe", nil)
		sock.SendEnvelope("x", "subscribe", sub)
	case "finished-mutation":
		sock.SendEnvelope("x", "mutate", map[string]interface{}{"query": "mutation { bump }", "variables": map[string]interface{}{}})
		if !sock.WaitFor(10*time.Second, func(outs []fakesock.Out) bool {
			for _, o := range outs {
				if o.ID == "x" && o.Type == "result" {
					return true
				}
			}
			return false
		}) {
			return "harness", fmt.Errorf("harness: the mutation never answered: %v", sock.Outs())
		}
		sock.SendEnvelope("x", "subscribe", sub)
	}
	if !sock.Echo("e1", 10*time.Second) {
		return "no-echo", fmt.Errorf("no echo reply")
	}
	accepted := false
	for _, e := range lg.snap() {
		if e == "S:x" {
			accepted = true
		}
	}
	// let every delayed closer run
	time.Sleep(delay*3 + 5*time.Millisecond)
	sock.Echo("e2", 10*time.Second)
	evs := lg.snap()
	nS, nU := 0, 0
	lastS := -1
	for i, e := range evs {
		if e == "S:x" {
			nS++
			lastS = i
		}
	}
	for i, e := range evs {
		if e == "U:x" && i > lastS {
			nU++
		}
	}
	if !accepted || lastS < 0 {
		// the server may also reject the re-subscribe while the old entry is still there
		// (mutation still tracked): nothing to check then
		return "", nil
	}
	if nU > 0 {
		return "stale-closer", fmt.Errorf("%s: the subscription accepted last was ended (Unsubscribe logged) by the closer of its predecessor with the same id, without unsubscribe, failure or close: %v", c.Variant, evs)
	}
	// it must still be live: a write reaches it, and its id is still taken
	n0 := sock.NOut()
	resMu.Lock()
	old := res
	res = reactive.NewResource()
	resMu.Unlock()
	old.Invalidate()
	if !sock.WaitFor(5*time.Second, func(outs []fakesock.Out) bool {
		for _, o := range outs[n0:] {
			if o.ID == "x" && o.Type == "update" {
				return true
			}
		}
		return false
	}) {
		return "stale-closer", fmt.Errorf("%s: the re-subscribed id no longer receives updates after an invalidation: %v", c.Variant, evs)
	}
	n1 := sock.NOut()
	sock.SendEnvelope("x", "subscribe", sub)
	sock.Echo("e3", 10*time.Second)
	dup := false
	for _, o := range sock.Outs()[n1:] {
		if o.ID == "x" && o.Type == "error" && strings.Contains(fmt.Sprint(o.Msg), "duplicate") {
			dup = true
		}
	}
	if !dup {
		return "stale-closer", fmt.Errorf("%s: a second subscribe with the live id was not rejected as duplicate: %v", c.Variant, lg.snap())
	}
	return "", nil
}

func TestStaleCloser(t *testing.T) {
	for _, v := range []string{"cancelled-run", "finished-mutation"} {
		for _, d := range []int{0, 300, 3000} {
			c := staleCase{Variant: v, DelayUs: d}
			sig, err := staleCloser(c)
			if err != nil {
				if sig == "harness" {
					t.Fatalf("%v", err)
				}
				rec.Violate("TestStaleCloser-"+v, c, sig+": "+err.Error())
				t.Errorf("%s: %v", sig, err)
				continue
			}
			rec.Case(fmt.Sprintf("stale-%s-%d", v, d), d > 0, "stale-closer:"+v)
		}
	}
}
