package c17

import (
	"encoding/json"
	"io"
	"log"
	"os"
	"strings"
	"testing"

	"pgregory.net/rapid"

	"verifharness/ev"
	"verifharness/srvm"
)

var rec = ev.New("C17",
	"histories on one websocket connection with a recording SubscriptionLogger and WithMaxSubscriptions(1..3): subscribe / unsubscribe / mutate with ids from a pool of 3 (collisions between message kinds included), echo, malformed message payloads, unknown message types, data writes with invalidation, resolvers failing on drawn runs, context cancellation and socket close at any step; oracles: duplicate-id rule, subscription limit, every Subscribe gets exactly one Unsubscribe (checked after every step and once the connection is closed), a subscription never ends without cause (also with the closer goroutines of earlier runs delayed through hook H6 and slow resolvers / a slow error logger keeping runs in flight while the next frame arrives), no resolver runs and nothing is written after the end, every reactive resource a run registered is released exactly once; non-trivial = id collision between kinds or duplicate subscribe, or a resolver failure, or close/cancel during the history; distinct = hash of the case",
	"a failing subscription ends asynchronously: until its end is observed either answer to a re-subscribe is accepted", "a mutation logs an Unsubscribe of its own without a Subscribe (tracked by the harness per mutate frame sent); any other unmatched Unsubscribe is a violation", "without an injected failure, cancel or close a subscription may only end by unsubscribe")

func TestMain(m *testing.M) { log.SetOutput(io.Discard); code := m.Run(); rec.Flush(); os.Exit(code) }

func run(t interface{ Fatalf(string, ...interface{}) }, test string, c srvm.Case) {
	res, sig, err := srvm.Run(c)
	if err != nil {
		p := rec.Violate(test, c, sig+": "+err.Error())
		t.Fatalf("%s: %v (replay %s)", sig, err, p)
	}
	b, _ := json.Marshal(c)
	rec.Case(string(b), res.Nontrivial, res.Labels...)
	if res.Nontrivial {
		rec.Sample(strings.Join(res.Labels, "+"), map[string]interface{}{"queries": c.Texts, "actions": c.Actions, "triggers": c.Triggers})
	}
}

func TestLifecycle(t *testing.T) {
	rapid.Check(t, func(t *rapid.T) { run(t, "TestLifecycle", srvm.Gen(t, true)) })
}

func TestReplay(t *testing.T) {
	p := os.Getenv("VERIF_REPLAY")
	if p == "" {
		t.Skip("no VERIF_REPLAY")
	}
	var c srvm.Case
	if _, err := ev.LoadReplay(p, &c); err != nil {
		t.Fatalf("harness: cannot load replay: %v", err)
	}
	for i := 0; i < 10; i++ {
		run(t, "TestReplay", c)
	}
}

// TestPinned: the two lifecycle defects repaired in /repo (8a30bcd, 566ac56), as fixed histories.
func TestPinned(t *testing.T) {
	rapid.Check(t, func(t *rapid.T) {
		c := srvm.Gen(t, true)
		A := func(kind, id string) srvm.Action { return srvm.Action{Kind: kind, ID: id, Typ: "O1", Eid: 0} }
		switch rapid.IntRange(0, 1).Draw(t, "which") {
		case 0: // subscribe, close: every Subscribe needs its Unsubscribe
			c.Actions = []srvm.Action{A("subscribe", "a"), A("subscribe", "b"), {Kind: "close"}}
		default: // mutate with the id of a live subscription must not orphan it
			c.Actions = []srvm.Action{A("subscribe", "a"), A("mutate", "a"), A("subscribe", "b"), {Kind: "write", Typ: "Query"}, A("unsubscribe", "a"), {Kind: "write", Typ: "Query"}, {Kind: "close"}}
		}
		c.MaxSubs = 3
		c.Triggers = nil
		run(t, "TestPinned", c)
	})
}
