package world

import (
	"context"
	"errors"
	"fmt"
	"reflect"
	"runtime"
	"strings"
	"sync"
	"sync/atomic"
	"time"

	"github.com/samsarahq/thunder/batch"
	"github.com/samsarahq/thunder/graphql"
	"github.com/samsarahq/thunder/graphql/schemabuilder"
)

// Mode is the execution mode of one generated field.
type Mode struct {
	Kind string `json:"kind"` // plain expensive batch batchfb
	Ctx  bool   `json:"ctx"`  // resolver takes a context
	K    int    `json:"k"`    // NumParallelInvocationsFunc result; -100 = option not set; 1000 = len; 1005 = len+5
}

// Modes maps "Type.field" to its mode.
type Modes map[string]Mode

type fallbackKey struct{}

// WithFallback makes batch-with-fallback fields use their fallback (non-batch) function.
func WithFallback(ctx context.Context, useFallback bool) context.Context {
	return context.WithValue(ctx, fallbackKey{}, useFallback)
}

// Stats are collected by the generated resolvers during one execution.
type Stats struct {
	mu            sync.Mutex
	BatchCalls    int
	BatchMulti    int // batch invocations with >=2 sources
	SplitMulti    int // fields with K>=2 whose invocation count was >=2
	ExpensiveObjs map[string]int
	PlainCalls    int
	FallbackCalls int
	perField      map[string]int
}

func NewStats() *Stats { return &Stats{ExpensiveObjs: map[string]int{}, perField: map[string]int{}} }

// Perturb controls schedule perturbation inside resolvers.
type Perturb struct {
	Seed  uint64
	Level int // 0 none, 1 Gosched, 2 Gosched + short sleeps
	n     uint64
}

func (p *Perturb) yield() {
	if p == nil || p.Level == 0 {
		return
	}
	x := h(p.Seed, atomic.AddUint64(&p.n, 1))
	switch x % 4 {
	case 0:
	case 1, 2:
		for i := uint64(0); i < 1+(x>>3)%3; i++ {
			runtime.Gosched()
		}
	case 3:
		if p.Level >= 2 {
			time.Sleep(time.Duration((x>>5)%150) * time.Microsecond)
		} else {
			runtime.Gosched()
		}
	}
}

// Fault makes chosen field instances fail (used by C16). Returning nil means no failure.
type FaultFunc func(typ string, id int64, f *FieldSpec, a ArgVal, batchMode bool) error

// Env is the mutable environment the generated resolvers consult. One per bound schema.
type Env struct {
	// OnMutate is called by the generated mutation field bump(typ, id).
	OnMutate  func(ctx context.Context, typ string, id int64)
	mu        sync.Mutex
	Stats     *Stats
	Perturb   *Perturb
	Fault     FaultFunc
	OnCall    func(typ string, id int64, f *FieldSpec) // optional hook (C02/C17 register dependencies here)
	OnCallCtx func(ctx context.Context, typ string, id int64, f *FieldSpec)
}

func (e *Env) stats() *Stats {
	e.mu.Lock()
	defer e.mu.Unlock()
	return e.Stats
}

func (e *Env) Set(s *Stats, p *Perturb) {
	e.mu.Lock()
	e.Stats, e.Perturb = s, p
	e.mu.Unlock()
}

func (e *Env) perturb() *Perturb {
	e.mu.Lock()
	defer e.mu.Unlock()
	return e.Perturb
}

var (
	ctxType   = reflect.TypeOf((*context.Context)(nil)).Elem()
	errorType = reflect.TypeOf((*error)(nil)).Elem()
	indexType = reflect.TypeOf(batch.Index{})
)

func argVal(kind string, v reflect.Value) ArgVal {
	switch kind {
	case "A":
		return ArgVal{Kind: "A", X: v.Interface().(ArgsA).X}
	case "B":
		b := v.Interface().(ArgsB)
		return ArgVal{Kind: "B", S: b.S, N: b.N}
	case "C":
		return ArgVal{Kind: "C", N: v.Interface().(ArgsC).N}
	}
	return ArgVal{}
}

func errVal(err error) reflect.Value {
	if err == nil {
		return reflect.Zero(errorType)
	}
	return reflect.ValueOf(&err).Elem()
}

// Bound is a spec registered on a real thunder schema.
type Bound struct {
	Spec   *Spec
	Modes  Modes
	Schema *graphql.Schema
	Env    *Env
}

// Bind registers the spec with the given modes on a fresh schemabuilder schema.
func Bind(s *Spec, modes Modes) (b *Bound, err error) { return BindWith(s, modes, nil) }

// BindWith is Bind plus a callback that may register more types and fields.
func BindWith(s *Spec, modes Modes, extra func(*schemabuilder.Schema)) (b *Bound, err error) {
	defer func() {
		if r := recover(); r != nil {
			err = fmt.Errorf("schema registration panicked: %v", r)
		}
	}()
	env := &Env{}
	schema := schemabuilder.NewSchema()
	schema.Enum(EnumA(0), EnumAMap)
	// registered through an untyped map in which one value has the enum type and the other its
	// underlying type (both are accepted and mean the same)
	schema.Enum(EnumB(""), map[string]interface{}{"small": EnumBMap["small"], "large": string(EnumBMap["large"])})
	for _, os := range s.Objects {
		var obj *schemabuilder.Object
		var goType reflect.Type
		if os.Type == "Query" {
			obj = schema.Query()
		} else if os.Type == "Mutation" {
			obj = schema.Mutation()
		} else {
			goType = ObjTypes[os.Type]
			obj = schema.Object(os.Type, reflect.New(goType).Elem().Interface())
		}
		for i := range os.Fields {
			f := &os.Fields[i]
			m, ok := modes[os.Type+"."+f.Name]
			if !ok {
				m = Mode{Kind: "plain", Ctx: true, K: -100}
			}
			registerField(s, env, obj, os.Type, goType, f, m)
		}
	}
	if extra != nil {
		extra(schema)
	}
	mut := schema.Mutation()
	mut.FieldFunc("bump", func(ctx context.Context, a BumpArgs) bool {
		if env.OnMutate != nil {
			env.OnMutate(ctx, a.Typ, a.Id)
		}
		return true
	})
	// a mutation that fails the way its argument says
	mut.FieldFunc("bumpErr", func(ctx context.Context, a BumpErrArgs) (bool, error) {
		switch a.Kind {
		case "canceled":
			return false, context.Canceled
		case "wrapped":
			return false, fmt.Errorf("write failed: %w", context.Canceled)
		case "safe":
			return false, graphql.NewSafeError("mutation refused")
		case "panic":
			panic("mutation exploded SECRETTOKEN")
		}
		return false, errors.New("mutation failed SECRETTOKEN")
	})
	built, err := schema.Build()
	if err != nil {
		return nil, err
	}
	return &Bound{Spec: s, Modes: modes, Schema: built, Env: env}, nil
}

func registerField(s *Spec, env *Env, obj *schemabuilder.Object, typName string, goType reflect.Type, f *FieldSpec, m Mode) {
	var opts []schemabuilder.FieldFuncOption
	if m.K != -100 {
		k := m.K
		opts = append(opts, schemabuilder.NumParallelInvocationsFunc(func(ctx context.Context, n int) int {
			switch k {
			case 1000:
				return n
			case 1005:
				return n + 5
			}
			return k
		}))
	}
	retType := f.GoType()
	key := typName + "." + f.Name

	// ---- plain / expensive resolver (also the fallback of batchfb) ----
	mkPlain := func(fallback bool) interface{} {
		var in []reflect.Type
		if m.Ctx {
			in = append(in, ctxType)
		}
		switch f.Recv {
		case "ptr":
			in = append(in, reflect.PtrTo(goType))
		case "val":
			in = append(in, goType)
		}
		if f.Args != "" {
			in = append(in, ArgTypes[f.Args])
		}
		out := []reflect.Type{retType}
		if f.Ret == "void" {
			out = nil
		}
		if f.HasErr {
			out = append(out, errorType)
		}
		ft := reflect.FuncOf(in, out, false)
		return reflect.MakeFunc(ft, func(args []reflect.Value) (results []reflect.Value) {
			if f.Ret == "void" {
				defer func() {
					if len(results) > 0 {
						results = results[1:] // no result value
					}
				}()
			}
			i := 0
			var ctx context.Context
			if m.Ctx {
				ctx, _ = args[i].Interface().(context.Context)
				i++
			}
			var id int64
			if f.Recv != "none" {
				id = ObjID(args[i])
				i++
			}
			var a ArgVal
			if f.Args != "" {
				a = argVal(f.Args, args[i])
			}
			env.perturb().yield()
			if st := env.stats(); st != nil {
				st.mu.Lock()
				if fallback {
					st.FallbackCalls++
				} else {
					st.PlainCalls++
				}
				if m.Kind == "expensive" || fallback {
					st.ExpensiveObjs[key]++
				}
				st.perField[key]++
				st.mu.Unlock()
			}
			if env.OnCall != nil {
				env.OnCall(typName, id, f)
			}
			if env.OnCallCtx != nil && ctx != nil {
				env.OnCallCtx(ctx, typName, id, f)
			}
			var ferr error
			if env.Fault != nil {
				ferr = env.Fault(typName, id, f, a, false)
			}
			if ferr != nil {
				if pe, ok := ferr.(PanicErr); ok {
					panic(pe.Msg)
				}
				if f.HasErr {
					return []reflect.Value{reflect.Zero(retType), errVal(ferr)}
				}
				panic(ferr.Error())
			}
			res := s.Compute(typName, id, f, a)
			env.perturb().yield()
			if f.HasErr {
				return []reflect.Value{res, errVal(nil)}
			}
			return []reflect.Value{res}
		}).Interface()
	}

	mkBatch := func() interface{} {
		var in []reflect.Type
		if m.Ctx {
			in = append(in, ctxType)
		}
		elem := reflect.PtrTo(goType)
		if f.Recv == "val" {
			elem = goType
		}
		in = append(in, reflect.MapOf(indexType, elem))
		if f.Args != "" {
			in = append(in, ArgTypes[f.Args])
		}
		outMap := reflect.MapOf(indexType, retType)
		out := []reflect.Type{outMap}
		if f.Ret == "void" {
			out = nil
		}
		if f.HasErr {
			out = append(out, errorType)
		}
		ft := reflect.FuncOf(in, out, false)
		return reflect.MakeFunc(ft, func(args []reflect.Value) (results []reflect.Value) {
			if f.Ret == "void" {
				defer func() {
					if len(results) > 0 {
						results = results[1:] // no result map
					}
				}()
			}
			i := 0
			var ctx context.Context
			if m.Ctx {
				ctx, _ = args[i].Interface().(context.Context)
				i++
			}
			srcs := args[i]
			i++
			var a ArgVal
			if f.Args != "" {
				a = argVal(f.Args, args[i])
			}
			env.perturb().yield()
			if st := env.stats(); st != nil {
				st.mu.Lock()
				st.BatchCalls++
				if srcs.Len() >= 2 {
					st.BatchMulti++
				}
				st.perField[key]++
				if st.perField[key] >= 2 && m.K != -100 && m.K != 1 && m.K != 0 && m.K != -1 {
					st.SplitMulti++
				}
				st.mu.Unlock()
			}
			res := reflect.MakeMapWithSize(outMap, srcs.Len())
			iter := srcs.MapRange()
			var ferr error
			for iter.Next() {
				id := ObjID(iter.Value())
				if env.OnCall != nil {
					env.OnCall(typName, id, f)
				}
				if env.OnCallCtx != nil && ctx != nil {
					env.OnCallCtx(ctx, typName, id, f)
				}
				if env.Fault != nil && ferr == nil {
					ferr = env.Fault(typName, id, f, a, true)
				}
				v := s.Compute(typName, id, f, a)
				// nil pointer results are omitted from the map half of the time
				if (v.Kind() == reflect.Ptr) && v.IsNil() && h(f.Seed, id, "omit")%2 == 0 {
					continue
				}
				res.SetMapIndex(iter.Key(), v)
			}
			env.perturb().yield()
			if ferr != nil {
				if pe, ok := ferr.(PanicErr); ok {
					panic(pe.Msg)
				}
				if f.HasErr {
					return []reflect.Value{reflect.Zero(outMap), errVal(ferr)}
				}
				panic(ferr.Error())
			}
			if f.HasErr {
				return []reflect.Value{res, errVal(nil)}
			}
			return []reflect.Value{res}
		}).Interface()
	}

	// a list result is never missing from the map (an empty list may be a nil slice), so a
	// batch func over a list kind may promise NonNullable; decided by the field's seed
	listNN := strings.HasPrefix(f.Ret, "list") && h(f.Seed, "listnn")%2 == 0
	switch m.Kind {
	case "batch":
		if listNN {
			opts = append(opts, schemabuilder.NonNullable)
		}
		obj.BatchFieldFunc(f.Name, mkBatch(), opts...)
	case "batchfb":
		switch f.Ret {
		case "int64", "string", "enumA", "obj":
			// batch funcs drop NonNull from non-list results unless asked; the fallback keeps
			// it, and thunder requires both to agree
			opts = append(opts, schemabuilder.NonNullable)
		}
		if listNN {
			opts = append(opts, schemabuilder.NonNullable)
		}
		obj.BatchFieldFuncWithFallback(f.Name, mkBatch(), mkPlain(true), func(ctx context.Context) bool {
			if v, ok := ctx.Value(fallbackKey{}).(bool); ok {
				return !v
			}
			return true
		}, opts...)
	case "expensive":
		opts = append(opts, schemabuilder.Expensive)
		obj.FieldFunc(f.Name, mkPlain(false), opts...)
	default:
		obj.FieldFunc(f.Name, mkPlain(false), opts...)
	}
}

// BumpErrArgs: how the failing mutation fails.
type BumpErrArgs struct{ Kind string }

// BumpArgs are the arguments of the generated mutation.
type BumpArgs struct {
	Typ string
	Id  int64
}

// PanicErr asks a generated resolver to panic with Msg instead of returning an error.
type PanicErr struct{ Msg string }

func (p PanicErr) Error() string { return p.Msg }
