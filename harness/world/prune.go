package world

// Prune returns the query obtained by textually deleting every node whose directives
// exclude it and dropping the directives from the rest; fragment definitions that are no
// longer spread anywhere are dropped, as are variable definitions that are no longer used.
func Prune(q *Query) *Query {
	r := &Ref{Q: q}
	out := &Query{OpName: q.OpName, Kind: q.Kind, Values: map[string]interface{}{}}
	var pruneSels func([]Sel) []Sel
	pruneSels = func(ss []Sel) []Sel {
		var res []Sel
		for _, s := range ss {
			if !r.included(s.Dirs) {
				continue
			}
			c := s
			c.Dirs = nil
			if s.Sub != nil {
				c.Sub = pruneSels(s.Sub)
			}
			res = append(res, c)
		}
		return res
	}
	out.Sels = pruneSels(q.Sels)
	frs := map[string]FragDef{}
	for _, f := range q.Frags {
		frs[f.Name] = FragDef{Name: f.Name, On: f.On, Sels: pruneSels(f.Sels)}
	}
	used := map[string]bool{}
	usedVars := map[string]bool{}
	var walk func([]Sel)
	walk = func(ss []Sel) {
		for _, s := range ss {
			for _, a := range s.Args {
				if a.Var != "" {
					usedVars[a.Var] = true
				}
			}
			if s.Kind == "spread" && !used[s.Frag] {
				used[s.Frag] = true
				walk(frs[s.Frag].Sels)
			}
			walk(s.Sub)
		}
	}
	walk(out.Sels)
	for _, f := range q.Frags {
		if used[f.Name] {
			out.Frags = append(out.Frags, frs[f.Name])
		}
	}
	for _, v := range q.Vars {
		if usedVars[v.Name] {
			out.Vars = append(out.Vars, v)
			if val, ok := q.Values[v.Name]; ok {
				out.Values[v.Name] = val
			}
		}
	}
	return out
}

// HasEmptySelection reports whether some composite selection ended up without
// selections (not printable as GraphQL).
func HasEmptySelection(q *Query) bool {
	var bad func([]Sel, bool) bool
	bad = func(ss []Sel, composite bool) bool {
		if composite && len(ss) == 0 {
			return true
		}
		for _, s := range ss {
			if (s.Kind == "inline" || s.Sub != nil) && bad(s.Sub, true) {
				return true
			}
		}
		return false
	}
	if bad(q.Sels, true) {
		return true
	}
	for _, f := range q.Frags {
		if bad(f.Sels, true) {
			return true
		}
	}
	return false
}

// InjectUnionTypename returns a copy of q in which every union selection set that does not
// select a plain `__typename` itself gets `<alias>: __typename` as its first selection. It is
// used to model a gateway that adds __typename under unions for its own dispatch.
func InjectUnionTypename(q *Query, s *Spec, alias string) *Query {
	out := &Query{OpName: q.OpName, Kind: q.Kind, Vars: q.Vars, Values: q.Values}
	var walk func(obj string, isUnion bool, ss []Sel) []Sel
	walk = func(obj string, isUnion bool, ss []Sel) []Sel {
		res := make([]Sel, 0, len(ss)+1)
		own := false
		for _, x := range ss {
			c := x
			switch x.Kind {
			case "field":
				if x.Name == "__typename" && x.Alias == "" && len(x.Dirs) == 0 {
					own = true
				}
				if x.Sub != nil && !isUnion {
					if tf := s.FieldOf(obj, x.Name); tf != nil {
						comp, u := Composite(tf.GoType)
						c.Sub = walk(comp, u, x.Sub)
					}
				}
			case "inline":
				if isUnion && x.On != obj {
					c.Sub = walk(x.On, false, x.Sub) // member fragment
				} else {
					c.Sub = walk(obj, isUnion, x.Sub)
				}
			}
			res = append(res, c)
		}
		if isUnion && !own {
			res = append([]Sel{{Kind: "field", Name: "__typename", Alias: alias}}, res...)
		}
		return res
	}
	out.Sels = walk(q.Root(), false, q.Sels)
	for _, f := range q.Frags {
		_, isU := UnionTypes[f.On]
		out.Frags = append(out.Frags, FragDef{Name: f.Name, On: f.On, Sels: walk(f.On, isU, f.Sels)})
	}
	return out
}
