package world

import (
	"fmt"
	"reflect"
	"sort"

	"github.com/samsarahq/thunder/graphql"
	"github.com/samsarahq/thunder/graphql/schemabuilder"
	"pgregory.net/rapid"
)

// Federated object pool: flat structs whose fields are pure functions of Id.
type F1 struct {
	Id    int64
	OrgId int64
	Name  string
	Tags  []string
	POpt  *string
}
type F2 struct {
	Id    int64
	OrgId int64
	Label string
	Tags  []string
	POpt  *string
}
type F3 struct {
	Id    int64
	OrgId int64
	Flag  bool
	Tags  []string
	POpt  *string
}
type FU struct {
	schemabuilder.Union
	*F1
	*F2
}

// key struct variants a service may declare for FetchObjectFromKeys
type F1KeyId struct{ Id int64 }
type F2KeyId struct{ Id int64 }
type F3KeyId struct{ Id int64 }
type F1KeyOrg struct {
	Id    int64
	OrgId int64
}
type F2KeyOrg struct {
	Id    int64
	OrgId int64
}
type F3KeyOrg struct {
	Id    int64
	OrgId int64
}

// key structs with a list-typed and a nullable key field
type F1KeyTags struct {
	Id   int64
	Tags []string
	POpt *string
}
type F2KeyTags struct {
	Id   int64
	Tags []string
	POpt *string
}
type F3KeyTags struct {
	Id   int64
	Tags []string
	POpt *string
}

// the GraphQL name of the third object contains an underscore (federation field names are
// <service>_<object>)
var fedNames = []string{"F1", "F2", "F_3"}

var fedKeyTypes = map[string]map[string]reflect.Type{
	"F1":  {"all": reflect.TypeOf(&F1{}), "id": reflect.TypeOf(F1KeyId{}), "org": reflect.TypeOf(F1KeyOrg{}), "tags": reflect.TypeOf(F1KeyTags{})},
	"F2":  {"all": reflect.TypeOf(&F2{}), "id": reflect.TypeOf(F2KeyId{}), "org": reflect.TypeOf(F2KeyOrg{}), "tags": reflect.TypeOf(F2KeyTags{})},
	"F_3": {"all": reflect.TypeOf(&F3{}), "id": reflect.TypeOf(F3KeyId{}), "org": reflect.TypeOf(F3KeyOrg{}), "tags": reflect.TypeOf(F3KeyTags{})},
}

func init() {
	ObjTypes["F1"], ObjTypes["F2"], ObjTypes["F_3"] = reflect.TypeOf(F1{}), reflect.TypeOf(F2{}), reflect.TypeOf(F3{})
	UnionTypes["FU"] = reflect.TypeOf(FU{})
	UnionMembers["FU"] = []string{"F1", "F2"}
}

func mkFed(typ string, id int64) interface{} {
	tags := []string{}
	for i := int64(0); i < id%3; i++ {
		tags = append(tags, fmt.Sprintf("t%d", i))
	}
	var opt *string
	if id%3 != 0 {
		s := fmt.Sprintf("o%d", id)
		opt = &s
	}
	switch typ {
	case "F1":
		return &F1{Id: id, OrgId: id % 3, Name: fmt.Sprintf("n%d", id), Tags: tags, POpt: opt}
	case "F2":
		return &F2{Id: id, OrgId: id % 2, Label: fmt.Sprintf("l%d", id), Tags: tags, POpt: opt}
	case "F_3":
		return &F3{Id: id, OrgId: id % 4, Flag: id%2 == 0, Tags: tags, POpt: opt}
	}
	return nil
}

// FedPartition assigns every generated field ("Type.field") to the services that serve it
// and fixes, per service and object, the key struct variant of FetchObjectFromKeys.
type FedPartition struct {
	Services []string            `json:"services"`
	Fields   map[string][]string `json:"fields"`
	Keys     map[string]string   `json:"keys"` // "service/F1" -> all | id | org
}

var fedRetKinds = []string{"int64", "string", "pstring", "pobj", "pobj", "listpobj", "listpobj", "union", "listunion", "enumA", "void"}

// GenFedSpec draws a spec over the federated object pool.
func GenFedSpec(t *rapid.T) *Spec {
	s := &Spec{NIds: rapid.IntRange(1, 5).Draw(t, "nids")}
	gen := func(name string, root bool) FieldSpec {
		f := FieldSpec{Name: name, Seed: rapid.IntRange(0, 1000).Draw(t, "seed"), Recv: "ptr", HasErr: rapid.Bool().Draw(t, "haserr")}
		if root {
			f.Recv = "none"
		}
		f.Ret = rapid.SampledFrom(fedRetKinds).Draw(t, "ret")
		switch f.Ret {
		case "pobj", "listpobj":
			f.Target = rapid.SampledFrom(fedNames).Draw(t, "target")
		case "union", "listunion":
			f.Target = "FU"
		}
		f.Args = rapid.SampledFrom([]string{"", "", "A"}).Draw(t, "args")
		f.NilMod = rapid.SampledFrom([]int{0, 2, 3}).Draw(t, "nilmod")
		f.MaxLen = rapid.SampledFrom([]int{0, 1, 3, 4}).Draw(t, "maxlen")
		f.NilElem = rapid.IntRange(0, 2).Draw(t, "nilelem") == 0 // lists of objects / unions with null entries
		return f
	}
	q := ObjSpec{Type: "Query"}
	for i, o := range fedNames {
		q.Fields = append(q.Fields, FieldSpec{Name: "all" + o, Ret: "listpobj", Target: o, Seed: 31 + i, Recv: "none", MaxLen: 4})
	}
	q.Fields = append(q.Fields, FieldSpec{Name: "allFU", Ret: "listunion", Target: "FU", Seed: 41, Recv: "none", MaxLen: 4})
	for k := 0; k < rapid.IntRange(0, 3).Draw(t, "nroot"); k++ {
		q.Fields = append(q.Fields, gen(fmt.Sprintf("r%d", k), true))
	}
	s.Objects = append(s.Objects, q)
	// mutation root fields (pure functions here: what matters is how the gateway plans and
	// routes a mutation whose result needs fields of other services)
	mu := ObjSpec{Type: "Mutation"}
	for k := 0; k < rapid.IntRange(1, 2).Draw(t, "nmut"); k++ {
		f := gen(fmt.Sprintf("m%d", k), true)
		if k == 0 {
			f.Ret, f.Target, f.NilMod = "pobj", rapid.SampledFrom(fedNames).Draw(t, "mtarget"), 0
		}
		mu.Fields = append(mu.Fields, f)
	}
	s.Objects = append(s.Objects, mu)
	for _, o := range fedNames {
		os := ObjSpec{Type: o}
		for k := 0; k < rapid.IntRange(1, 5).Draw(t, "nfields"); k++ {
			os.Fields = append(os.Fields, gen(fmt.Sprintf("f%d", k), false))
		}
		s.Objects = append(s.Objects, os)
	}
	return s
}

// GenPartition distributes the spec's fields over 2-4 services.
func GenPartition(t *rapid.T, s *Spec) *FedPartition {
	n := rapid.IntRange(2, 4).Draw(t, "nservices")
	p := &FedPartition{Fields: map[string][]string{}, Keys: map[string]string{}}
	for i := 0; i < n; i++ {
		p.Services = append(p.Services, fmt.Sprintf("s%d", i+1))
	}
	// the gateway refuses a mutation whose root fields live on more than one service ("only
	// support 1 mutation step to maintain ordering"): all mutation fields go to one service
	mutSvc := rapid.IntRange(0, n-1).Draw(t, "mutsvc")
	for _, o := range s.Objects {
		for _, f := range o.Fields {
			k := rapid.IntRange(0, n-1).Draw(t, "svc")
			if o.Type == "Mutation" {
				k = mutSvc
			}
			svcs := []string{p.Services[k]}
			if o.Type != "Mutation" && rapid.IntRange(0, 4).Draw(t, "second") == 0 {
				k2 := rapid.IntRange(0, n-1).Draw(t, "svc2")
				if k2 != k {
					svcs = append(svcs, p.Services[k2])
				}
			}
			sort.Strings(svcs)
			p.Fields[o.Type+"."+f.Name] = svcs
		}
	}
	for _, svc := range p.Services {
		for _, o := range fedNames {
			p.Keys[svc+"/"+o] = rapid.SampledFrom([]string{"all", "id", "org", "tags"}).Draw(t, "keyvariant")
		}
	}
	return p
}

func (p *FedPartition) serves(svc, field string) bool {
	for _, s := range p.Fields[field] {
		if s == svc {
			return true
		}
	}
	return false
}

func fetchFunc(typ, variant string) interface{} {
	keyT := fedKeyTypes[typ][variant]
	argT := reflect.StructOf([]reflect.StructField{{Name: "Keys", Type: reflect.SliceOf(keyT)}})
	retT := reflect.SliceOf(reflect.PtrTo(ObjTypes[typ]))
	ft := reflect.FuncOf([]reflect.Type{argT}, []reflect.Type{retT}, false)
	return reflect.MakeFunc(ft, func(in []reflect.Value) []reflect.Value {
		keys := in[0].Field(0)
		out := reflect.MakeSlice(retT, 0, keys.Len())
		for i := 0; i < keys.Len(); i++ {
			k := keys.Index(i)
			if k.Kind() == reflect.Ptr {
				k = k.Elem()
			}
			// the realistic "fetch by key" pattern: rebuild the full object from its id
			out = reflect.Append(out, reflect.ValueOf(mkFed(typ, k.FieldByName("Id").Int())))
		}
		return []reflect.Value{out}
	}).Interface()
}

// FedService is one service's schema plus the environment of its resolvers.
type FedService struct {
	Name   string
	Schema *graphql.Schema
	Env    *Env
}

// BindFed registers, per service, the fields assigned to it.
func BindFed(s *Spec, p *FedPartition, modes Modes) (svcs []*FedService, err error) {
	defer func() {
		if r := recover(); r != nil {
			err = fmt.Errorf("federated schema registration panicked: %v", r)
		}
	}()
	for _, svc := range p.Services {
		env := &Env{}
		schema := schemabuilder.NewSchemaWithName(svc)
		schema.Enum(EnumA(0), EnumAMap)
		for _, os := range s.Objects {
			var obj *schemabuilder.Object
			var goType reflect.Type
			if os.Type == "Query" {
				obj = schema.Query()
			} else if os.Type == "Mutation" {
				obj = schema.Mutation()
			} else {
				goType = ObjTypes[os.Type]
				obj = schema.Object(os.Type, reflect.New(goType).Elem().Interface(), schemabuilder.FetchObjectFromKeys(fetchFunc(os.Type, p.Keys[svc+"/"+os.Type])))
				obj.Key("id")
			}
			for i := range os.Fields {
				f := &os.Fields[i]
				if !p.serves(svc, os.Type+"."+f.Name) {
					continue
				}
				m, ok := modes[os.Type+"."+f.Name]
				if !ok {
					m = Mode{Kind: "plain", Ctx: true, K: -100}
				}
				registerField(s, env, obj, os.Type, goType, f, m)
			}
		}
		schema.Mutation()
		built, err := schema.Build()
		if err != nil {
			return nil, fmt.Errorf("service %s: %v", svc, err)
		}
		svcs = append(svcs, &FedService{Name: svc, Schema: built, Env: env})
	}
	return svcs, nil
}

// GenFedSpecFixed is a small fixed federated spec for pinned cases.
func GenFedSpecFixed() *Spec {
	s := &Spec{NIds: 3}
	q := ObjSpec{Type: "Query"}
	for i, o := range fedNames {
		q.Fields = append(q.Fields, FieldSpec{Name: "all" + o, Ret: "listpobj", Target: o, Seed: 31 + i, Recv: "none", MaxLen: 4})
	}
	q.Fields = append(q.Fields, FieldSpec{Name: "allFU", Ret: "listunion", Target: "FU", Seed: 41, Recv: "none", MaxLen: 4})
	s.Objects = append(s.Objects, q)
	for _, o := range fedNames {
		s.Objects = append(s.Objects, ObjSpec{Type: o, Fields: []FieldSpec{
			{Name: "f0", Ret: "int64", Seed: 1, Recv: "ptr", Args: "A"},
			{Name: "f1", Ret: "listpobj", Target: "F2", Seed: 2, Recv: "ptr", MaxLen: 3},
			{Name: "f2", Ret: "pobj", Target: "F_3", Seed: 3, Recv: "ptr", NilMod: 2, HasErr: true},
			{Name: "f3", Ret: "union", Target: "FU", Seed: 4, Recv: "ptr", NilMod: 3},
		}})
	}
	return s
}
