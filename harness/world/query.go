package world

import (
	"encoding"
	"encoding/json"
	"fmt"
	"reflect"
	"sort"
	"strings"
	"time"
	"unicode"

	"pgregory.net/rapid"
)

// ---------- type model (derived from Go types + spec, independent of thunder) ----------

type TField struct {
	Name   string
	GoType reflect.Type
	Spec   *FieldSpec // nil for struct fields
	Index  []int      // struct field index
	Key    bool
}

var timeType = reflect.TypeOf(time.Time{})
var textMarshalerType = reflect.TypeOf((*encoding.TextMarshaler)(nil)).Elem()
var bytesType = reflect.TypeOf([]byte(nil))

func lowerFirst(s string) string {
	r := []rune(s)
	r[0] = unicode.ToLower(r[0])
	return string(r)
}

// Composite classifies a Go type: "" for leaves, else the object/union name.
func Composite(t reflect.Type) (name string, isUnion bool) {
	for {
		if t == bytesType {
			return "", false
		}
		if t.Kind() == reflect.Ptr || t.Kind() == reflect.Slice {
			t = t.Elem()
			continue
		}
		break
	}
	if t.Kind() != reflect.Struct || t == timeType || t.Implements(textMarshalerType) {
		return "", false
	}
	if _, ok := UnionTypes[t.Name()]; ok {
		return t.Name(), true
	}
	return TypeName(t), false
}

// FieldsOf lists the graphql fields of an object type: exported struct fields (tags
// honoured) and the spec's generated field funcs.
func (s *Spec) FieldsOf(obj string) []TField {
	var out []TField
	if gt, ok := ObjTypes[obj]; ok {
		for i := 0; i < gt.NumField(); i++ {
			sf := gt.Field(i)
			if sf.PkgPath != "" {
				continue
			}
			tags := strings.Split(sf.Tag.Get("graphql"), ",")
			name := tags[0]
			if name == "-" {
				continue
			}
			if name == "" {
				name = lowerFirst(sf.Name)
			}
			key := false
			for _, tg := range tags[1:] {
				if tg == "key" {
					key = true
				}
			}
			out = append(out, TField{Name: name, GoType: sf.Type, Index: sf.Index, Key: key})
		}
	}
	if os := s.Obj(obj); os != nil {
		for i := range os.Fields {
			f := &os.Fields[i]
			out = append(out, TField{Name: f.Name, GoType: f.GoType(), Spec: f})
		}
	}
	return out
}

func (s *Spec) FieldOf(obj, name string) *TField {
	for _, f := range s.FieldsOf(obj) {
		if f.Name == name {
			f := f
			return &f
		}
	}
	return nil
}

// ---------- query AST ----------

type Dir struct {
	Name string `json:"name"` // skip | include
	Lit  *bool  `json:"lit,omitempty"`
	Var  string `json:"var,omitempty"`
}

type Arg struct {
	Name string      `json:"name"`
	Val  interface{} `json:"val,omitempty"` // int64 (as float64 after JSON), string
	Var  string      `json:"var,omitempty"`
}

type Sel struct {
	Kind  string `json:"kind"` // field | inline | spread
	Alias string `json:"alias,omitempty"`
	Name  string `json:"name,omitempty"`
	Args  []Arg  `json:"args,omitempty"`
	Sub   []Sel  `json:"sub,omitempty"`
	On    string `json:"on,omitempty"`
	Frag  string `json:"frag,omitempty"`
	Dirs  []Dir  `json:"dirs,omitempty"`
}

type FragDef struct {
	Name string `json:"name"`
	On   string `json:"on"`
	Sels []Sel  `json:"sels"`
}

type VarDef struct {
	Name    string      `json:"name"`
	Type    string      `json:"type"`
	Default interface{} `json:"default,omitempty"`
	HasDef  bool        `json:"has_def,omitempty"`
}

type Query struct {
	OpName string                 `json:"op_name,omitempty"`
	Kind   string                 `json:"kind,omitempty"` // "" = query
	Vars   []VarDef               `json:"vars,omitempty"`
	Values map[string]interface{} `json:"values,omitempty"`
	Sels   []Sel                  `json:"sels"`
	Frags  []FragDef              `json:"frags,omitempty"`
}

func (q *Query) Frag(name string) *FragDef {
	for i := range q.Frags {
		if q.Frags[i].Name == name {
			return &q.Frags[i]
		}
	}
	return nil
}

func (s Sel) Key() string {
	if s.Alias != "" {
		return s.Alias
	}
	return s.Name
}

func printVal(v interface{}) string {
	switch v := v.(type) {
	case string:
		b, _ := json.Marshal(v)
		return string(b)
	case bool:
		return fmt.Sprint(v)
	case int64:
		return fmt.Sprint(v)
	case int:
		return fmt.Sprint(v)
	case float64:
		if v == float64(int64(v)) {
			return fmt.Sprint(int64(v))
		}
		return fmt.Sprint(v)
	}
	return fmt.Sprint(v)
}

func printDirs(b *strings.Builder, ds []Dir) {
	for _, d := range ds {
		b.WriteString(" @" + d.Name + "(if: ")
		if d.Var != "" {
			b.WriteString("$" + d.Var)
		} else {
			b.WriteString(fmt.Sprint(*d.Lit))
		}
		b.WriteString(")")
	}
}

func printSels(b *strings.Builder, sels []Sel, ind string) {
	b.WriteString("{\n")
	for _, s := range sels {
		b.WriteString(ind + "  ")
		switch s.Kind {
		case "field":
			if s.Alias != "" && s.Alias != s.Name {
				b.WriteString(s.Alias + ": ")
			}
			b.WriteString(s.Name)
			if len(s.Args) > 0 {
				b.WriteString("(")
				for i, a := range s.Args {
					if i > 0 {
						b.WriteString(", ")
					}
					b.WriteString(a.Name + ": ")
					if a.Var != "" {
						b.WriteString("$" + a.Var)
					} else {
						b.WriteString(printVal(a.Val))
					}
				}
				b.WriteString(")")
			}
			printDirs(b, s.Dirs)
			if s.Sub != nil {
				b.WriteString(" ")
				printSels(b, s.Sub, ind+"  ")
			}
		case "inline":
			b.WriteString("... on " + s.On)
			printDirs(b, s.Dirs)
			b.WriteString(" ")
			printSels(b, s.Sub, ind+"  ")
		case "spread":
			b.WriteString("..." + s.Frag)
			printDirs(b, s.Dirs)
		}
		b.WriteString("\n")
	}
	b.WriteString(ind + "}")
}

// Root is the name of the query's root object type.
func (q *Query) Root() string {
	if q.Kind == "mutation" {
		return "Mutation"
	}
	return "Query"
}

// TypeName is the GraphQL name a pool struct type is registered under (its Go name, unless
// the pool registers it under another one).
func TypeName(t reflect.Type) string {
	if n, ok := typeNameOverride[t.Name()]; ok {
		return n
	}
	return t.Name()
}

var typeNameOverride = map[string]string{"F3": "F_3"}

// Text prints the query as GraphQL.
func (q *Query) Text() string {
	var b strings.Builder
	kind := q.Kind
	if kind == "" {
		kind = "query"
	}
	if q.OpName != "" || len(q.Vars) > 0 || kind != "query" {
		b.WriteString(kind + " " + q.OpName)
		if len(q.Vars) > 0 {
			b.WriteString("(")
			for i, v := range q.Vars {
				if i > 0 {
					b.WriteString(", ")
				}
				b.WriteString("$" + v.Name + ": " + v.Type)
				if v.HasDef {
					b.WriteString(" = " + printVal(v.Default))
				}
			}
			b.WriteString(")")
		}
		b.WriteString(" ")
	}
	printSels(&b, q.Sels, "")
	for _, f := range q.Frags {
		b.WriteString("\nfragment " + f.Name + " on " + f.On + " ")
		printSels(&b, f.Sels, "")
	}
	return b.String()
}

// VarValue resolves a variable the way GraphQL does: supplied non-null value, else default.
func (q *Query) VarValue(name string) interface{} {
	if v, ok := q.Values[name]; ok && v != nil {
		return v
	}
	for _, d := range q.Vars {
		if d.Name == name && d.HasDef {
			return d.Default
		}
	}
	return nil
}

// ---------- generator ----------

type GenOpts struct {
	Directives     bool // attach @skip/@include (C19)
	MaxDepth       int
	FragOnUnion    bool // allow fragments whose condition is the union itself (separate sub-generator)
	UncoveredUnion bool // allow union members without any applicable fragment (separate sub-generator)
	NoDupUnionFrag bool // at most one fragment per union member (exclusion of a known finding)
	NoUnionTypename bool // no bare __typename under a union together with shared named fragments
	UnionTypenameAlways bool // always select __typename under unions (federation gateway injects it)
	Mutation       bool // a mutation: root selections come from the spec's "Mutation" object
	ShareBias      bool // favour named fragments spread at several places, each followed by a merged copy of one of the fragment's composite fields
}

// Features records which interesting shapes a generated query contains.
type Features struct {
	MergedAlias     int // same response key selected >=2 times in one scope with sub-selections
	SpreadTwice     int // some named fragment spread >=2 times
	UnionFields     int
	DupUnionFrag    int // >=2 fragments for one union member
	FragOnUnion     int
	UncoveredMember int
	UnionTypename   int
	Directives      int
	DirOnSpread     int
	DirBoth         int
	DirUnderUnion   int
	DirDupAlias     int
	SpreadDiffConds int
	NamedFrags      int
	Depth           int
	AliasVariants   int
	DirOnUnionFrag  int // directives on a fragment whose type condition is the union itself
}

type qgen struct {
	t      *rapid.T
	s      *Spec
	o      GenOpts
	q      *Query
	feat   *Features
	nsel   int
	aliasOf map[string]string // name|argskey -> alias
	spreadCount map[string]int
	spreadConds map[string]map[string]bool
	boolVars []string
}

func (g *qgen) budget() bool { return g.nsel < 60 }

func (g *qgen) genDirs(underUnion bool) []Dir {
	if !g.o.Directives || rapid.IntRange(0, 2).Draw(g.t, "hasdir") != 0 {
		return nil
	}
	mk := func(name string) Dir {
		d := Dir{Name: name}
		if rapid.IntRange(0, 2).Draw(g.t, "dirvar") == 0 {
			// variable condition
			vn := fmt.Sprintf("b%d", len(g.boolVars))
			val := rapid.Bool().Draw(g.t, "bval")
			vd := VarDef{Name: vn, Type: "bool"}
			switch rapid.IntRange(0, 2).Draw(g.t, "bmode") {
			case 0:
				g.q.Values[vn] = val
			case 1: // default used
				vd.HasDef, vd.Default = true, val
			default: // default overridden
				vd.HasDef, vd.Default = true, !val
				g.q.Values[vn] = val
			}
			g.q.Vars = append(g.q.Vars, vd)
			g.boolVars = append(g.boolVars, vn)
			d.Var = vn
		} else {
			b := rapid.Bool().Draw(g.t, "dirlit")
			d.Lit = &b
		}
		return d
	}
	g.feat.Directives++
	if underUnion {
		g.feat.DirUnderUnion++
	}
	switch rapid.IntRange(0, 4).Draw(g.t, "dirkind") {
	case 0, 1:
		return []Dir{mk("skip")}
	case 2, 3:
		return []Dir{mk("include")}
	default:
		g.feat.DirBoth++
		if rapid.Bool().Draw(g.t, "dirorder") {
			return []Dir{mk("skip"), mk("include")}
		}
		return []Dir{mk("include"), mk("skip")}
	}
}

func (g *qgen) dirKey(ds []Dir) string {
	var parts []string
	for _, d := range ds {
		v := false
		if d.Var != "" {
			v, _ = g.q.VarValue(d.Var).(bool)
		} else {
			v = *d.Lit
		}
		parts = append(parts, fmt.Sprintf("%s=%v", d.Name, v))
	}
	sort.Strings(parts)
	return strings.Join(parts, ",")
}

func (g *qgen) genArgs(f *TField) ([]Arg, string) {
	if f.Spec == nil || f.Spec.Args == "" {
		return nil, ""
	}
	mkArg := func(name string, val interface{}, typ string) Arg {
		if rapid.IntRange(0, 3).Draw(g.t, "argvar") == 0 {
			vn := fmt.Sprintf("v%d", len(g.q.Vars))
			vd := VarDef{Name: vn, Type: typ}
			switch rapid.IntRange(0, 2).Draw(g.t, "vmode") {
			case 0:
				g.q.Values[vn] = val
			case 1:
				vd.HasDef, vd.Default = true, val
				if rapid.Bool().Draw(g.t, "explicitnull") {
					g.q.Values[vn] = nil
				}
			default:
				vd.HasDef = true
				if s, ok := val.(string); ok {
					vd.Default = s + "x"
				} else {
					vd.Default = val.(int64) + 1
				}
				g.q.Values[vn] = val
			}
			g.q.Vars = append(g.q.Vars, vd)
			return Arg{Name: name, Var: vn}
		}
		return Arg{Name: name, Val: val}
	}
	switch f.Spec.Args {
	case "A":
		x := int64(rapid.IntRange(0, 3).Draw(g.t, "x"))
		return []Arg{mkArg("x", x, "int64")}, fmt.Sprintf("A%d", x)
	case "B":
		sv := rapid.SampledFrom([]string{"", "p", "q\"r"}).Draw(g.t, "s")
		args := []Arg{mkArg("s", sv, "string")}
		key := "B" + sv
		if rapid.Bool().Draw(g.t, "hasn") {
			n := int64(rapid.IntRange(0, 2).Draw(g.t, "n"))
			args = append(args, mkArg("n", n, "int64"))
			key += fmt.Sprintf("/%d", n)
		}
		return args, key
	}
	return nil, ""
}

// alias: a deterministic function of (field name, args) within one query, so that equal
// response keys always mean equal field and equal arguments (thunder rejects the rest).
func (g *qgen) alias(name, argKey string) string {
	k := name + "|" + argKey
	a, ok := g.aliasOf[k]
	if !ok {
		if argKey != "" {
			a = fmt.Sprintf("%s_%d", name, len(g.aliasOf))
		} else if rapid.IntRange(0, 4).Draw(g.t, "usealias") == 0 {
			a = fmt.Sprintf("al%d_%s", len(g.aliasOf), name)
		}
		g.aliasOf[k] = a
	}
	// a second response key for the same field and arguments: the same field selected under
	// two different aliases in one scope is valid and exercises merging per alias
	if rapid.IntRange(0, 5).Draw(g.t, "aliasvariant") == 0 {
		base := a
		if base == "" {
			base = name
		}
		g.feat.AliasVariants++
		return "w_" + base
	}
	return a
}

func (g *qgen) genField(obj string, f TField, depth int, underUnion bool) Sel {
	g.nsel++
	args, ak := g.genArgs(&f)
	sel := Sel{Kind: "field", Name: f.Name, Args: args, Alias: g.alias(f.Name, ak)}
	comp, isUnion := Composite(f.GoType)
	if comp != "" {
		if isUnion {
			sel.Sub = g.genUnionSels(comp, depth-1)
		} else {
			sel.Sub = g.genObjSels(comp, depth-1, false, map[string]int{})
		}
	}
	sel.Dirs = g.genDirs(underUnion)
	return sel
}

func (g *qgen) leafFields(obj string) []TField {
	var out []TField
	for _, f := range g.s.FieldsOf(obj) {
		if c, _ := Composite(f.GoType); c == "" {
			out = append(out, f)
		}
	}
	return out
}

// genObjSels generates a non-empty selection list for an object parent. scope counts the
// response keys already present in the enclosing collected scope.
func (g *qgen) genObjSels(obj string, depth int, underUnion bool, scope map[string]int) []Sel {
	if depth > g.feat.Depth {
		g.feat.Depth = depth
	}
	fields := g.s.FieldsOf(obj)
	leaves := g.leafFields(obj)
	var sels []Sel
	// always one unconditional leaf first (keeps pruned queries non-empty, C19)
	if len(leaves) > 0 {
		f := leaves[rapid.IntRange(0, len(leaves)-1).Draw(g.t, "leaf")]
		if f.Spec == nil || f.Spec.Args == "" {
			sels = append(sels, Sel{Kind: "field", Name: f.Name, Alias: g.alias(f.Name, "")})
		} else {
			sels = append(sels, Sel{Kind: "field", Name: "__typename"})
		}
	} else {
		sels = append(sels, Sel{Kind: "field", Name: "__typename"})
	}
	scope[sels[0].Key()]++
	g.nsel++
	n := rapid.IntRange(0, 4).Draw(g.t, "nsels")
	for i := 0; i < n && g.budget(); i++ {
		choice := rapid.IntRange(0, 11).Draw(g.t, "selkind")
		switch {
		case choice <= 5 && len(fields) > 0: // field
			f := fields[rapid.IntRange(0, len(fields)-1).Draw(g.t, "field")]
			if c, _ := Composite(f.GoType); c != "" && depth <= 0 {
				continue
			}
			s := g.genField(obj, f, depth, underUnion)
			if scope[s.Key()] > 0 {
				if s.Sub != nil {
					g.feat.MergedAlias++
				}
				if len(s.Dirs) > 0 {
					g.feat.DirDupAlias++
				}
			}
			scope[s.Key()]++
			sels = append(sels, s)
		case choice == 6:
			sels = append(sels, Sel{Kind: "field", Name: "__typename", Dirs: g.genDirs(underUnion)})
			g.nsel++
		case choice == 7 && len(sels) > 0: // repeat an earlier field of this list with a fresh sub-selection
			prev := sels[rapid.IntRange(0, len(sels)-1).Draw(g.t, "dup")]
			if prev.Kind != "field" || prev.Name == "__typename" {
				continue
			}
			f := g.s.FieldOf(obj, prev.Name)
			if f == nil {
				continue
			}
			s := Sel{Kind: "field", Name: prev.Name, Alias: prev.Alias, Args: prev.Args}
			if c, isU := Composite(f.GoType); c != "" {
				if depth <= 0 {
					continue
				}
				if isU {
					s.Sub = g.genUnionSels(c, depth-1)
				} else {
					s.Sub = g.genObjSels(c, depth-1, false, map[string]int{})
				}
				g.feat.MergedAlias++
			}
			s.Dirs = g.genDirs(underUnion)
			if len(s.Dirs) > 0 || len(prev.Dirs) > 0 {
				g.feat.DirDupAlias++
			}
			g.nsel++
			sels = append(sels, s)
		case choice <= 9 && depth > 0: // inline fragment on the parent's own type
			s := Sel{Kind: "inline", On: obj, Sub: g.genObjSels(obj, depth-1, underUnion, scope)}
			s.Dirs = g.genDirs(underUnion)
			sels = append(sels, s)
		case depth > 0: // named fragment spread
			sp := g.genSpread(obj, depth, underUnion, scope)
			sels = append(sels, sp)
			// sometimes follow the spread by an inline fragment that selects one of the
			// fragment's composite fields again, with other sub-selections: the merged copy is
			// then built on top of a selection set that other spreads of the fragment share
			if fd := g.q.Frag(sp.Frag); fd != nil && depth > 1 && (rapid.IntRange(0, 2).Draw(g.t, "followspread") == 0 || g.o.ShareBias) {
				for _, fs := range fd.Sels {
					if fs.Kind != "field" || fs.Sub == nil {
						continue
					}
					tf := g.s.FieldOf(obj, fs.Name)
					if tf == nil {
						continue
					}
					cp := Sel{Kind: "field", Name: fs.Name, Alias: fs.Alias, Args: fs.Args}
					if c, isU := Composite(tf.GoType); c != "" {
						if isU {
							cp.Sub = g.genUnionSels(c, depth-2)
						} else {
							cp.Sub = g.genObjSels(c, depth-2, false, map[string]int{})
						}
						g.feat.MergedAlias++
						g.nsel++
						sels = append(sels, Sel{Kind: "inline", On: obj, Sub: []Sel{cp}})
					}
					break
				}
			}
		}
	}
	return sels
}

func (g *qgen) genSpread(obj string, depth int, underUnion bool, scope map[string]int) Sel {
	// reuse an existing fragment on this type, or define a new one
	var candidates []string
	for _, f := range g.q.Frags {
		if f.On == obj && !strings.HasPrefix(f.Name, "INPROGRESS") {
			candidates = append(candidates, f.Name)
		}
	}
	var name string
	if len(candidates) > 0 && (rapid.IntRange(0, 2).Draw(g.t, "reusefrag") > 0 || g.o.ShareBias) {
		name = candidates[rapid.IntRange(0, len(candidates)-1).Draw(g.t, "whichfrag")]
	} else {
		name = fmt.Sprintf("F%d", len(g.q.Frags))
		// reserve the slot (so nested definitions get other names); fragments never
		// spread themselves because a fragment only becomes a candidate once complete
		idx := len(g.q.Frags)
		g.q.Frags = append(g.q.Frags, FragDef{Name: "INPROGRESS" + name, On: obj})
		sels := g.genObjSels(obj, depth-1, underUnion, map[string]int{})
		g.q.Frags[idx] = FragDef{Name: name, On: obj, Sels: sels}
		g.feat.NamedFrags++
	}
	s := Sel{Kind: "spread", Frag: name}
	s.Dirs = g.genDirs(underUnion)
	if len(s.Dirs) > 0 {
		g.feat.DirOnSpread++
	}
	g.noteSpread(name, s.Dirs)
	return s
}

func (g *qgen) genUnionSels(u string, depth int) []Sel {
	g.feat.UnionFields++
	members := UnionMembers[u]
	var sels []Sel
	if g.o.Directives || g.o.UnionTypenameAlways || (!g.o.NoUnionTypename && rapid.IntRange(0, 2).Draw(g.t, "utypename") == 0) {
		sels = append(sels, Sel{Kind: "field", Name: "__typename"})
		g.feat.UnionTypename++
	}
	if depth < 0 {
		depth = 0
	}
	for _, m := range members {
		nfr := 1
		if !g.o.NoDupUnionFrag && rapid.IntRange(0, 3).Draw(g.t, "dupfrag") == 0 {
			nfr = 2
			g.feat.DupUnionFrag++
		}
		if g.o.UncoveredUnion && rapid.IntRange(0, 2).Draw(g.t, "uncovered") == 0 {
			nfr = 0
			g.feat.UncoveredMember++
		}
		for i := 0; i < nfr; i++ {
			if rapid.IntRange(0, 2).Draw(g.t, "unamed") == 0 {
				sels = append(sels, g.genSpread(m, depth+1, true, map[string]int{}))
			} else {
				s := Sel{Kind: "inline", On: m, Sub: g.genObjSels(m, depth, true, map[string]int{})}
				s.Dirs = g.genDirs(true)
				sels = append(sels, s)
			}
		}
	}
	if g.o.FragOnUnion && rapid.IntRange(0, 2).Draw(g.t, "fragonunion") == 0 {
		g.feat.FragOnUnion++
		sels = append(sels, g.genFragOnUnion(u, depth))
	}
	if len(sels) == 0 {
		sels = append(sels, Sel{Kind: "field", Name: "__typename"})
	}
	// shuffle so that fragments of one member are not always adjacent
	perm := rapid.Permutation(seqInts(len(sels))).Draw(g.t, "uperm")
	out := make([]Sel, len(sels))
	for i, p := range perm {
		out[i] = sels[p]
	}
	return out
}

// genFragOnUnion: a fragment whose type condition is the union itself, inline or named (and
// then possibly spread at several places), carrying directives of its own and holding
// member fragments that carry theirs.
func (g *qgen) genFragOnUnion(u string, depth int) Sel {
	members := UnionMembers[u]
	body := func() []Sel {
		var inner []Sel
		if g.o.Directives || rapid.Bool().Draw(g.t, "futypename") {
			inner = append(inner, Sel{Kind: "field", Name: "__typename"})
		}
		k := rapid.IntRange(1, 2).Draw(g.t, "fumembers")
		for i := 0; i < k; i++ {
			m := members[rapid.IntRange(0, len(members)-1).Draw(g.t, "m")]
			s := Sel{Kind: "inline", On: m, Sub: g.genObjSels(m, depth, true, map[string]int{})}
			s.Dirs = g.genDirs(true)
			inner = append(inner, s)
		}
		return inner
	}
	if rapid.IntRange(0, 2).Draw(g.t, "funamed") != 0 {
		s := Sel{Kind: "inline", On: u, Sub: body()}
		s.Dirs = g.genDirs(true)
		if len(s.Dirs) > 0 {
			g.feat.DirOnUnionFrag++
		}
		return s
	}
	var candidates []string
	for _, f := range g.q.Frags {
		if f.On == u && !strings.HasPrefix(f.Name, "INPROGRESS") {
			candidates = append(candidates, f.Name)
		}
	}
	var name string
	if len(candidates) > 0 && rapid.IntRange(0, 2).Draw(g.t, "reusefrag") > 0 {
		name = candidates[rapid.IntRange(0, len(candidates)-1).Draw(g.t, "whichfrag")]
	} else {
		name = fmt.Sprintf("F%d", len(g.q.Frags))
		idx := len(g.q.Frags)
		g.q.Frags = append(g.q.Frags, FragDef{Name: "INPROGRESS" + name, On: u})
		sels := body()
		g.q.Frags[idx] = FragDef{Name: name, On: u, Sels: sels}
		g.feat.NamedFrags++
	}
	s := Sel{Kind: "spread", Frag: name}
	s.Dirs = g.genDirs(true)
	if len(s.Dirs) > 0 {
		g.feat.DirOnSpread++
		g.feat.DirOnUnionFrag++
	}
	g.noteSpread(name, s.Dirs)
	return s
}

func (g *qgen) noteSpread(name string, dirs []Dir) {
	g.spreadCount[name]++
	if g.spreadCount[name] == 2 {
		g.feat.SpreadTwice++
	}
	if g.spreadConds[name] == nil {
		g.spreadConds[name] = map[string]bool{}
	}
	g.spreadConds[name][g.dirKey(dirs)] = true
	if len(g.spreadConds[name]) == 2 && g.spreadCount[name] >= 2 {
		g.feat.SpreadDiffConds++
	}
}

func seqInts(n int) []int {
	s := make([]int, n)
	for i := range s {
		s[i] = i
	}
	return s
}

// GenQuery draws a query that is valid by construction against the spec's schema.
func GenQuery(t *rapid.T, s *Spec, o GenOpts) (*Query, Features) {
	if o.MaxDepth == 0 {
		o.MaxDepth = 4
	}
	q := &Query{Values: map[string]interface{}{}}
	if o.Mutation {
		q.Kind = "mutation"
	}
	feat := Features{}
	g := &qgen{t: t, s: s, o: o, q: q, feat: &feat, aliasOf: map[string]string{}, spreadCount: map[string]int{}, spreadConds: map[string]map[string]bool{}}
	if rapid.IntRange(0, 3).Draw(t, "named") == 0 {
		q.OpName = "Op"
	}
	depth := rapid.IntRange(1, o.MaxDepth).Draw(t, "depth")
	// root: Query has only generated fields; make sure at least one composite root field is used
	q.Sels = g.genRootSels(depth)
	// drop fragments that ended up unused (thunder rejects unused fragments)
	used := map[string]bool{}
	var walk func([]Sel)
	walk = func(ss []Sel) {
		for _, s := range ss {
			if s.Kind == "spread" && !used[s.Frag] {
				used[s.Frag] = true
				if f := q.Frag(s.Frag); f != nil {
					walk(f.Sels)
				}
			}
			walk(s.Sub)
		}
	}
	walk(q.Sels)
	var kept []FragDef
	for _, f := range q.Frags {
		if used[f.Name] {
			kept = append(kept, f)
		}
	}
	q.Frags = kept
	return q, feat
}

func (g *qgen) genRootSels(depth int) []Sel {
	fields := g.s.FieldsOf(g.q.Root())
	var sels []Sel
	n := rapid.IntRange(1, 4).Draw(g.t, "nroot")
	scope := map[string]int{}
	for i := 0; i < n; i++ {
		choice := rapid.IntRange(0, 9).Draw(g.t, "rootkind")
		switch {
		case choice <= 6 || i == 0:
			f := fields[rapid.IntRange(0, len(fields)-1).Draw(g.t, "rootfield")]
			s := g.genField(g.q.Root(), f, depth, false)
			if i == 0 {
				s.Dirs = nil // keep one unconditional root selection
			}
			if scope[s.Key()] > 0 && s.Sub != nil {
				g.feat.MergedAlias++
			}
			scope[s.Key()]++
			sels = append(sels, s)
		case choice == 7:
			sels = append(sels, Sel{Kind: "inline", On: g.q.Root(), Sub: g.genRootSels(depth - 1), Dirs: g.genDirs(false)})
		case choice == 8:
			sels = append(sels, Sel{Kind: "field", Name: "__typename"})
		default:
			sels = append(sels, g.genSpreadRoot(depth))
		}
	}
	return sels
}

func (g *qgen) genSpreadRoot(depth int) Sel {
	name := fmt.Sprintf("F%d", len(g.q.Frags))
	idx := len(g.q.Frags)
	g.q.Frags = append(g.q.Frags, FragDef{Name: "INPROGRESS" + name, On: g.q.Root()})
	sels := g.genRootSels(depth - 1)
	g.q.Frags[idx] = FragDef{Name: name, On: g.q.Root(), Sels: sels}
	g.feat.NamedFrags++
	g.spreadCount[name]++
	s := Sel{Kind: "spread", Frag: name, Dirs: g.genDirs(false)}
	return s
}

// GenSharedFragQuery builds the shape "one named fragment, spread at several places, each
// place selecting one of the fragment's composite fields once more with a few extra
// sub-fields": the merged copies of all places are built from the one selection set the
// spreads share. Sizes of the shared sub-selection run over 1..9 entries (slices grown by
// append have spare capacity at 3, 5-7, 9-15 entries). Returns nil when the spec has no
// object-typed root list whose element type has a composite field-func field.
func GenSharedFragQuery(t *rapid.T, s *Spec) *Query {
	type cand struct {
		root  TField
		obj   string
		inner TField
		child string
	}
	var cands []cand
	for _, rf := range s.FieldsOf("Query") {
		obj, isU := Composite(rf.GoType)
		if obj == "" || isU || (rf.Spec != nil && rf.Spec.Args != "") {
			continue
		}
		for _, f := range s.FieldsOf(obj) {
			child, isU2 := Composite(f.GoType)
			if child == "" || isU2 || (f.Spec != nil && f.Spec.Args != "") {
				continue
			}
			cands = append(cands, cand{rf, obj, f, child})
		}
	}
	if len(cands) == 0 {
		return nil
	}
	c := cands[rapid.IntRange(0, len(cands)-1).Draw(t, "sfcand")]
	var leaves []TField
	for _, f := range s.FieldsOf(c.child) {
		if cc, _ := Composite(f.GoType); cc == "" && (f.Spec == nil || f.Spec.Args == "") {
			leaves = append(leaves, f)
		}
	}
	if len(leaves) == 0 {
		return nil
	}
	pick := func(label string) Sel {
		f := leaves[rapid.IntRange(0, len(leaves)-1).Draw(t, label)]
		return Sel{Kind: "field", Name: f.Name}
	}
	q := &Query{Values: map[string]interface{}{}}
	var shared []Sel
	for i := 0; i < rapid.IntRange(1, 9).Draw(t, "sfshared"); i++ {
		shared = append(shared, pick("sfleaf"))
	}
	q.Frags = []FragDef{{Name: "SF", On: c.obj, Sels: []Sel{{Kind: "field", Name: c.inner.Name, Sub: shared}}}}
	places := rapid.IntRange(2, 3).Draw(t, "sfplaces")
	for p := 0; p < places; p++ {
		var extra []Sel
		for i := 0; i < rapid.IntRange(1, 3).Draw(t, "sfextra"); i++ {
			e := pick("sfextraleaf")
			// a response key of its own, so that places differ visibly
			e.Alias = fmt.Sprintf("x%d_%s", p, e.Name)
			extra = append(extra, e)
		}
		again := Sel{Kind: "field", Name: c.inner.Name, Sub: extra}
		var follow Sel
		if rapid.Bool().Draw(t, "sfnamed") {
			fn := fmt.Sprintf("SG%d", p)
			q.Frags = append(q.Frags, FragDef{Name: fn, On: c.obj, Sels: []Sel{again}})
			follow = Sel{Kind: "spread", Frag: fn}
		} else {
			follow = Sel{Kind: "inline", On: c.obj, Sub: []Sel{again}}
		}
		sub := []Sel{{Kind: "spread", Frag: "SF"}, follow}
		if rapid.IntRange(0, 3).Draw(t, "sfplain") == 0 {
			sub = append([]Sel{{Kind: "field", Name: "__typename"}}, sub...)
		}
		q.Sels = append(q.Sels, Sel{Kind: "field", Name: c.root.Name, Alias: fmt.Sprintf("p%d", p), Sub: sub})
	}
	return q
}
