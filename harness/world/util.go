package world

import (
	"bytes"
	"io"
)

func bytesReader(b []byte) io.Reader { return bytes.NewReader(b) }
