package world

import (
	"encoding"
	"encoding/json"
	"fmt"
	"reflect"
	"strconv"
)

// RefFailure is one failing field instance reachable in the reference evaluation (C16).
type RefFailure struct {
	Path []string
	Typ  string
	ID   int64
	F    *FieldSpec
	Err  error
}

// Ref is the reference interpreter: sequential, written from the GraphQL execution rules
// and the statement of C01 (see DESIGN.md appendix A). It never calls thunder.
type Ref struct {
	S        *Spec
	Q        *Query
	Fault    FaultFunc
	Failures []RefFailure
}

type collected struct {
	key  string
	sels []Sel
}

func (r *Ref) included(ds []Dir) bool {
	for _, d := range ds {
		var v bool
		if d.Var != "" {
			v, _ = r.Q.VarValue(d.Var).(bool)
		} else {
			v = *d.Lit
		}
		if d.Name == "skip" && v {
			return false
		}
		if d.Name == "include" && !v {
			return false
		}
	}
	return true
}

// collect implements CollectFields for a concrete object type obj; unionName is the
// enclosing union ("" if none): a fragment applies if its condition is obj or unionName.
func (r *Ref) collect(obj, unionName string, sels []Sel, out *[]collected, idx map[string]int, visited map[string]bool) {
	for _, s := range sels {
		if !r.included(s.Dirs) {
			continue
		}
		switch s.Kind {
		case "field":
			k := s.Key()
			if i, ok := idx[k]; ok {
				(*out)[i].sels = append((*out)[i].sels, s)
			} else {
				idx[k] = len(*out)
				*out = append(*out, collected{k, []Sel{s}})
			}
		case "inline":
			if s.On == obj || (unionName != "" && s.On == unionName) {
				r.collect(obj, unionName, s.Sub, out, idx, visited)
			}
		case "spread":
			f := r.Q.Frag(s.Frag)
			if f == nil || visited[s.Frag] {
				continue
			}
			if f.On == obj || (unionName != "" && f.On == unionName) {
				visited[s.Frag] = true
				r.collect(obj, unionName, f.Sels, out, idx, visited)
			}
		}
	}
}

func (r *Ref) argVal(f *FieldSpec, args []Arg) ArgVal {
	a := ArgVal{Kind: f.Args}
	for _, x := range args {
		v := x.Val
		if x.Var != "" {
			v = r.Q.VarValue(x.Var)
		}
		switch x.Name {
		case "x":
			a.X = toI64(v)
		case "s":
			a.S, _ = v.(string)
		case "n":
			if v != nil {
				n := toI64(v)
				a.N = &n
			}
		}
	}
	return a
}

func toI64(v interface{}) int64 {
	switch v := v.(type) {
	case int64:
		return v
	case int:
		return int64(v)
	case float64:
		return int64(v)
	case json.Number:
		i, _ := v.Int64()
		return i
	}
	return 0
}

// Eval evaluates the query from the root.
func (r *Ref) Eval() map[string]interface{} {
	res, _ := r.evalObject(r.Q.Root(), reflect.Value{}, "", r.Q.Sels, nil).(map[string]interface{})
	return res
}

func (r *Ref) evalObject(obj string, v reflect.Value, unionName string, sels []Sel, path []string) interface{} {
	var col []collected
	r.collect(obj, unionName, sels, &col, map[string]int{}, map[string]bool{})
	out := map[string]interface{}{}
	var id int64
	if v.IsValid() {
		if fv := v.FieldByName("Id"); fv.IsValid() {
			id = fv.Int()
		}
	}
	for _, c := range col {
		first := c.sels[0]
		p := append(append([]string{}, path...), c.key)
		if first.Name == "__typename" {
			out[c.key] = obj
			continue
		}
		tf := r.S.FieldOf(obj, first.Name)
		if tf == nil {
			out[c.key] = fmt.Sprintf("!unknown field %s.%s", obj, first.Name)
			continue
		}
		var fv reflect.Value
		if tf.Spec != nil {
			a := r.argVal(tf.Spec, first.Args)
			if r.Fault != nil {
				if err := r.Fault(obj, id, tf.Spec, a, false); err != nil {
					r.Failures = append(r.Failures, RefFailure{Path: p, Typ: obj, ID: id, F: tf.Spec, Err: err})
					out[c.key] = nil
					continue
				}
			}
			fv = r.S.Compute(obj, id, tf.Spec, a)
		} else {
			fv = v.FieldByIndex(tf.Index)
		}
		var sub []Sel
		for _, s := range c.sels {
			sub = append(sub, s.Sub...)
		}
		out[c.key] = r.evalValue(fv, sub, p)
	}
	// thunder adds the key field of keyed objects as "__key"
	for _, f := range r.S.FieldsOf(obj) {
		if f.Key && v.IsValid() {
			out["__key"] = r.evalValue(v.FieldByIndex(f.Index), nil, path)
		}
	}
	return out
}

func (r *Ref) evalValue(v reflect.Value, sub []Sel, path []string) interface{} {
	t := v.Type()
	// enums
	if t == reflect.TypeOf(EnumA(0)) {
		for name, x := range EnumAMap {
			if x == v.Interface().(EnumA) {
				return name
			}
		}
		return "!bad enum"
	}
	if t == reflect.TypeOf(EnumB("")) {
		for name, x := range EnumBMap {
			if x == v.Interface().(EnumB) {
				return name
			}
		}
		return "!bad enum"
	}
	if t == bytesType || t == timeType {
		return jsonOf(v.Interface())
	}
	if t.Implements(textMarshalerType) && t.Kind() != reflect.Ptr {
		b, _ := v.Interface().(encoding.TextMarshaler).MarshalText()
		return string(b)
	}
	switch t.Kind() {
	case reflect.Ptr:
		if v.IsNil() {
			return nil
		}
		return r.evalValue(v.Elem(), sub, path)
	case reflect.Slice:
		out := make([]interface{}, v.Len())
		for i := 0; i < v.Len(); i++ {
			out[i] = r.evalValue(v.Index(i), sub, append(append([]string{}, path...), strconv.Itoa(i)))
		}
		return out
	case reflect.Struct:
		if _, ok := UnionTypes[t.Name()]; ok {
			for _, m := range UnionMembers[t.Name()] {
				mv := v.FieldByName(m)
				if !mv.IsNil() {
					return r.evalObject(m, mv.Elem(), t.Name(), sub, path)
				}
			}
			return nil
		}
		return r.evalObject(TypeName(t), v, "", sub, path)
	default:
		return jsonOf(v.Interface())
	}
}

func jsonOf(x interface{}) interface{} {
	b, err := json.Marshal(x)
	if err != nil {
		return "!marshal " + err.Error()
	}
	var y interface{}
	dec := json.NewDecoder(bytesReader(b))
	dec.UseNumber()
	dec.Decode(&y)
	return y
}
