package world

import (
	"context"
	"fmt"
	"sync"
	"time"

	"github.com/samsarahq/thunder/batch"
	"github.com/samsarahq/thunder/graphql"
	"github.com/samsarahq/thunder/reactive"
)

// Run parses, validates and executes the query text on the bound schema, like http.go does.
// inRerunner runs the execution inside a reactive.Rerunner with batching enabled (the way
// server.go and http.go run it), which is the only way expensive fields reach reactive.Cache.
func (b *Bound) Run(ctx context.Context, text string, vars map[string]interface{}, sch graphql.WorkScheduler, inRerunner bool) (res interface{}, err error) {
	defer func() {
		if r := recover(); r != nil {
			err = fmt.Errorf("PANIC escaped: %v", r)
		}
	}()
	q, err := graphql.Parse(text, vars)
	if err != nil {
		return nil, fmt.Errorf("parse: %w", err)
	}
	root := b.Schema.Query
	if q.Kind == "mutation" {
		root = b.Schema.Mutation
	}
	if err := graphql.PrepareQuery(ctx, root, q.SelectionSet); err != nil {
		return nil, fmt.Errorf("prepare: %w", err)
	}
	e := graphql.NewExecutor(sch)
	if !inRerunner {
		return e.Execute(ctx, root, nil, q)
	}
	var wg sync.WaitGroup
	wg.Add(1)
	var once sync.Once
	rr := reactive.NewRerunner(ctx, func(ctx context.Context) (interface{}, error) {
		defer once.Do(wg.Done)
		ctx = batch.WithBatching(ctx)
		r, e2 := e.Execute(ctx, root, nil, q)
		res, err = r, e2
		return nil, e2
	}, time.Hour, false)
	wg.Wait()
	rr.Stop()
	return res, err
}
