package world

import (
	"fmt"
	"hash/fnv"
	"reflect"
	"sync"

	"pgregory.net/rapid"
)

// FieldSpec describes one generated field func.
type FieldSpec struct {
	Name    string `json:"name"`
	Ret     string `json:"ret"`              // int64 string pstring enumA listint obj pobj listobj listpobj union listunion
	Target  string `json:"target,omitempty"` // O1..O4 / U1,U2
	Args    string `json:"args,omitempty"`   // "" | "A" | "B"
	Seed    int    `json:"seed"`
	Recv    string `json:"recv"` // ptr | val | none
	HasErr  bool   `json:"has_err"`
	NilMod  int    `json:"nil_mod"` // nullable results are nil when h % NilMod == 0 (0 = never nil)
	MaxLen  int    `json:"max_len"`
	NilElem bool   `json:"nil_elem"` // lists of pointers may contain nil entries
}

type ObjSpec struct {
	Type   string      `json:"type"` // Query, O1..O4
	Fields []FieldSpec `json:"fields"`
}

type Spec struct {
	Objects []ObjSpec `json:"objects"`
	NIds    int       `json:"n_ids"` // object ids are in [0,NIds)
	// Epoch, if set, makes the data mutable: every generated field of object (typ,id) is a
	// pure function of (id, field seed, args, Epoch(typ,id)). Not serialised.
	Epoch func(typ string, id int64) int64 `json:"-"`
	// Intern: hand out one pointer per pool object (see mk).
	Intern bool `json:"intern,omitempty"`
}

func (s *Spec) Obj(typ string) *ObjSpec {
	for i := range s.Objects {
		if s.Objects[i].Type == typ {
			return &s.Objects[i]
		}
	}
	return nil
}

func (s *Spec) Field(typ, name string) *FieldSpec {
	if o := s.Obj(typ); o != nil {
		for i := range o.Fields {
			if o.Fields[i].Name == name {
				return &o.Fields[i]
			}
		}
	}
	return nil
}

// ArgVal is the decoded args of a field call: X for ArgsA, S/N for ArgsB.
type ArgVal struct {
	X    int64
	S    string
	N    *int64
	Kind string
}

func h(parts ...interface{}) uint64 {
	f := fnv.New64a()
	for _, p := range parts {
		fmt.Fprintf(f, "%v|", p)
	}
	x := f.Sum64()
	// extra mixing so that small moduli are well distributed
	x ^= x >> 33
	x *= 0xff51afd7ed558ccd
	x ^= x >> 33
	return x
}

func (a ArgVal) key() string {
	switch a.Kind {
	case "A":
		return fmt.Sprintf("A%d", a.X)
	case "C":
		if a.N == nil {
			return "C-"
		}
		return fmt.Sprintf("C%d", *a.N)
	case "B":
		if a.N == nil {
			return fmt.Sprintf("B%q-", a.S)
		}
		return fmt.Sprintf("B%q%d", a.S, *a.N)
	}
	return ""
}

func (f *FieldSpec) GoType() reflect.Type {
	switch f.Ret {
	case "int64":
		return reflect.TypeOf(int64(0))
	case "string":
		return reflect.TypeOf("")
	case "pstring":
		return reflect.TypeOf((*string)(nil))
	case "enumA":
		return reflect.TypeOf(EnumA(0))
	case "void":
		// a resolver without a result value (only an optional error): the field is a Boolean
		// that is always true
		return reflect.TypeOf(true)
	case "listint":
		return reflect.TypeOf([]int64(nil))
	case "obj":
		return ObjTypes[f.Target]
	case "pobj":
		return reflect.PtrTo(ObjTypes[f.Target])
	case "listobj":
		return reflect.SliceOf(ObjTypes[f.Target])
	case "listpobj":
		return reflect.SliceOf(reflect.PtrTo(ObjTypes[f.Target]))
	case "union":
		return reflect.PtrTo(UnionTypes[f.Target])
	case "listunion":
		return reflect.SliceOf(reflect.PtrTo(UnionTypes[f.Target]))
	}
	panic("bad ret " + f.Ret)
}

var internTab sync.Map

// mk returns the pool object (typ,id). With Intern the same pointer is handed out every
// time (objects are immutable and a pure function of their id): expensive-field results are
// then cached per object across the runs of a subscription, as they are for long-lived
// application objects.
func (s *Spec) mk(typ string, id int64) interface{} {
	if !s.Intern {
		return MkObj(typ, id)
	}
	k := fmt.Sprintf("%s:%d", typ, id)
	if v, ok := internTab.Load(k); ok {
		return v
	}
	v, _ := internTab.LoadOrStore(k, MkObj(typ, id))
	return v
}

func (s *Spec) mkUnion(u string, hv uint64) reflect.Value {
	members := UnionMembers[u]
	m := members[hv%uint64(len(members))]
	id := int64((hv >> 8) % uint64(s.NIds))
	uv := reflect.New(UnionTypes[u])
	uv.Elem().FieldByName(m).Set(reflect.ValueOf(s.mk(m, id)))
	return uv
}

// Compute is the world's data: the value of field f on object (typ,id) with args, as a Go
// value of f.GoType(). It is a pure function of its inputs.
func (s *Spec) Compute(typ string, id int64, f *FieldSpec, a ArgVal) reflect.Value {
	var ep int64
	if s.Epoch != nil {
		ep = s.Epoch(typ, id)
	}
	hv := h(f.Seed, typ, id, a.key(), ep)
	isNil := f.NilMod > 0 && hv%uint64(f.NilMod) == 0
	switch f.Ret {
	case "int64":
		return reflect.ValueOf(int64(hv % 1000))
	case "string":
		return reflect.ValueOf(fmt.Sprintf("s%d", hv%1000))
	case "pstring":
		if isNil {
			return reflect.Zero(f.GoType())
		}
		return reflect.ValueOf(sp(fmt.Sprintf("p%d", hv%1000)))
	case "enumA":
		return reflect.ValueOf(EnumA(hv % 3))
	case "void":
		return reflect.ValueOf(true)
	case "listint":
		n := int((hv >> 4) % uint64(f.MaxLen+1))
		if n == 0 && (hv>>20)%2 == 0 {
			return reflect.Zero(f.GoType()) // an empty list as a nil slice
		}
		out := make([]int64, 0, n)
		for i := 0; i < n; i++ {
			out = append(out, int64(h(hv, i)%50))
		}
		return reflect.ValueOf(out)
	case "obj":
		return reflect.ValueOf(s.mk(f.Target, int64((hv>>8)%uint64(s.NIds)))).Elem()
	case "pobj":
		if isNil {
			return reflect.Zero(f.GoType())
		}
		return reflect.ValueOf(s.mk(f.Target, int64((hv>>8)%uint64(s.NIds))))
	case "listobj", "listpobj":
		n := int((hv >> 4) % uint64(f.MaxLen+1))
		if n == 0 && (hv>>20)%2 == 0 {
			return reflect.Zero(f.GoType()) // an empty list as a nil slice
		}
		out := reflect.MakeSlice(f.GoType(), 0, n)
		for i := 0; i < n; i++ {
			hi := h(hv, i)
			o := reflect.ValueOf(s.mk(f.Target, int64(hi%uint64(s.NIds))))
			if f.Ret == "listobj" {
				out = reflect.Append(out, o.Elem())
			} else if f.NilElem && hi%5 == 0 {
				out = reflect.Append(out, reflect.Zero(o.Type()))
			} else {
				out = reflect.Append(out, o)
			}
		}
		return out
	case "union":
		if isNil {
			return reflect.Zero(f.GoType())
		}
		return s.mkUnion(f.Target, hv)
	case "listunion":
		n := int((hv >> 4) % uint64(f.MaxLen+1))
		if n == 0 && (hv>>20)%2 == 0 {
			return reflect.Zero(f.GoType()) // an empty list as a nil slice
		}
		out := reflect.MakeSlice(f.GoType(), 0, n)
		for i := 0; i < n; i++ {
			hi := h(hv, i)
			if f.NilElem && hi%5 == 0 {
				out = reflect.Append(out, reflect.Zero(f.GoType().Elem()))
			} else {
				out = reflect.Append(out, s.mkUnion(f.Target, hi))
			}
		}
		return out
	}
	panic("bad ret")
}

var retKinds = []string{"int64", "string", "pstring", "enumA", "void", "listint", "obj", "pobj", "pobj", "listobj", "listpobj", "listpobj", "union", "listunion"}
var objNames = []string{"O1", "O2", "O3", "O4"}
var unionNames = []string{"U1", "U2"}

func genField(t *rapid.T, name string, root bool) FieldSpec {
	f := FieldSpec{Name: name, Seed: rapid.IntRange(0, 1000).Draw(t, "seed")}
	f.Ret = rapid.SampledFrom(retKinds).Draw(t, "ret")
	switch f.Ret {
	case "obj", "pobj", "listobj", "listpobj":
		f.Target = rapid.SampledFrom(objNames).Draw(t, "target")
	case "union", "listunion":
		f.Target = rapid.SampledFrom(unionNames).Draw(t, "target")
	}
	f.Args = rapid.SampledFrom([]string{"", "", "A", "B"}).Draw(t, "args")
	if root {
		f.Recv = "none"
	} else {
		f.Recv = rapid.SampledFrom([]string{"ptr", "ptr", "val"}).Draw(t, "recv")
	}
	f.HasErr = rapid.Bool().Draw(t, "haserr")
	f.NilMod = rapid.SampledFrom([]int{0, 2, 3, 4}).Draw(t, "nilmod")
	f.MaxLen = rapid.SampledFrom([]int{0, 1, 3, 4, 6}).Draw(t, "maxlen")
	f.NilElem = rapid.Bool().Draw(t, "nilelem")
	return f
}

// GenSpec draws a schema spec: a Query object and O1..O4, each with generated field funcs.
// It guarantees that every object and union type is reachable from Query.
func GenSpec(t *rapid.T) *Spec {
	s := &Spec{NIds: rapid.IntRange(1, 6).Draw(t, "nids")}
	q := ObjSpec{Type: "Query"}
	// fixed entry points so that every type is reachable
	i := 0
	for _, o := range objNames {
		q.Fields = append(q.Fields, FieldSpec{Name: "all" + o, Ret: "listpobj", Target: o, Seed: 7 + i, Recv: "none", MaxLen: 5, HasErr: i%2 == 0})
		i++
	}
	for _, u := range unionNames {
		q.Fields = append(q.Fields, FieldSpec{Name: "all" + u, Ret: "listunion", Target: u, Seed: 17 + i, Recv: "none", MaxLen: 5, NilElem: true})
		i++
	}
	n := rapid.IntRange(0, 4).Draw(t, "nroot")
	for k := 0; k < n; k++ {
		q.Fields = append(q.Fields, genField(t, fmt.Sprintf("r%d", k), true))
	}
	s.Objects = append(s.Objects, q)
	for _, o := range objNames {
		os := ObjSpec{Type: o}
		n := rapid.IntRange(0, 5).Draw(t, "nfields")
		for k := 0; k < n; k++ {
			os.Fields = append(os.Fields, genField(t, fmt.Sprintf("f%d", k), false))
		}
		s.Objects = append(s.Objects, os)
	}
	return s
}

// BaseSpec is a fixed small spec (entry points only) used by pinned regression cases.
func BaseSpec() *Spec {
	s := &Spec{NIds: 3}
	q := ObjSpec{Type: "Query"}
	i := 0
	for _, o := range objNames {
		q.Fields = append(q.Fields, FieldSpec{Name: "all" + o, Ret: "listpobj", Target: o, Seed: 7 + i, Recv: "none", MaxLen: 5, HasErr: i%2 == 0})
		i++
	}
	for _, u := range unionNames {
		q.Fields = append(q.Fields, FieldSpec{Name: "all" + u, Ret: "listunion", Target: u, Seed: 17 + i, Recv: "none", MaxLen: 5, NilElem: true})
		i++
	}
	s.Objects = append(s.Objects, q)
	for _, o := range objNames {
		s.Objects = append(s.Objects, ObjSpec{Type: o, Fields: []FieldSpec{
			{Name: "f0", Ret: "int64", Seed: 1, Recv: "ptr", Args: "A"},
			{Name: "f1", Ret: "listpobj", Target: "O2", Seed: 2, Recv: "ptr", MaxLen: 3, NilElem: true},
			{Name: "f2", Ret: "pobj", Target: "O3", Seed: 3, Recv: "val", NilMod: 2, HasErr: true},
		}})
	}
	return s
}

// Fld, Inl, Spr are shorthands for hand-written query ASTs.
func Fld(name string, sub ...Sel) Sel {
	s := Sel{Kind: "field", Name: name}
	if len(sub) > 0 {
		s.Sub = sub
	}
	return s
}
func Inl(on string, sub ...Sel) Sel { return Sel{Kind: "inline", On: on, Sub: sub} }
func Spr(name string) Sel           { return Sel{Kind: "spread", Frag: name} }
