// Package world holds a pool of Go types, generated schema specs over them, pure data
// functions, a query AST with printer and generator, a binder that registers a spec on
// thunder's schemabuilder with reflect.MakeFunc resolvers, and a reference interpreter
// that never calls thunder's executor.
package world

import (
	"fmt"
	"reflect"
	"time"

	"github.com/samsarahq/thunder/graphql/schemabuilder"
)

type EnumA int32
type EnumB string

var EnumAMap = map[string]EnumA{"RED": 0, "GREEN": 1, "BLUE": 2}
var EnumBMap = map[string]EnumB{"small": "s", "large": "l"}

type Label string // named scalar

// TextM marshals as text.
type TextM struct{ V int64 }

func (t TextM) MarshalText() ([]byte, error) { return []byte(fmt.Sprintf("tm-%d", t.V)), nil }

type Inner struct {
	A int64
	B *string
}

type O1 struct {
	Id     int64 `graphql:"id,key"`
	Name   string
	Tag    *string
	Nums   []int64
	Score  float64
	Kind   EnumA
	Hidden string `graphql:"-"`
	lower  int
}

type O2 struct {
	Id    int64
	Label Label
	Ok    bool
	Data  []byte
	At    time.Time
}

type O3 struct {
	Id    int64 `graphql:",key"`
	Title string
	Level int32
	Sub   Inner
	SubP  *Inner
	Size  EnumB
}

type O4 struct {
	Id    int64
	Txt   TextM
	Small uint8
	F32   float32
	Inns  []Inner
}

type U1 struct {
	schemabuilder.Union
	*O1
	*O2
}

type U2 struct {
	schemabuilder.Union
	*O2
	*O3
	*O4
}

type ArgsA struct{ X int64 }
type ArgsB struct {
	S string
	N *int64
}

var ObjTypes = map[string]reflect.Type{
	"O1": reflect.TypeOf(O1{}), "O2": reflect.TypeOf(O2{}), "O3": reflect.TypeOf(O3{}), "O4": reflect.TypeOf(O4{}),
	"Inner": reflect.TypeOf(Inner{}),
}
var UnionTypes = map[string]reflect.Type{"U1": reflect.TypeOf(U1{}), "U2": reflect.TypeOf(U2{})}
var UnionMembers = map[string][]string{"U1": {"O1", "O2"}, "U2": {"O2", "O3", "O4"}}
type ArgsC struct{ N *int64 }

var ArgTypes = map[string]reflect.Type{"A": reflect.TypeOf(ArgsA{}), "B": reflect.TypeOf(ArgsB{}), "C": reflect.TypeOf(ArgsC{})}

func sp(s string) *string { return &s }

// MkObj builds the object of the given pool type with all struct fields a pure function of id.
func MkObj(typ string, id int64) interface{} {
	switch typ {
	case "O1":
		o := &O1{Id: id, Name: fmt.Sprintf("n%d", id), Score: float64(id) / 2, Kind: EnumA(((id % 3) + 3) % 3), Hidden: "h", lower: 1}
		if id%3 != 0 {
			o.Tag = sp(fmt.Sprintf("t%d", id))
		}
		for i := int64(0); i < ((id%4)+4)%4; i++ {
			o.Nums = append(o.Nums, id*10+i)
		}
		return o
	case "O2":
		o := &O2{Id: id, Label: Label(fmt.Sprintf("l%d", id)), Ok: id%2 == 0, At: time.Unix(1600000000+id*3600, 0).UTC()}
		if id%3 != 1 {
			o.Data = []byte(fmt.Sprintf("d%d", id))
		} else {
			o.Data = []byte{}
		}
		return o
	case "O3":
		o := &O3{Id: id, Title: fmt.Sprintf("T%d", id), Level: int32(id * 7), Sub: Inner{A: id + 100}, Size: map[bool]EnumB{true: "s", false: "l"}[id%2 == 0]}
		if id%2 == 1 {
			o.Sub.B = sp("b")
			o.SubP = &Inner{A: id + 200, B: sp("pb")}
		}
		return o
	case "O4":
		o := &O4{Id: id, Txt: TextM{id}, Small: uint8(((id % 200) + 200) % 200), F32: float32(id) / 4}
		for i := int64(0); i < ((id%3)+3)%3; i++ {
			o.Inns = append(o.Inns, Inner{A: id*100 + i})
		}
		return o
	}
	if o := mkFed(typ, id); o != nil {
		return o
	}
	panic("MkObj: unknown type " + typ)
}

// ObjID reads the Id of a pool object (pointer or value).
func ObjID(v reflect.Value) int64 {
	if v.Kind() == reflect.Ptr {
		v = v.Elem()
	}
	return v.FieldByName("Id").Int()
}
