package c04

import (
	"context"
	"fmt"
	"runtime"
	"sync/atomic"
	"testing"
	"time"

	"github.com/samsarahq/thunder/reactive"
	"pgregory.net/rapid"
)

// The one window of the property that the general histories reach only by luck: "between its
// return and the rerunner arming itself". A fresh rerunner reads one resource (directly or
// through a cached child); the run's last statements let a waiting goroutine go, which
// strobes or invalidates the resource, and then spin for a drawn number of iterations, so
// that over a volley of attempts the notification sweeps across the tail of Rerunner.run a
// few nanoseconds at a time. Whatever the timing the notification starts after the run's
// AddDependency returned, the rerunner is neither stopped nor failing: a second run has to
// follow.

// The second narrow window, "while it is registering the dependency": the run registers its
// dependency (AddDependency, directly or inside a cached child) while another goroutine
// invalidates that very resource. Whichever comes first, the run depends on an invalidated
// resource: a second run has to follow (the later runs do not touch the resource again).
func registerAttempt(c ArmCase, late, skew int) bool {
	res := reactive.NewResource()
	var runs, ready, spinning int32
	second := make(chan struct{})
	fired := make(chan struct{})
	go func() {
		defer close(fired)
		atomic.StoreInt32(&spinning, 1)
		for n := 1; atomic.LoadInt32(&ready) == 0; n++ {
			if n%(1<<20) == 0 {
				time.Sleep(time.Microsecond)
			}
		}
		armSpin(skew)
		res.Invalidate()
	}()
	for atomic.LoadInt32(&spinning) == 0 {
		runtime.Gosched()
	}
	rr := reactive.NewRerunner(context.Background(), func(ctx context.Context) (interface{}, error) {
		switch atomic.AddInt32(&runs, 1) {
		case 1:
			atomic.StoreInt32(&ready, 1)
			armSpin(late)
			if c.ViaCache {
				if _, err := reactive.Cache(ctx, "k", func(ctx context.Context) (interface{}, error) {
					reactive.AddDependency(ctx, res, nil)
					return nil, nil
				}); err != nil {
					return nil, err
				}
			} else {
				reactive.AddDependency(ctx, res, nil)
			}
		case 2:
			close(second)
		}
		return nil, nil
	}, 0, c.Spawn)
	defer rr.Stop()
	<-fired
	select {
	case <-second:
		return true
	case <-time.After(3 * time.Second):
		return false
	}
}

type ArmCase struct {
	Register bool `json:"register,omitempty"` // the registration window instead of the arming window
	Strobe   bool `json:"strobe"`
	Spawn    bool `json:"spawn"`
	ViaCache bool `json:"via_cache"`
	LateMax  int  `json:"late_max"` // the run spins up to this many times after letting the notifier go
	SkewMax  int  `json:"skew_max"` // the notifier spins up to this many times first
	Attempts int  `json:"attempts"`
	Step     int  `json:"step"`
}

var armSink uint64

func armSpin(n int) {
	var x uint64
	for i := 0; i < n; i++ {
		x += uint64(i)
	}
	atomic.AddUint64(&armSink, x)
}

func armAttempt(c ArmCase, late, skew int) bool {
	res := reactive.NewResource()
	var runs, ready int32
	second := make(chan struct{})
	fired := make(chan struct{})
	var spinning int32
	go func() {
		defer close(fired)
		atomic.StoreInt32(&spinning, 1)
		for n := 1; atomic.LoadInt32(&ready) == 0; n++ {
			if n%(1<<20) == 0 {
				time.Sleep(time.Microsecond)
			}
		}
		armSpin(skew)
		if c.Strobe {
			res.Strobe()
		} else {
			res.Invalidate()
		}
	}()
	for atomic.LoadInt32(&spinning) == 0 {
		runtime.Gosched()
	}
	rr := reactive.NewRerunner(context.Background(), func(ctx context.Context) (interface{}, error) {
		if c.ViaCache {
			if _, err := reactive.Cache(ctx, "k", func(ctx context.Context) (interface{}, error) {
				reactive.AddDependency(ctx, res, nil)
				return nil, nil
			}); err != nil {
				return nil, err
			}
		} else {
			reactive.AddDependency(ctx, res, nil)
		}
		switch atomic.AddInt32(&runs, 1) {
		case 1:
			atomic.StoreInt32(&ready, 1)
			armSpin(late)
		case 2:
			close(second)
		}
		return nil, nil
	}, 0, c.Spawn)
	defer rr.Stop()
	<-fired
	select {
	case <-second:
		return true
	case <-time.After(3 * time.Second):
		return false
	}
}

func checkArm(t interface{ Fatalf(string, ...interface{}) }, test string, c ArmCase) {
	reactive.WriteThenReadDelay = 0
	for a := 0; a < c.Attempts; a++ {
		late, skew := 0, 0
		if c.LateMax > 0 {
			late = (a * c.Step) % c.LateMax
		}
		if c.SkewMax > 0 {
			skew = (a * 31) % c.SkewMax
		}
		if c.Register {
			if !registerAttempt(c, late, skew) {
				msg := fmt.Sprintf("lost invalidation: the resource was invalidated while the only run was registering it as a dependency (attempt %d: the run spun %d times before AddDependency, the invalidator %d times before Invalidate), the rerunner was not stopped and did not fail, yet no second run happened within 3s", a, late, skew)
				p := rec.Violate(test, map[string]interface{}{"armrace": c}, msg)
				t.Fatalf("%s (replay %s)", msg, p)
			}
			continue
		}
		if !armAttempt(c, late, skew) {
			msg := fmt.Sprintf("lost invalidation: the resource was notified after AddDependency had returned in the only run (attempt %d: the run spun %d times before returning, the notifier %d times), the rerunner was not stopped and did not fail, yet no second run happened within 3s", a, late, skew)
			p := rec.Violate(test, map[string]interface{}{"armrace": c}, msg)
			t.Fatalf("%s (replay %s)", msg, p)
		}
	}
	lbl := "arm-race"
	if c.Register {
		lbl = "register-race"
	}
	rec.Case(fmt.Sprintf("arm%+v", c), true, lbl, fmt.Sprintf("strobe=%v", c.Strobe), fmt.Sprintf("via-cache=%v", c.ViaCache))
	rec.Sample(lbl, c)
}

func TestArmRace(t *testing.T) {
	rapid.Check(t, func(t *rapid.T) {
		c := ArmCase{Strobe: rapid.Bool().Draw(t, "strobe"), Spawn: rapid.Bool().Draw(t, "spawn"), ViaCache: rapid.IntRange(0, 3).Draw(t, "viacache") == 0,
			LateMax: rapid.SampledFrom([]int{1000, 3000, 6000, 6000, 12000}).Draw(t, "latemax"), SkewMax: rapid.SampledFrom([]int{0, 0, 200, 1000}).Draw(t, "skewmax"),
			Attempts: 40, Step: rapid.SampledFrom([]int{7, 97, 211, 1009}).Draw(t, "step")}
		checkArm(t, "TestArmRace", c)
	})
}

func TestRegisterRace(t *testing.T) {
	rapid.Check(t, func(t *rapid.T) {
		c := ArmCase{Register: true, Spawn: rapid.Bool().Draw(t, "spawn"), ViaCache: rapid.IntRange(0, 3).Draw(t, "viacache") == 0,
			LateMax: rapid.SampledFrom([]int{1000, 3000, 6000, 6000, 12000}).Draw(t, "latemax"), SkewMax: rapid.SampledFrom([]int{0, 0, 200, 1000}).Draw(t, "skewmax"),
			Attempts: 40, Step: rapid.SampledFrom([]int{7, 97, 211, 1009}).Draw(t, "step")}
		checkArm(t, "TestRegisterRace", c)
	})
}
