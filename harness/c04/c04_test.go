package c04

import (
	"encoding/json"
	"os"
	"strings"
	"testing"

	"pgregory.net/rapid"

	"verifharness/ev"
	"verifharness/rx"
)

var rec = ev.New("C04",
	"histories over a store of versioned slots (invalidate+replace or strobe) and 1-3 rerunners with generated compute functions (reads in capture-then-AddDependency or AddDependency-then-read order, retry-once / error outcomes, writes fired from inside the computation before a read, after the dependency was added, and between capture and AddDependency), driver writes, Stop, RerunImmediately, cancel, pauses, optional sleeps at the verif yield sites; oracles: runs never overlap, no run in progress or started after Stop returns, never runs when cancelled before creation, at quiescence the last successful run read the current versions; non-trivial = a write landed during a run after the dependency was added, or between capture and AddDependency, or on a slot shared by two rerunners, or a Stop during a run; distinct = hash of the case",
	"value and guarding resource are captured together (the livesql pattern); strobe slots register the dependency before reading",
	"'eventually' = within 5 s at quiescence (normal latency: microseconds)")

func TestMain(m *testing.M) { code := m.Run(); rec.Flush(); os.Exit(code) }

func run(t interface{ Fatalf(string, ...interface{}) }, test string, c rx.Case) {
	res, sig, err := rx.Run(c, false)
	if err != nil {
		p := rec.Violate(test, c, sig+": "+err.Error())
		t.Fatalf("%s: %v (replay %s)", sig, err, p)
	}
	h := res.Hits
	nt := h.WriteDuringRunAfterDep > 0 || h.WriteMid > 0 || h.SharedSlotWrite > 0 || h.StopDuringRun > 0
	b, _ := json.Marshal(c)
	rec.Case(string(b), nt, res.Labels...)
	if nt {
		rec.Sample(strings.Join(res.Labels, "+"), c)
	}
}

func TestRerun(t *testing.T) {
	rapid.Check(t, func(t *rapid.T) { run(t, "TestRerun", rx.Gen(t, 1, true)) })
}

func TestReplay(t *testing.T) {
	p := os.Getenv("VERIF_REPLAY")
	if p == "" {
		t.Skip("no VERIF_REPLAY")
	}
	var aw struct {
		ArmRace *ArmCase `json:"armrace"`
	}
	if _, err := ev.LoadReplay(p, &aw); err == nil && aw.ArmRace != nil {
		for i := 0; i < 200; i++ {
			checkArm(t, "TestReplay", *aw.ArmRace)
		}
		return
	}
	var c rx.Case
	if _, err := ev.LoadReplay(p, &c); err != nil {
		t.Fatalf("harness: cannot load replay: %v", err)
	}
	for i := 0; i < 30; i++ {
		run(t, "TestReplay", c)
	}
}
