package c03

import (
	"encoding/json"
	"fmt"
	"os"
	"reflect"
	"testing"

	"github.com/samsarahq/thunder/diff"
	"github.com/samsarahq/thunder/merge"
	"pgregory.net/rapid"

	"verifharness/ev"
	"verifharness/jsclient"
	jv "verifharness/jsonval"
)

var rec = ev.New("C03",
	"pairs (old,new) of JSON trees: 70% new=edit^k(old), 20% independent, 10% deep copies; non-trivial = delta has a run [s,c] with c>=2 that is not [0,len], or a -1 hole, or a field only in new, or a removal marker, or a wrapped container replacement; distinct = hash of canonical (old,new)",
	"__key values are scalars and unique within one array", "no NaN/Inf", "merge.ts leg runs only if node is available and never decides alone")

var js *jsclient.Runner
var jsErr error

func TestMain(m *testing.M) {
	if os.Getenv("VERIF_NOJS") != "" {
		jsErr = fmt.Errorf("disabled by VERIF_NOJS")
	} else {
		js, jsErr = jsclient.Start()
	}
	if jsErr != nil {
		rec.Extra("js_leg", "skipped: "+jsErr.Error())
	} else {
		rec.Extra("js_leg", "node running client/src/merge.ts")
	}
	code := m.Run()
	js.Close()
	rec.Flush()
	os.Exit(code)
}

type Case struct {
	Old   jv.V     `json:"old"`
	New   jv.V     `json:"new"`
	Edits []string `json:"edits,omitempty"`
	Mode  string   `json:"mode"`
}

type features struct {
	run, hole, newField, removal, wrappedContainer, reorder bool
}

func scanDelta(old, d interface{}, f *features) {
	switch d := d.(type) {
	case []interface{}:
		if len(d) == 1 {
			switch d[0].(type) {
			case map[string]interface{}, []interface{}:
				f.wrappedContainer = true
			}
		}
	case map[string]interface{}:
		switch o := old.(type) {
		case []interface{}:
			if r, ok := d["$"].([]interface{}); ok {
				f.reorder = true
				for _, x := range r {
					switch x := x.(type) {
					case float64:
						if x == -1 {
							f.hole = true
						}
					case []interface{}:
						if len(x) == 2 {
							s, _ := x[0].(float64)
							c, _ := x[1].(float64)
							if c >= 2 && !(s == 0 && int(c) == len(o)) {
								f.run = true
							}
						}
					}
				}
			}
			for k, dv := range d {
				if k != "$" {
					scanDelta(nil, dv, f)
				}
			}
		case map[string]interface{}:
			for k, dv := range d {
				if a, ok := dv.([]interface{}); ok && len(a) == 0 {
					f.removal = true
					continue
				}
				ov, had := o[k]
				if !had {
					f.newField = true
				}
				scanDelta(ov, dv, f)
			}
		}
	}
}

// check runs every oracle of C03 on one pair; it returns a short signature and an error.
func check(c Case) (feat features, sig string, err error) {
	defer func() {
		if r := recover(); r != nil {
			sig, err = "panic", fmt.Errorf("panic: %v", r)
		}
	}()
	oldG, newG := c.Old.Go(), c.New.Go()
	if c.Mode == "alias" {
		oldG, newG = shareArrays(oldG, newG)
	}
	oldCopy, newCopy := c.Old.Go(), c.New.Go()

	d := diff.Diff(oldG, newG)

	// (5) arguments untouched
	if !reflect.DeepEqual(oldG, oldCopy) || !reflect.DeepEqual(newG, newCopy) {
		return feat, "mutated-args", fmt.Errorf("Diff modified its arguments")
	}
	// (4) self diff / deep copy diff
	if dd := diff.Diff(oldG, oldG); dd != nil {
		return feat, "self-diff", fmt.Errorf("Diff(x,x) = %s", jv.Canon(dd))
	}
	if dd := diff.Diff(oldG, oldCopy); dd != nil {
		return feat, "copy-diff", fmt.Errorf("Diff(x,copy(x)) = %s", jv.Canon(dd))
	}

	oldJ, err1 := jv.RoundTrip(oldG)
	newJ, err2 := jv.RoundTrip(newG)
	if err1 != nil || err2 != nil {
		return feat, "harness", fmt.Errorf("harness: inputs not serialisable: %v %v", err1, err2)
	}
	wantOld := jv.Canon(jv.StripKeyRef(oldJ))
	want := jv.Canon(jv.StripKeyRef(newJ))
	// thunder's own StripKey agrees with the reference one
	if got := jv.Canon(diff.StripKey(newG)); got != want {
		return feat, "stripkey", fmt.Errorf("StripKey(new)=%s want %s", got, want)
	}

	if d == nil {
		if wantOld != want {
			return feat, "empty-delta", fmt.Errorf("Diff is empty but values differ: %s vs %s", wantOld, want)
		}
		return feat, "", nil
	}
	// (6) serialisable and stable
	b1, err := json.Marshal(d)
	if err != nil {
		return feat, "marshal", fmt.Errorf("delta does not marshal: %v", err)
	}
	var dj interface{}
	if err := json.Unmarshal(b1, &dj); err != nil {
		return feat, "marshal", fmt.Errorf("delta does not decode: %v", err)
	}
	b2, _ := json.Marshal(dj)
	if jv.CanonBytes(b1) != jv.CanonBytes(b2) {
		return feat, "marshal", fmt.Errorf("delta changes under JSON round trip: %s vs %s", b1, b2)
	}
	scanDelta(oldJ, dj, &feat)

	stripOld := jv.StripKeyRef(oldJ)
	// (1) documented format
	got, err := jv.RefApply(stripOld, dj)
	if err != nil {
		return feat, "ref-format", fmt.Errorf("delta %s is not in the documented format: %v", b1, err)
	}
	if g := jv.Canon(got); g != want {
		return feat, "ref-mismatch", fmt.Errorf("documented-format apply: delta %s on %s gives %s, want %s", b1, wantOld, g, want)
	}
	// (2) thunder's Go merge
	var dj2 interface{}
	json.Unmarshal(b1, &dj2)
	stripOld2 := jv.StripKeyRef(oldJ)
	gm, err := merge.Merge(stripOld2, dj2)
	if err != nil {
		return feat, "gomerge-error", fmt.Errorf("merge.Merge(%s, %s): %v", wantOld, b1, err)
	}
	if g := jv.Canon(gm); g != want {
		return feat, "gomerge-mismatch", fmt.Errorf("merge.Merge(%s, %s) = %s, want %s", wantOld, b1, g, want)
	}
	// (3) the real merge.ts
	if js != nil {
		r, err := js.Merge(jv.StripKeyRef(oldJ), true, dj)
		if err != nil {
			return feat, "js-error", fmt.Errorf("merge.ts(%s, %s): %v", wantOld, b1, err)
		}
		if g := jv.Canon(r); g != want {
			return feat, "js-mismatch", fmt.Errorf("merge.ts(%s, %s) = %s, want %s", wantOld, b1, g, want)
		}
	}
	return feat, "", nil
}

// shareArrays makes the two trees share memory the way values derived from one another do:
// wherever an array of new is a prefix of the corresponding array of old it becomes old[:n]
// (same backing array, shorter), and wherever it extends old's array, old's array is given
// spare capacity and new's becomes append(old, extra...). The values are unchanged.
func shareArrays(old, new interface{}) (interface{}, interface{}) {
	switch o := old.(type) {
	case map[string]interface{}:
		n, ok := new.(map[string]interface{})
		if !ok {
			return old, new
		}
		for k, ov := range o {
			if nv, ok := n[k]; ok {
				o[k], n[k] = shareArrays(ov, nv)
			}
		}
		return o, n
	case []interface{}:
		n, ok := new.([]interface{})
		if !ok {
			return old, new
		}
		common := len(o)
		if len(n) < common {
			common = len(n)
		}
		same := true
		for i := 0; i < common; i++ {
			if !reflect.DeepEqual(o[i], n[i]) {
				same = false
			}
		}
		if !same || len(o) == 0 {
			for i := 0; i < common; i++ {
				o[i], n[i] = shareArrays(o[i], n[i])
			}
			return o, n
		}
		if len(n) <= len(o) {
			return o, o[:len(n)]
		}
		grown := make([]interface{}, len(o), len(n)+1)
		copy(grown, o)
		return grown, append(grown, n[len(o):]...)
	}
	return old, new
}

func genCase(t *rapid.T) Case {
	typed := rapid.Bool().Draw(t, "typed")
	depth := rapid.IntRange(1, 4).Draw(t, "depth")
	old := jv.Gen(t, depth, typed)
	mode := rapid.SampledFrom([]string{"edit", "edit", "edit", "edit", "edit", "edit", "alias", "indep", "indep", "copy"}).Draw(t, "mode")
	c := Case{Old: old, Mode: mode}
	switch mode {
	case "copy":
		c.New = old
	case "indep":
		c.New = jv.Gen(t, depth, typed)
	default:
		n := rapid.IntRange(1, 6).Draw(t, "nedits")
		if mode == "alias" && n > 2 {
			n = 2 // few edits: more arrays stay prefixes / extensions of their old selves
		}
		cur := old
		for i := 0; i < n; i++ {
			var lbl string
			cur, lbl = jv.Edit(t, cur, depth, typed)
			c.Edits = append(c.Edits, lbl)
		}
		c.New = cur
	}
	return c
}

func record(c Case, f features) {
	nt := f.run || f.hole || f.newField || f.removal || f.wrappedContainer
	var cls []string
	for k, v := range map[string]bool{"run>=2": f.run, "hole": f.hole, "newfield": f.newField, "removal": f.removal, "wrapped-container": f.wrappedContainer, "reorder": f.reorder} {
		if v {
			cls = append(cls, k)
		}
	}
	cls = append(cls, "mode:"+c.Mode)
	canon := jv.Canon(c.Old.Go()) + "→" + jv.Canon(c.New.Go())
	rec.Case(canon, nt, cls...)
	if nt {
		label := "other"
		switch {
		case f.run:
			label = "run"
		case f.newField:
			label = "newfield"
		case f.hole:
			label = "hole"
		case f.removal:
			label = "removal"
		}
		rec.Sample(label, map[string]interface{}{"old": json.RawMessage(jv.Canon(c.Old.Go())), "new": json.RawMessage(jv.Canon(c.New.Go())), "delta": json.RawMessage(jv.Canon(diff.Diff(c.Old.Go(), c.New.Go())))})
	}
}

func TestRoundTrip(t *testing.T) {
	rapid.Check(t, func(t *rapid.T) {
		c := genCase(t)
		f, sig, err := check(c)
		if err != nil {
			p := rec.Violate("TestRoundTrip", c, sig+": "+err.Error())
			t.Fatalf("%s: %v (replay %s)", sig, err, p)
		}
		record(c, f)
	})
}

// TestReplay re-runs a saved case without rapid.
func TestReplay(t *testing.T) {
	p := os.Getenv("VERIF_REPLAY")
	if p == "" {
		t.Skip("no VERIF_REPLAY")
	}
	var c Case
	if _, err := ev.LoadReplay(p, &c); err != nil {
		t.Fatalf("harness: cannot load replay: %v", err)
	}
	f, sig, err := check(c)
	if err != nil {
		rec.Violate("TestReplay", c, sig+": "+err.Error())
		t.Fatalf("%s: %v", sig, err)
	}
	record(c, f)
}

// Pinned regressions: minimal cases found earlier; they run in every tier.
func TestPinned(t *testing.T) {
	cases := []Case{
		// run-length: Diff([a,b,c,d,e],[c,d,a]) = {"$":[[2,2],0]}
		{Mode: "pinned", Old: jv.Arr(jv.Str("a"), jv.Str("b"), jv.Str("c"), jv.Str("d"), jv.Str("e")), New: jv.Arr(jv.Str("c"), jv.Str("d"), jv.Str("a"))},
		// newly appearing container field
		{Mode: "pinned", Old: jv.Obj(jv.F("a", jv.Int(1))), New: jv.Obj(jv.F("b", jv.Arr(jv.Int(1), jv.Int(2))))},
		{Mode: "pinned", Old: jv.Obj(), New: jv.Obj(jv.F("b", jv.Obj(jv.F("x", jv.Int(1)))))},
		{Mode: "pinned", Old: jv.Obj(), New: jv.Obj(jv.F("b", jv.Arr()))},
		{Mode: "pinned", Old: jv.Obj(), New: jv.Obj(jv.F("b", jv.Null()))},
	}
	for i, c := range cases {
		f, sig, err := check(c)
		if err != nil {
			rec.Violate(fmt.Sprintf("TestPinned-%d", i), c, sig+": "+err.Error())
			t.Errorf("pinned %d: %s: %v", i, sig, err)
			continue
		}
		record(c, f)
	}
}
