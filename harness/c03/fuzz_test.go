package c03

import (
	"encoding/json"
	"fmt"
	"sort"
	"testing"

	jv "verifharness/jsonval"
)

// fromJSON turns a decoded JSON document into a value tree inside the domain the rapid
// generator uses: "$" is not a field name (GraphQL names cannot contain it), __key values are
// scalars, the keyed objects of one array have different keys, and negative zero is zero.
func fromJSON(x interface{}) jv.V {
	switch x := x.(type) {
	case nil:
		return jv.Null()
	case bool:
		return jv.V{K: "bool", B: x}
	case float64:
		if x == 0 {
			x = 0 // JSON "-0" decodes to negative zero, which compares equal to 0: one value
		}
		return jv.V{K: "float64", F: x}
	case string:
		return jv.Str(x)
	case []interface{}:
		out := jv.V{K: "arr"}
		seen := map[string]bool{}
		for _, e := range x {
			v := fromJSON(e)
			if v.K == "obj" {
				if k, ok := v.Get("__key"); ok {
					ks := jv.Canon(k.Go())
					if seen[ks] {
						// a second object with the same key: drop its key
						var kept []jv.KV
						for _, kv := range v.O {
							if kv.Key != "__key" {
								kept = append(kept, kv)
							}
						}
						v.O = kept
					}
					seen[ks] = true
				}
			}
			out.A = append(out.A, v)
		}
		return out
	case map[string]interface{}:
		keys := make([]string, 0, len(x))
		for k := range x {
			keys = append(keys, k)
		}
		sort.Strings(keys)
		out := jv.V{K: "obj"}
		for _, k := range keys {
			v := fromJSON(x[k])
			name := k
			if name == "$" {
				name = "dollar"
				if _, clash := x[name]; clash {
					continue
				}
			}
			if name == "__key" && v.IsContainer() {
				continue
			}
			out.O = append(out.O, jv.F(name, v))
		}
		return out
	}
	panic(fmt.Sprintf("unexpected %T", x))
}

// FuzzRoundTrip: coverage-guided search over pairs of JSON documents with the oracles of
// check() (the merge.ts leg is off in fuzz workers: VERIF_NOJS).
func FuzzRoundTrip(f *testing.F) {
	seeds := [][2]string{
		{`["a","b","c","d","e"]`, `["c","d","a"]`},
		{`{"a":1}`, `{"b":[1,2]}`},
		{`[{"__key":1,"x":1},{"__key":2,"x":2},{"__key":3}]`, `[{"__key":3},{"__key":1,"x":5},{"__key":4}]`},
		{`{"a":{"b":[1,2,3,{"c":null}]}}`, `{"a":{"b":[3,2,1,{"c":[]}]}}`},
		{`[1,1,2,2,3,3]`, `[3,3,1,1]`},
		{`{"x":[[],{}],"y":null}`, `{"x":[{},[]],"z":{"__key":"k"}}`},
		{`[0,1,2,3,4,5,6,7,8,9]`, `[9,0,1,2,3,4,5,6,7,8]`},
		{`{"a":{"__key":1,"x":1},"b":{"y":2}}`, `{"a":{"x":1},"b":{"__key":"k","y":2}}`},
		{`{"l":[1,2,3],"m":[[1],[2]]}`, `{"l":[],"m":[[],[2]]}`},
		{`[{"__key":"a","v":[1,2]},{"__key":"b","v":{"w":null}}]`, `[{"__key":"b","v":{"w":1}},{"__key":"a","v":[2]},{"v":3}]`},
		{`{"a":[],"b":{},"c":null,"d":"s","e":true,"f":1.5}`, `{"a":{},"b":[],"c":0,"d":null,"e":"true","f":[1.5]}`},
		{`[[1,2],[3,4],[5,6]]`, `[[5,6],[1,2,3],[3,4]]`},
	}
	for _, s := range seeds {
		f.Add([]byte(s[0]), []byte(s[1]))
	}
	f.Fuzz(func(t *testing.T, a, b []byte) {
		var x, y interface{}
		if json.Unmarshal(a, &x) != nil || json.Unmarshal(b, &y) != nil {
			t.Skip()
		}
		c := Case{Old: fromJSON(x), New: fromJSON(y), Mode: "fuzz"}
		if _, sig, err := check(c); err != nil {
			if sig == "harness" {
				t.Skip()
			}
			t.Fatalf("%s: %v\nold: %s\nnew: %s", sig, err, jv.Canon(c.Old.Go()), jv.Canon(c.New.Go()))
		}
	})
}
