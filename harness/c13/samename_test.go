package c13

import (
	"database/sql/driver"
	"fmt"
	"reflect"
	"testing"

	"github.com/samsarahq/thunder/sqlgen"
	"pgregory.net/rapid"
)

// Column types that print alike but are different types: two function-local types called
// "grade" (reflect prints both as c13.grade), one integer-based, one string-based, as columns
// of two tables registered in the same process, plus same-named struct types with different
// fields under a json tag. Each table must round-trip with its own type.

func sameNameA() (interface{}, func(int64, string) interface{}) {
	type grade int64
	type doc struct{ A int64 }
	type T struct {
		Id int64 `sql:",primary"`
		G  grade
		PG *grade
		D  doc `sql:",json"`
	}
	return T{}, func(n int64, s string) interface{} {
		g := grade(n)
		return &T{Id: 1, G: grade(n), PG: &g, D: doc{A: n}}
	}
}

func sameNameB() (interface{}, func(int64, string) interface{}) {
	type grade string
	type doc struct{ B string }
	type T struct {
		Id int64 `sql:",primary"`
		G  grade
		PG *grade
		D  doc `sql:",json"`
	}
	return T{}, func(n int64, s string) interface{} {
		g := grade(s)
		return &T{Id: 1, G: grade(s), PG: &g, D: doc{B: s}}
	}
}

func TestSameNamedTypes(t *testing.T) {
	rapid.Check(t, func(t *rapid.T) {
		ta, mkA := sameNameA()
		tb, mkB := sameNameB()
		s := sqlgen.NewSchema()
		order := rapid.Bool().Draw(t, "bfirst")
		reg := func(name string, v interface{}) {
			if err := s.RegisterType(name, sqlgen.AutoIncrement, v); err != nil {
				p := rec.Violate("TestSameNamedTypes", map[string]interface{}{"table": name}, "registration failed: "+err.Error())
				t.Fatalf("registering %s: %v (replay %s)", name, err, p)
			}
		}
		if order {
			reg("tb", tb)
			reg("ta", ta)
		} else {
			reg("ta", ta)
			reg("tb", tb)
		}
		n := rapid.Int64Range(-3, 3).Draw(t, "n")
		str := rapid.SampledFrom([]string{"", "A", "b+"}).Draw(t, "s")
		for _, tc := range []struct {
			table string
			row   interface{}
		}{{"ta", mkA(n, str)}, {"tb", mkB(n, str)}} {
			cs := map[string]interface{}{"table": tc.table, "row": fmt.Sprintf("%+v", tc.row), "b_registered_first": order}
			fail := func(msg string) {
				p := rec.Violate("TestSameNamedTypes", cs, msg)
				t.Fatalf("%s (replay %s)", msg, p)
			}
			var back interface{}
			func() {
				defer func() {
					if r := recover(); r != nil {
						fail(fmt.Sprintf("round trip of table %s panicked: %v", tc.table, r))
					}
				}()
				vals, err := s.UnbuildStruct(tc.table, tc.row)
				if err != nil {
					fail(fmt.Sprintf("UnbuildStruct(%s): %v", tc.table, err))
				}
				dv := make([]driver.Value, len(vals))
				for i, v := range vals {
					x, err := driver.DefaultParameterConverter.ConvertValue(v)
					if err != nil {
						fail(fmt.Sprintf("column value %d of %s is not a driver value: %v", i, tc.table, err))
					}
					dv[i] = x
				}
				back, err = s.BuildStruct(tc.table, dv)
				if err != nil {
					fail(fmt.Sprintf("BuildStruct(%s) of the row's own column values %v: %v", tc.table, dv, err))
				}
			}()
			if !reflect.DeepEqual(back, tc.row) {
				fail(fmt.Sprintf("round trip of table %s changed the row: sent %+v, got %+v", tc.table, tc.row, back))
			}
		}
		rec.Case(fmt.Sprint("samename", order, n, str), true, "same-named-types")
	})
}
