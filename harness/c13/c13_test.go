package c13

import (
	"database/sql/driver"
	"fmt"
	"os"
	"reflect"
	"sort"
	"strings"
	"testing"
	"time"

	"github.com/gogo/protobuf/proto"
	"github.com/samsarahq/thunder/livesql"
	"github.com/samsarahq/thunder/sqlgen"
	"github.com/samsarahq/thunder/thunderpb"
	"pgregory.net/rapid"

	"verifharness/ev"
	"verifharness/fakesql"
	sw "verifharness/sqlworld"
)

var rec = ev.New("C13",
	"cases: a generated value of one of three registered table structs (every int/uint width incl. values above the signed range, floats, bool, string, named scalars, []byte nil/empty/non-empty, time in UTC and fixed zones, pointers with nil, json/string/binary-tagged custom types, a gogo-proto message, implicitnull) round-tripped through UnbuildStruct and 5 source representations (identity, MySQL text []byte, string, binary protocol, binlog row image); testers from the row's own column values over random column subsets; protobuf-shipped filters compared on a generated row set; non-trivial = value has >=1 nil and >=1 non-nil pointer column, or an unsigned value above the signed range of its width, or a tagged column, or an implicitnull zero; distinct = hash of the row",
	"uint64 above MaxInt64 excluded", "binlog leg uses whole-second times (the vendored replication decoder drops DATETIME fractions)", "no NaN")

var schema = sw.NewSchema()
var eng = fakesql.NewFromSchema(schema)

func TestMain(m *testing.M) { sw.WideTimes = true; code := m.Run(); rec.Flush(); os.Exit(code) }

func features(table string, row interface{}) (nt bool, labels []string) {
	v := reflect.ValueOf(row).Elem()
	nilPtr, nonNilPtr, bigUnsigned, implicitZero := false, false, false, false
	for i := 0; i < v.NumField(); i++ {
		f := v.Field(i)
		sf := v.Type().Field(i)
		switch f.Kind() {
		case reflect.Ptr:
			if f.IsNil() {
				nilPtr = true
			} else {
				nonNilPtr = true
			}
		case reflect.Uint8, reflect.Uint16, reflect.Uint32:
			if f.Uint() >= 1<<(uint(f.Type().Bits())-1) {
				bigUnsigned = true
			}
		}
		if strings.Contains(sf.Tag.Get("sql"), "implicitnull") && f.IsZero() {
			implicitZero = true
		}
	}
	tagged := table == "row_c"
	for k, b := range map[string]bool{"nil+nonnil-ptr": nilPtr && nonNilPtr, "unsigned>signed-range": bigUnsigned, "tagged": tagged, "implicitnull-zero": implicitZero} {
		if b {
			labels = append(labels, k)
		}
	}
	labels = append(labels, "table:"+table)
	sort.Strings(labels)
	return (nilPtr && nonNilPtr) || bigUnsigned || tagged || implicitZero, labels
}

func truncSeconds(row interface{}) interface{} {
	cp := reflect.New(reflect.TypeOf(row).Elem())
	cp.Elem().Set(reflect.ValueOf(row).Elem())
	v := cp.Elem()
	for i := 0; i < v.NumField(); i++ {
		f := v.Field(i)
		if f.Type() == reflect.TypeOf(time.Time{}) {
			f.Set(reflect.ValueOf(f.Interface().(time.Time).Truncate(time.Second)))
		}
		if f.Type() == reflect.TypeOf((*time.Time)(nil)) && !f.IsNil() {
			t := f.Elem().Interface().(time.Time).Truncate(time.Second)
			f.Set(reflect.ValueOf(&t))
		}
	}
	return cp.Interface()
}

func checkRow(table string, row interface{}, subsets [][]string) (string, error) {
	def := eng.Def(table)
	tbl := schema.ByName[table]
	vals, err := schema.UnbuildStruct(table, row)
	if err != nil {
		return "unbuild", fmt.Errorf("UnbuildStruct failed: %v", err)
	}
	for i, v := range vals {
		if !driver.IsValue(v) {
			return "not-driver-value", fmt.Errorf("column %s: UnbuildStruct produced %T, not a driver.Value", def.Cols[i].Name, v)
		}
	}
	var decoded []interface{}
	for _, rep := range []string{"identity", "text", "string", "binary"} {
		r, err := sw.Rep(def, vals, rep)
		if err != nil {
			return "harness-rep", fmt.Errorf("harness: %v", err)
		}
		keep := make([]driver.Value, len(r))
		for i := range r { // keep a copy to detect aliasing of the source buffer
			if b, ok := r[i].([]byte); ok {
				keep[i] = append([]byte{}, b...)
			}
		}
		got, err := schema.BuildStruct(table, r)
		if err != nil {
			return "build-" + rep, fmt.Errorf("BuildStruct from %s representation failed: %v\nrow %s", rep, err, sw.Describe(row))
		}
		// a real driver reuses its buffers after the scan
		for i := range r {
			if b, ok := r[i].([]byte); ok {
				for j := range b {
					b[j] = 0xEE
				}
			}
		}
		if !sw.Equalish(reflect.ValueOf(got), reflect.ValueOf(row)) {
			return "roundtrip-" + rep, fmt.Errorf("round trip through %s representation changed the row:\n sent %s\n got  %s", rep, sw.Describe(row), sw.Describe(got))
		}
		decoded = append(decoded, got)
	}
	// binlog leg, whole-second times
	rowS := truncSeconds(row)
	valsS, _ := schema.UnbuildStruct(table, rowS)
	br, err := sw.Rep(def, valsS, "binlog")
	if err != nil {
		return "harness-rep", fmt.Errorf("harness: %v", err)
	}
	bl := make([]interface{}, len(br))
	for i, v := range br {
		bl[i] = v
	}
	gotB, err := livesql.VerifParseBinlogRow(tbl, bl)
	if err != nil {
		return "binlog-parse", fmt.Errorf("parseBinlogRow failed: %v\nrow %s", err, sw.Describe(rowS))
	}
	if !sw.Equalish(reflect.ValueOf(gotB), reflect.ValueOf(rowS)) {
		return "roundtrip-binlog", fmt.Errorf("binlog row image decoded to a different row:\n sent %s\n got  %s", sw.Describe(rowS), sw.Describe(gotB))
	}
	// (3) testers from the row's own column values
	rv := reflect.ValueOf(row).Elem()
	for _, cols := range subsets {
		f := sqlgen.Filter{}
		for _, c := range cols {
			col := tbl.ColumnsByName[c]
			f[c] = rv.FieldByIndex(col.Index).Interface()
		}
		ts, err := schema.MakeTester(table, f)
		if err != nil {
			return "tester-make", fmt.Errorf("MakeTester: %v", err)
		}
		if !ts.Test(row) {
			return "tester-own", fmt.Errorf("a filter made from the row's own values of %v does not match the row %s", cols, sw.Describe(row))
		}
		for i, d := range decoded {
			if !ts.Test(d) {
				return "tester-decoded", fmt.Errorf("a filter made from the row's own values of %v does not match the same row after decoding it from representation %d (%s):\n row %s", cols, i, []string{"identity", "text", "string", "binary"}[i], sw.Describe(row))
			}
		}
		fs := sqlgen.Filter{}
		rvs := reflect.ValueOf(rowS).Elem()
		for _, c := range cols {
			fs[c] = rvs.FieldByIndex(tbl.ColumnsByName[c].Index).Interface()
		}
		tsS, _ := schema.MakeTester(table, fs)
		if !tsS.Test(gotB) {
			return "tester-binlog", fmt.Errorf("a filter made from the row's own values of %v does not match the row decoded from its binlog image:\n row %s", cols, sw.Describe(rowS))
		}
	}
	return "", nil
}

func checkProtoFilter(table string, f sqlgen.Filter, rows []interface{}) (string, error) {
	pf, err := livesql.FilterToProto(schema, table, f)
	if err != nil {
		return "", nil // rejected with an error: allowed
	}
	b, err := proto.Marshal(pf)
	if err != nil {
		return "proto-marshal", fmt.Errorf("proto.Marshal: %v", err)
	}
	var pf2 thunderpb.SQLFilter
	if err := proto.Unmarshal(b, &pf2); err != nil {
		return "proto-unmarshal", fmt.Errorf("proto.Unmarshal: %v", err)
	}
	t2, f2, err := livesql.FilterFromProto(schema, &pf2)
	if err != nil {
		return "", nil // rejected: allowed
	}
	if t2 != table {
		return "proto-table", fmt.Errorf("table changed to %q", t2)
	}
	a, err1 := schema.MakeTester(table, f)
	c, err2 := schema.MakeTester(table, f2)
	if err1 != nil || err2 != nil {
		return "proto-tester", fmt.Errorf("MakeTester: %v %v", err1, err2)
	}
	for _, r := range rows {
		if a.Test(r) != c.Test(r) {
			return "proto-filter-differs", fmt.Errorf("filter %v became %v through its protobuf encoding; original matches=%v, shipped matches=%v on row %s", f, f2, a.Test(r), c.Test(r), sw.Describe(r))
		}
	}
	return "", nil
}

func genSubsets(t *rapid.T, table string) [][]string {
	var names []string
	for _, c := range schema.ByName[table].Columns {
		names = append(names, c.Name)
	}
	n := rapid.IntRange(1, 4).Draw(t, "nsubsets")
	var out [][]string
	for i := 0; i < n; i++ {
		k := rapid.IntRange(0, 3).Draw(t, "k")
		out = append(out, rapid.SliceOfNDistinct(rapid.SampledFrom(names), k, k, rapid.ID[string]).Draw(t, "cols"))
	}
	// and every single column once in a while
	if rapid.IntRange(0, 3).Draw(t, "allsingles") == 0 {
		for _, nm := range names {
			out = append(out, []string{nm})
		}
	}
	return out
}

func TestCodec(t *testing.T) { rapid.Check(t, propCodec) }

// FuzzCodec: the same property driven by the coverage-guided engine (thorough tier).
func FuzzCodec(f *testing.F) { f.Fuzz(rapid.MakeFuzz(propCodec)) }

func propCodec(t *rapid.T) {
	{
		table := rapid.SampledFrom(sw.Tables).Draw(t, "table")
		row := sw.GenRow(t, table, rapid.IntRange(1, 5).Draw(t, "id"))
		subsets := genSubsets(t, table)
		if sig, err := checkRow(table, row, subsets); err != nil {
			p := rec.Violate("TestCodec", map[string]interface{}{"table": table, "row": sw.Describe(row), "subsets": subsets}, sig+": "+err.Error())
			t.Fatalf("%s: %v (replay %s)", sig, err, p)
		}
		nt, labels := features(table, row)
		rec.Case(table+sw.Describe(row), nt, labels...)
		if nt {
			rec.Sample(strings.Join(labels, "+"), map[string]interface{}{"table": table, "row": sw.Describe(row), "filter_column_subsets": subsets})
		}
	}
}

func TestProtoFilter(t *testing.T) {
	rapid.Check(t, func(t *rapid.T) {
		table := rapid.SampledFrom(sw.Tables).Draw(t, "table")
		var rows []interface{}
		for i := 0; i < rapid.IntRange(1, 6).Draw(t, "nrows"); i++ {
			rows = append(rows, sw.GenRow(t, table, i%3))
		}
		// filter from one row's values (so it matches something), sometimes from another row
		src := rows[rapid.IntRange(0, len(rows)-1).Draw(t, "src")]
		cols := genSubsets(t, table)[0]
		f := sqlgen.Filter{}
		rv := reflect.ValueOf(src).Elem()
		for _, c := range cols {
			f[c] = rv.FieldByIndex(schema.ByName[table].ColumnsByName[c].Index).Interface()
		}
		if sig, err := checkProtoFilter(table, f, rows); err != nil {
			p := rec.Violate("TestProtoFilter", map[string]interface{}{"table": table, "filter_cols": cols, "src": sw.Describe(src)}, sig+": "+err.Error())
			t.Fatalf("%s: %v (replay %s)", sig, err, p)
		}
		rec.Case("pf"+table+fmt.Sprint(cols)+sw.Describe(src), len(cols) > 0, "proto-filter", fmt.Sprintf("filtercols=%d", len(cols)))
	})
}

func TestReplay(t *testing.T) {
	if os.Getenv("VERIF_REPLAY") == "" {
		t.Skip("no VERIF_REPLAY")
	}
	t.Skip("C13 replays are re-run by seed (row values are Go structs); the replay file carries the failing row as JSON")
}
