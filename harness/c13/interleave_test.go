package c13

import (
	"bytes"
	"database/sql/driver"
	"fmt"
	"reflect"
	"testing"

	"github.com/samsarahq/thunder/sqlgen"
	"pgregory.net/rapid"
)

// Column values of one row must not depend on what was converted after it: the values of two
// or three rows are taken first and decoded afterwards, multi-row statements carry every row's
// own values, and a tester built from one row is tried on the others. The table has a
// binary-tagged value column whose pointer-receiver Marshal returns bytes that alias the
// receiver (a fixed-size id type), next to ordinary columns.

type aliasID [4]byte

func (a *aliasID) Marshal() ([]byte, error) { return a[:], nil }
func (a *aliasID) Unmarshal(b []byte) error {
	if len(b) != 4 {
		return fmt.Errorf("bad aliasID %x", b)
	}
	copy(a[:], b)
	return nil
}

type interRow struct {
	Id   int64   `sql:",primary"`
	AID  aliasID `sql:",binary"`
	By   []byte
	Name string
	PS   *string
}

var interSchema = func() *sqlgen.Schema {
	s := sqlgen.NewSchema()
	s.MustRegisterType("inter", sqlgen.AutoIncrement, interRow{})
	return s
}()

func genInterRow(t *rapid.T, id int64) *interRow {
	r := &interRow{Id: id, Name: rapid.SampledFrom([]string{"", "a", "b"}).Draw(t, "name")}
	copy(r.AID[:], rapid.SliceOfN(rapid.Byte(), 4, 4).Draw(t, "aid"))
	if rapid.Bool().Draw(t, "hasby") {
		r.By = rapid.SliceOfN(rapid.Byte(), 0, 3).Draw(t, "by")
	}
	if rapid.Bool().Draw(t, "hasps") {
		s := rapid.SampledFrom([]string{"", "x"}).Draw(t, "ps")
		r.PS = &s
	}
	return r
}

func toDriver(vals []interface{}) ([]driver.Value, error) {
	out := make([]driver.Value, len(vals))
	for i, v := range vals {
		x, err := driver.DefaultParameterConverter.ConvertValue(v)
		if err != nil {
			return nil, err
		}
		out[i] = x
	}
	return out, nil
}

func TestInterleavedRows(t *testing.T) {
	rapid.Check(t, func(t *rapid.T) {
		n := rapid.IntRange(2, 3).Draw(t, "nrows")
		var rows []*interRow
		for i := 0; i < n; i++ {
			rows = append(rows, genInterRow(t, int64(i+1)))
		}
		cs := map[string]interface{}{"rows": fmt.Sprintf("%+v", rows)}
		fail := func(sig, msg string) {
			p := rec.Violate("TestInterleavedRows", cs, sig+": "+msg)
			t.Fatalf("%s: %s (replay %s)", sig, msg, p)
		}
		// all rows to column values first, decoding afterwards
		var vals [][]driver.Value
		for _, r := range rows {
			v, err := interSchema.UnbuildStruct("inter", r)
			if err != nil {
				fail("unbuild", err.Error())
			}
			dv, err := toDriver(v)
			if err != nil {
				fail("unbuild", err.Error())
			}
			vals = append(vals, dv)
		}
		for i, r := range rows {
			back, err := interSchema.BuildStruct("inter", vals[i])
			if err != nil {
				fail("build", fmt.Sprintf("row %d: %v", i, err))
			}
			if !reflect.DeepEqual(back, r) {
				fail("roundtrip-interleaved", fmt.Sprintf("row %d: sent %+v, got %+v back after the column values of the other rows were taken in between", i, r, back))
			}
		}
		// a multi-row INSERT carries every row's own values
		var ifs []interface{}
		for _, r := range rows {
			ifs = append(ifs, r)
		}
		q, err := interSchema.MakeBatchInsertRow(ifs)
		if err != nil {
			fail("batch-insert", err.Error())
		}
		nc := len(q.Columns)
		bvals, err := toDriver(q.Values)
		if err != nil || len(bvals) != nc*len(rows) {
			fail("batch-insert", fmt.Sprintf("%d values for %d rows of %d columns (%v)", len(bvals), len(rows), nc, err))
		}
		for i, r := range rows {
			// columns of the statement may leave out the auto-increment id when it is zero; map by name
			row := make([]driver.Value, len(vals[i]))
			copy(row, vals[i])
			tbl := interSchema.ByName["inter"]
			for k, c := range q.Columns {
				row[tbl.ColumnsByName[c].Order] = bvals[i*nc+k]
			}
			back, err := interSchema.BuildStruct("inter", row)
			if err != nil {
				fail("batch-insert", fmt.Sprintf("row %d of the multi-row INSERT does not decode: %v", i, err))
			}
			if !reflect.DeepEqual(back, r) {
				fail("batch-insert-values", fmt.Sprintf("row %d of a %d-row INSERT carries %+v, the row is %+v", i, len(rows), back, r))
			}
		}
		// a tester made from one row's id only matches rows with that id
		for i, r := range rows {
			tester, err := interSchema.MakeTester("inter", sqlgen.Filter{"a_i_d": r.AID})
			if err != nil {
				fail("tester", err.Error())
			}
			for j, o := range rows {
				want := bytes.Equal(r.AID[:], o.AID[:])
				if got := tester.Test(o); got != want {
					fail("tester-other-row", fmt.Sprintf("tester for a_i_d of row %d says %v on row %d (ids %x / %x)", i, got, j, r.AID, o.AID))
				}
			}
		}
		rec.Case(fmt.Sprint(cs), true, "interleaved-rows")
	})
}
