package c11

import (
	"context"
	"encoding/json"
	"fmt"
	"math"
	"os"
	"regexp"
	"sort"
	"strings"
	"sync"
	"testing"

	"github.com/samsarahq/thunder/batch"
	"github.com/samsarahq/thunder/graphql"
	"github.com/samsarahq/thunder/graphql/schemabuilder"
	"pgregory.net/rapid"

	"verifharness/ev"
)

var rec = ev.New("C11",
	"cases: a list of 0-25 items with unique keys (int64 or string keys), text attributes and sort attributes (int, uint, float, string with duplicates and case variants) behind a thunder-managed paginated field whose filter and sort fields are implemented plain / Expensive / batch / batch-with-fallback (flag toggled); requests: full forward walks (first=n, after=endCursor), full backward walks (last=n, before=startCursor), single pages with arbitrary after/before/first/last incl. unknown cursors and both cursors; filterText (multi-token, quoted, empty), filterTextFields subsets, sortBy/sortOrder; oracle = reference filter + stable sort + the slicing rules of the property; non-trivial = a walk of >=3 pages, or both cursors, or an unknown cursor, or a filter that removes some but not all items, or a sort with ties; distinct = hash of the case",
	"first/last >= 1 in walks; negative values and first+last together are client errors", "cursors are opaque: only equality with the edge cursors is used")

func TestMain(m *testing.M) { code := m.Run(); rec.Flush(); os.Exit(code) }

type Item struct {
	Id    int64
	Name  string
	Desc  string
	Rank  int64
	Score float64
	U     uint8
	Label string
}

type SItem struct {
	Id    string
	Name  string
	Desc  string
	Rank  int64
	Score float64
	U     uint8
	Label string
}

var cur struct {
	mu    sync.Mutex
	items []Item
}

func current() []Item {
	cur.mu.Lock()
	defer cur.mu.Unlock()
	return append([]Item{}, cur.items...)
}

type fbKey struct{}

func useBatch(ctx context.Context) bool {
	v, _ := ctx.Value(fbKey{}).(bool)
	return !v
}

var schemas = map[string]*graphql.Schema{}

func buildSchema(impl string, stringKeys bool) *graphql.Schema {
	s := schemabuilder.NewSchema()
	q := s.Query()
	if !stringKeys {
		obj := s.Object("Item", Item{})
		obj.Key("id")
		var opts []schemabuilder.FieldFuncOption
		opts = append(opts, schemabuilder.Paginated)
		// "mixed" schemas give the two filter fields different kinds (the element list is []*Item)
		mixed := map[string]map[string]string{"mixed": {"name": "plainp", "desc": "batchp"}, "mixed2": {"name": "expensive", "desc": "plainp"}, "mixed3": {"name": "batchp", "desc": "expensive"},
			// crossed pairings: a list of values with helper funcs that take pointers, a list of
			// pointers with helper funcs that take values
			"xval": {"name": "batchp", "desc": "plainp"}, "xptr": {"name": "batch", "desc": "plain"}}
		ff := func(name string, get func(Item) string) {
			kind := impl
			if kind == "manualfb" {
				kind = "plain"
			}
			if m, ok := mixed[impl]; ok {
				kind = m[name]
			}
			switch kind {
			case "plainp":
				opts = append(opts, schemabuilder.FilterField(name, func(i *Item) string { return get(*i) }))
			case "batchp":
				opts = append(opts, schemabuilder.BatchFilterField(name, func(ctx context.Context, m map[batch.Index]*Item) (map[batch.Index]string, error) {
					out := map[batch.Index]string{}
					for k, v := range m {
						out[k] = get(*v)
					}
					return out, nil
				}))
			case "plain":
				opts = append(opts, schemabuilder.FilterField(name, func(i Item) string { return get(i) }))
			case "expensive":
				opts = append(opts, schemabuilder.FilterField(name, func(ctx context.Context, i *Item) (string, error) { return get(*i), nil }, schemabuilder.Expensive))
			case "batch":
				opts = append(opts, schemabuilder.BatchFilterField(name, func(ctx context.Context, m map[batch.Index]Item) (map[batch.Index]string, error) {
					out := map[batch.Index]string{}
					for k, v := range m {
						out[k] = get(v)
					}
					return out, nil
				}))
			default:
				opts = append(opts, schemabuilder.BatchFilterFieldWithFallback(name, func(ctx context.Context, m map[batch.Index]*Item) (map[batch.Index]string, error) {
					out := map[batch.Index]string{}
					for k, v := range m {
						out[k] = get(*v)
					}
					return out, nil
				}, func(ctx context.Context, i *Item) (string, error) { return get(*i), nil }, useBatch))
			}
		}
		ff("name", func(i Item) string { return i.Name })
		ff("desc", func(i Item) string { return i.Desc })
		switch impl {
		case "plain", "manualfb":
			opts = append(opts, schemabuilder.SortField("rank", func(i Item) int64 { return i.Rank }),
				schemabuilder.SortField("score", func(i Item) float64 { return i.Score }),
				schemabuilder.SortField("u", func(i Item) uint8 { return i.U }),
				schemabuilder.SortField("label", func(i Item) string { return i.Label }))
		case "expensive":
			opts = append(opts, schemabuilder.SortField("rank", func(ctx context.Context, i Item) int64 { return i.Rank }, schemabuilder.Expensive),
				schemabuilder.SortField("score", func(ctx context.Context, i Item) float64 { return i.Score }, schemabuilder.Expensive),
				schemabuilder.SortField("u", func(ctx context.Context, i Item) uint8 { return i.U }, schemabuilder.Expensive),
				schemabuilder.SortField("label", func(ctx context.Context, i Item) string { return i.Label }, schemabuilder.Expensive))
		case "xval":
			opts = append(opts, schemabuilder.BatchSortField("rank", func(ctx context.Context, m map[batch.Index]*Item) (map[batch.Index]int64, error) {
				out := map[batch.Index]int64{}
				for k, v := range m {
					out[k] = v.Rank
				}
				return out, nil
			}), schemabuilder.SortField("score", func(i *Item) float64 { return i.Score }),
				schemabuilder.BatchSortField("u", func(ctx context.Context, m map[batch.Index]*Item) (map[batch.Index]uint8, error) {
					out := map[batch.Index]uint8{}
					for k, v := range m {
						out[k] = v.U
					}
					return out, nil
				}), schemabuilder.SortField("label", func(ctx context.Context, i *Item) string { return i.Label }, schemabuilder.Expensive))
		case "batch", "xptr":
			opts = append(opts, schemabuilder.BatchSortField("rank", func(ctx context.Context, m map[batch.Index]Item) (map[batch.Index]int64, error) {
				out := map[batch.Index]int64{}
				for k, v := range m {
					out[k] = v.Rank
				}
				return out, nil
			}), schemabuilder.BatchSortField("score", func(ctx context.Context, m map[batch.Index]Item) (map[batch.Index]float64, error) {
				out := map[batch.Index]float64{}
				for k, v := range m {
					out[k] = v.Score
				}
				return out, nil
			}), schemabuilder.BatchSortField("u", func(ctx context.Context, m map[batch.Index]Item) (map[batch.Index]uint8, error) {
				out := map[batch.Index]uint8{}
				for k, v := range m {
					out[k] = v.U
				}
				return out, nil
			}), schemabuilder.BatchSortField("label", func(ctx context.Context, m map[batch.Index]Item) (map[batch.Index]string, error) {
				out := map[batch.Index]string{}
				for k, v := range m {
					out[k] = v.Label
				}
				return out, nil
			}))
		default:
			opts = append(opts, schemabuilder.BatchSortFieldWithFallback("rank", func(ctx context.Context, m map[batch.Index]*Item) (map[batch.Index]int64, error) {
				out := map[batch.Index]int64{}
				for k, v := range m {
					out[k] = v.Rank
				}
				return out, nil
			}, func(ctx context.Context, i *Item) (int64, error) { return i.Rank, nil }, useBatch),
				schemabuilder.BatchSortFieldWithFallback("score", func(ctx context.Context, m map[batch.Index]*Item) (map[batch.Index]float64, error) {
					out := map[batch.Index]float64{}
					for k, v := range m {
						out[k] = v.Score
					}
					return out, nil
				}, func(ctx context.Context, i *Item) (float64, error) { return i.Score, nil }, useBatch),
				schemabuilder.BatchSortFieldWithFallback("u", func(ctx context.Context, m map[batch.Index]*Item) (map[batch.Index]uint8, error) {
					out := map[batch.Index]uint8{}
					for k, v := range m {
						out[k] = v.U
					}
					return out, nil
				}, func(ctx context.Context, i *Item) (uint8, error) { return i.U, nil }, useBatch),
				schemabuilder.BatchSortFieldWithFallback("label", func(ctx context.Context, m map[batch.Index]*Item) (map[batch.Index]string, error) {
					out := map[batch.Index]string{}
					for k, v := range m {
						out[k] = v.Label
					}
					return out, nil
				}, func(ctx context.Context, i *Item) (string, error) { return i.Label, nil }, useBatch))
		}
		if impl == "manualfb" {
			// a manually paginated resolver with a thunder-managed fallback, and the flag says
			// "use the fallback": the field is thunder-managed
			q.ManualPaginationWithFallback("items",
				func(ctx context.Context, args manualArgs) ([]Item, schemabuilder.PaginationInfo, schemabuilder.PostProcessOptions, error) {
					return nil, schemabuilder.PaginationInfo{}, schemabuilder.PostProcessOptions{}, fmt.Errorf("the manual resolver must not be used")
				},
				func(ctx context.Context, args plainArgs) ([]Item, error) { return currentFrom(args.MinRank), nil },
				func(ctx context.Context) bool { return true }, opts...)
		} else if impl == "plain" || impl == "batch" || impl == "xval" {
			q.FieldFunc("items", func(args itemArgs) []Item { return currentFrom(args.MinRank) }, opts...)
		} else {
			q.FieldFunc("items", func(ctx context.Context, args itemArgs) ([]*Item, error) {
				var out []*Item
				for _, it := range currentFrom(args.MinRank) {
					it := it
					out = append(out, &it)
				}
				return out, nil
			}, opts...)
		}
	} else {
		obj := s.Object("SItem", SItem{})
		obj.Key("id")
		q.FieldFunc("items", func(args itemArgs) []SItem {
			var out []SItem
			for _, it := range currentFrom(args.MinRank) {
				out = append(out, SItem{Id: fmt.Sprintf("k%d", it.Id), Name: it.Name, Desc: it.Desc, Rank: it.Rank, Score: it.Score, U: it.U, Label: it.Label})
			}
			return out
		}, schemabuilder.Paginated,
			schemabuilder.FilterField("name", func(i SItem) string { return i.Name }),
			schemabuilder.FilterField("desc", func(i SItem) string { return i.Desc }),
			schemabuilder.SortField("rank", func(i SItem) int64 { return i.Rank }),
			schemabuilder.SortField("score", func(i SItem) float64 { return i.Score }),
			schemabuilder.SortField("u", func(i SItem) uint8 { return i.U }),
			schemabuilder.SortField("label", func(i SItem) string { return i.Label }))
	}
	return s.MustBuild()
}

var impls = []string{"plain", "expensive", "batch", "batchfb", "stringkeys", "mixed", "mixed2", "mixed3", "manualfb", "xval", "xptr"}

type manualArgs struct {
	Note           *string
	MinRank        *int64
	PaginationArgs schemabuilder.PaginationArgs
}

type plainArgs struct {
	Note    *string
	MinRank *int64
}

func init() {
	for _, im := range impls {
		schemas[im] = buildSchema(im, im == "stringkeys")
	}
}

// ---------- reference ----------

var matchGroups = regexp.MustCompile(`(?:([^\s"]+)|"([^"]*)"?)+`)

// tokens / matches fix the meaning of "passes the text filter" (copied semantics of
// internal/filter, which is not what is under test).
func tokens(q string) []string {
	if q == "" {
		return nil
	}
	var out []string
	for _, m := range matchGroups.FindAllStringSubmatch(q, -1) {
		if m[1] == "" && m[2] == "" {
			out = append(out, "")
			continue
		}
		s := m[1]
		if s == "" {
			s = m[2]
		}
		out = append(out, s)
	}
	return out
}

func matches(s string, toks []string) bool {
	if len(toks) == 0 {
		return true
	}
	for _, t := range toks {
		if t != "" && strings.Contains(strings.ToLower(s), strings.ToLower(t)) {
			return true
		}
	}
	return false
}

type Req struct {
	First, Last   *int64
	After, Before *string // keys (not cursors) or "?" for an unknown cursor
	FilterText    *string
	FilterFields  []string // nil = all
	SortBy        string
	Desc          bool
	// MinRank: the field's own optional argument (the resolver leaves out items below it);
	// most requests do not pass it
	MinRank *int64
}

// itemArgs are the paginated field's own arguments.
type itemArgs struct {
	MinRank *int64
}

func currentFrom(minRank *int64) []Item {
	var out []Item
	for _, it := range current() {
		if minRank == nil || it.Rank >= *minRank {
			out = append(out, it)
		}
	}
	return out
}

type Case struct {
	Items    []Item `json:"items"`
	Impl     string `json:"impl"`
	Fallback bool   `json:"fallback"`
	Mode     string `json:"mode"` // forward backward single
	N        int64  `json:"n"`
	Req      Req    `json:"req"`
}

func refList(c Case) []Item {
	var items []Item
	for _, it := range c.Items {
		if c.Req.MinRank == nil || it.Rank >= *c.Req.MinRank {
			items = append(items, it)
		}
	}
	if c.Req.FilterText != nil && *c.Req.FilterText != "" {
		toks := tokens(*c.Req.FilterText)
		fields := c.Req.FilterFields
		if fields == nil {
			fields = []string{"name", "desc"}
		}
		var kept []Item
		for _, it := range items {
			ok := false
			for _, f := range fields {
				switch f {
				case "name":
					ok = ok || matches(it.Name, toks)
				case "desc":
					ok = ok || matches(it.Desc, toks)
				}
			}
			if ok {
				kept = append(kept, it)
			}
		}
		items = kept
	}
	if c.Req.SortBy != "" {
		less := func(a, b Item) bool {
			switch c.Req.SortBy {
			case "rank":
				return a.Rank < b.Rank
			case "score":
				return a.Score < b.Score
			case "u":
				return a.U < b.U
			}
			return strings.ToLower(a.Label) < strings.ToLower(b.Label)
		}
		sort.SliceStable(items, func(i, j int) bool {
			if c.Req.Desc {
				return less(items[j], items[i])
			}
			return less(items[i], items[j])
		})
	}
	return items
}

type page struct {
	Keys       []string
	Cursors    []string
	Total      int64
	HasNext    bool
	HasPrev    bool
	Start, End string
}

func keyOf(c Case, it Item) string {
	if c.Impl == "stringkeys" {
		return fmt.Sprintf("k%d", it.Id)
	}
	return fmt.Sprint(it.Id)
}

func argsText(c Case, first, last *int64, after, before *string) string {
	var parts []string
	if first != nil {
		parts = append(parts, fmt.Sprintf("first: %d", *first))
	}
	if last != nil {
		parts = append(parts, fmt.Sprintf("last: %d", *last))
	}
	if after != nil {
		parts = append(parts, fmt.Sprintf("after: %q", *after))
	}
	if before != nil {
		parts = append(parts, fmt.Sprintf("before: %q", *before))
	}
	if c.Req.MinRank != nil {
		parts = append(parts, fmt.Sprintf("minRank: %d", *c.Req.MinRank))
	}
	if c.Req.FilterText != nil {
		b, _ := json.Marshal(*c.Req.FilterText)
		parts = append(parts, "filterText: "+string(b))
	}
	if c.Req.FilterFields != nil {
		b, _ := json.Marshal(c.Req.FilterFields)
		parts = append(parts, "filterTextFields: "+string(b))
	}
	if c.Req.SortBy != "" {
		parts = append(parts, fmt.Sprintf("sortBy: %q", c.Req.SortBy))
		if c.Req.Desc {
			parts = append(parts, "sortOrder: desc")
		} else if c.N%2 == 0 {
			parts = append(parts, "sortOrder: asc")
		}
	}
	if len(parts) == 0 {
		return ""
	}
	return "(" + strings.Join(parts, ", ") + ")"
}

func fetch(c Case, first, last *int64, after, before *string) (*page, string, error) {
	text := "{ items" + argsText(c, first, last, after, before) + " { totalCount edges { cursor node { id } } pageInfo { hasNextPage hasPrevPage startCursor endCursor } } }"
	q, err := graphql.Parse(text, map[string]interface{}{})
	if err != nil {
		return nil, text, fmt.Errorf("harness: parse: %v", err)
	}
	schema := schemas[c.Impl]
	if err := graphql.PrepareQuery(context.Background(), schema.Query, q.SelectionSet); err != nil {
		return nil, text, fmt.Errorf("prepare: %v", err)
	}
	ctx := context.WithValue(context.Background(), fbKey{}, c.Fallback)
	res, err := graphql.NewExecutor(graphql.NewImmediateGoroutineScheduler()).Execute(ctx, schema.Query, nil, q)
	if err != nil {
		return nil, text, err
	}
	b, _ := json.Marshal(res)
	var out struct {
		Items struct {
			TotalCount int64
			Edges      []struct {
				Cursor string
				Node   struct{ Id interface{} }
			}
			PageInfo struct {
				HasNextPage, HasPrevPage bool
				StartCursor, EndCursor   string
			}
		}
	}
	if err := json.Unmarshal(b, &out); err != nil {
		return nil, text, fmt.Errorf("harness: decode %s: %v", b, err)
	}
	p := &page{Total: out.Items.TotalCount, HasNext: out.Items.PageInfo.HasNextPage, HasPrev: out.Items.PageInfo.HasPrevPage, Start: out.Items.PageInfo.StartCursor, End: out.Items.PageInfo.EndCursor}
	for _, e := range out.Items.Edges {
		p.Keys = append(p.Keys, fmt.Sprint(e.Node.Id))
		p.Cursors = append(p.Cursors, e.Cursor)
	}
	return p, text, nil
}

func checkPageBasics(p *page, ref []Item, text string) error {
	if p.Total != int64(len(ref)) {
		return fmt.Errorf("totalCount %d, filtered list has %d elements (%s)", p.Total, len(ref), text)
	}
	if len(p.Cursors) > 0 {
		if p.Start != p.Cursors[0] || p.End != p.Cursors[len(p.Cursors)-1] {
			return fmt.Errorf("start/end cursor (%q,%q) are not those of the first/last edge (%q,%q) (%s)", p.Start, p.End, p.Cursors[0], p.Cursors[len(p.Cursors)-1], text)
		}
	}
	return nil
}

func check(c Case) (nt bool, labels []string, sig string, err error) {
	cur.mu.Lock()
	cur.items = c.Items
	cur.mu.Unlock()
	ref := refList(c)
	var refKeys []string
	for _, it := range ref {
		refKeys = append(refKeys, keyOf(c, it))
	}
	feat := map[string]bool{}
	if c.Req.FilterText != nil && *c.Req.FilterText != "" && len(ref) > 0 && len(ref) < len(c.Items) {
		feat["filter-partial"] = true
	}
	if c.Req.SortBy != "" {
		seen := map[string]bool{}
		for _, it := range c.Items {
			var k string
			switch c.Req.SortBy {
			case "rank":
				k = fmt.Sprint(it.Rank)
			case "score":
				k = fmt.Sprint(it.Score)
			case "u":
				k = fmt.Sprint(it.U)
			default:
				k = strings.ToLower(it.Label)
			}
			if seen[k] {
				feat["sort-ties"] = true
			}
			seen[k] = true
		}
	}
	switch c.Mode {
	case "forward", "backward":
		var got, cursors []string
		var cursor *string
		pages := 0
		for {
			var p *page
			var text string
			var err error
			n := c.N
			if c.Mode == "forward" {
				p, text, err = fetch(c, &n, nil, cursor, nil)
			} else {
				p, text, err = fetch(c, nil, &n, nil, cursor)
			}
			if err != nil {
				if strings.HasPrefix(err.Error(), "harness:") {
					return false, nil, "harness", err
				}
				return false, nil, "error", fmt.Errorf("valid pagination request failed: %v (%s)", err, text)
			}
			pages++
			if err := checkPageBasics(p, ref, text); err != nil {
				return false, nil, "page-info", err
			}
			if int64(len(p.Keys)) > c.N {
				return false, nil, "page-size", fmt.Errorf("page has %d edges, requested %d (%s)", len(p.Keys), c.N, text)
			}
			if c.Mode == "forward" {
				got = append(got, p.Keys...)
				cursors = append(cursors, p.Cursors...)
				remaining := len(ref) - len(got)
				if p.HasNext != (remaining > 0) {
					return false, nil, "has-next", fmt.Errorf("hasNextPage=%v but %d elements remain after this page (%s)", p.HasNext, remaining, text)
				}
				if !p.HasNext || len(p.Keys) == 0 {
					break
				}
				e := p.End
				cursor = &e
			} else {
				got = append(append([]string{}, p.Keys...), got...)
				cursors = append(append([]string{}, p.Cursors...), cursors...)
				remaining := len(ref) - len(got)
				if p.HasPrev != (remaining > 0) {
					return false, nil, "has-prev", fmt.Errorf("hasPrevPage=%v but %d elements remain before this page (%s)", p.HasPrev, remaining, text)
				}
				if !p.HasPrev || len(p.Keys) == 0 {
					break
				}
				s := p.Start
				cursor = &s
			}
			if pages > len(c.Items)+2 {
				return false, nil, "walk-loops", fmt.Errorf("walk does not terminate after %d pages", pages)
			}
		}
		if strings.Join(got, ",") != strings.Join(refKeys, ",") {
			return false, nil, "walk-mismatch", fmt.Errorf("%s walk with page size %d visited %v, want %v", c.Mode, c.N, got, refKeys)
		}
		seen := map[string]bool{}
		for _, cs := range cursors {
			if seen[cs] {
				return false, nil, "cursor-dup", fmt.Errorf("cursor %q appears twice", cs)
			}
			seen[cs] = true
		}
		if pages >= 3 {
			feat["walk>=3pages"] = true
		}
	case "single":
		// cursors of the full list first (opaque: learn them from thunder)
		all := Case{Items: c.Items, Impl: c.Impl, Fallback: c.Fallback, Req: Req{FilterText: c.Req.FilterText, FilterFields: c.Req.FilterFields, SortBy: c.Req.SortBy, Desc: c.Req.Desc, MinRank: c.Req.MinRank}, N: 1}
		full, text, err := fetch(all, nil, nil, nil, nil)
		if err != nil {
			return false, nil, "error", fmt.Errorf("unpaginated request failed: %v (%s)", err, text)
		}
		if strings.Join(full.Keys, ",") != strings.Join(refKeys, ",") {
			return false, nil, "full-mismatch", fmt.Errorf("unpaginated list is %v, want %v (%s)", full.Keys, refKeys, text)
		}
		cursorOf := map[string]string{}
		for i, k := range full.Keys {
			cursorOf[k] = full.Cursors[i]
		}
		resolve := func(k *string) (*string, int) {
			if k == nil {
				return nil, -2
			}
			if cs, ok := cursorOf[*k]; ok {
				for i, rk := range refKeys {
					if rk == *k {
						return &cs, i
					}
				}
			}
			u := "dW5rbm93bg=="
			feat["unknown-cursor"] = true
			return &u, -1
		}
		after, ai := resolve(c.Req.After)
		before, bi := resolve(c.Req.Before)
		if after != nil && before != nil {
			feat["both-cursors"] = true
		}
		p, text, err := fetch(c, c.Req.First, c.Req.Last, after, before)
		if c.Req.First != nil && c.Req.Last != nil || (c.Req.First != nil && *c.Req.First < 0) || (c.Req.Last != nil && *c.Req.Last < 0) {
			if len(ref) == 0 {
				return false, nil, "", nil // empty list short-circuits before validation
			}
			if err == nil {
				return false, nil, "bad-args-accepted", fmt.Errorf("first+last / negative values accepted (%s)", text)
			}
			feat["client-error"] = true
			break
		}
		if err != nil {
			return false, nil, "error", fmt.Errorf("valid pagination request failed: %v (%s)", err, text)
		}
		if err := checkPageBasics(p, ref, text); err != nil {
			return false, nil, "page-info", err
		}
		// reference slicing
		lo, hi := 0, len(refKeys)
		elemsBefore, elemsAfter := false, false
		if ai >= 0 {
			lo = ai + 1
			elemsBefore = true // the after element itself and everything before it
			if ai == 0 {
				elemsBefore = false
			}
		}
		if bi >= 0 && bi >= lo {
			hi = bi
			elemsAfter = bi != len(refKeys)-1
		} else if bi >= 0 && bi < lo {
			// before names an element that the after cursor already cut away: it is unknown
			// within the remaining list
			bi = -1
		}
		want := append([]string{}, refKeys[lo:hi]...)
		hasNext := before != nil && elemsAfter
		hasPrev := after != nil && elemsBefore
		if c.Req.First != nil && int64(len(want)) > *c.Req.First {
			want = want[:*c.Req.First]
			hasNext = true
		}
		if c.Req.Last != nil && int64(len(want)) > *c.Req.Last {
			want = want[int64(len(want))-*c.Req.Last:]
			hasPrev = true
		}
		if strings.Join(p.Keys, ",") != strings.Join(want, ",") {
			return false, nil, "page-mismatch", fmt.Errorf("page is %v, want %v of %v (%s)", p.Keys, want, refKeys, text)
		}
		if p.HasNext != hasNext {
			return false, nil, "has-next", fmt.Errorf("hasNextPage=%v, want %v: list %v, page %v (%s)", p.HasNext, hasNext, refKeys, p.Keys, text)
		}
		if p.HasPrev != hasPrev {
			return false, nil, "has-prev", fmt.Errorf("hasPrevPage=%v, want %v: list %v, page %v (%s)", p.HasPrev, hasPrev, refKeys, p.Keys, text)
		}
	}
	for k, v := range feat {
		if v {
			labels = append(labels, k)
		}
	}
	labels = append(labels, "impl:"+c.Impl, "mode:"+c.Mode)
	sort.Strings(labels)
	nt = feat["walk>=3pages"] || feat["both-cursors"] || feat["unknown-cursor"] || feat["filter-partial"] || feat["sort-ties"]
	return nt, labels, "", nil
}

var words = []string{"apple", "Apple pie", "banana", "BANANA split", "cherry", "", "a b", "x\"y", "pie"}

func genCase(t *rapid.T) Case {
	c := Case{Impl: rapid.SampledFrom(impls).Draw(t, "impl"), Fallback: rapid.Bool().Draw(t, "fallback")}
	n := rapid.IntRange(0, 25).Draw(t, "nitems")
	ids := rapid.Permutation(seq(40)).Draw(t, "ids")
	for i := 0; i < n; i++ {
		c.Items = append(c.Items, Item{Id: int64(ids[i]), Name: rapid.SampledFrom(words).Draw(t, "name"), Desc: rapid.SampledFrom(words).Draw(t, "desc"),
			Rank:  rapid.SampledFrom([]int64{-2, -1, 0, 1, 2, 3, 0, 1, math.MinInt64, math.MaxInt64, math.MinInt64 + 1, 1 << 62}).Draw(t, "rank"),
			Score: rapid.SampledFrom([]float64{-1, -0.5, 0, 0.5, 1, 1.5, 0, 1, -1.7e308, 1.7e308, 5e-324}).Draw(t, "score"), U: rapid.SampledFrom([]uint8{0, 1, 2, 3, 1, 255}).Draw(t, "u"),
			Label: rapid.SampledFrom([]string{"a", "A", "b", "B", "ab", "", "Z"}).Draw(t, "label")})
	}
	if rapid.IntRange(0, 2).Draw(t, "hasfilter") == 0 {
		ft := rapid.SampledFrom([]string{"", "apple", "APPLE", "pie banana", "\"apple pie\"", "\"\"", "zzz", "a", "\"a b\" cherry", "x\"y", " ", "  ", "\t"}).Draw(t, "filtertext")
		c.Req.FilterText = &ft
		switch rapid.IntRange(0, 3).Draw(t, "filterfields") {
		case 1:
			c.Req.FilterFields = []string{"name"}
		case 2:
			c.Req.FilterFields = []string{"desc"}
		case 3:
			c.Req.FilterFields = []string{"name", "desc"}
		}
	}
	if rapid.IntRange(0, 1).Draw(t, "hassort") == 0 {
		c.Req.SortBy = rapid.SampledFrom([]string{"rank", "score", "u", "label"}).Draw(t, "sortby")
	}
	if rapid.IntRange(0, 3).Draw(t, "hasminrank") == 0 {
		mr := int64(rapid.IntRange(-2, 4).Draw(t, "minrank"))
		c.Req.MinRank = &mr
		c.Req.Desc = rapid.Bool().Draw(t, "desc")
	}
	c.Mode = rapid.SampledFrom([]string{"forward", "backward", "single", "single"}).Draw(t, "mode")
	c.N = int64(rapid.IntRange(1, 8).Draw(t, "pagesize"))
	if c.Mode == "single" {
		key := func(label string) *string {
			switch rapid.IntRange(0, 3).Draw(t, label) {
			case 0:
				return nil
			case 1:
				s := "?"
				return &s
			}
			if len(c.Items) == 0 {
				return nil
			}
			s := keyOf(c, c.Items[rapid.IntRange(0, len(c.Items)-1).Draw(t, label+"idx")])
			return &s
		}
		c.Req.After, c.Req.Before = key("after"), key("before")
		switch rapid.IntRange(0, 5).Draw(t, "limits") {
		case 0:
		case 1, 2:
			v := int64(rapid.IntRange(0, 6).Draw(t, "first"))
			c.Req.First = &v
		case 3, 4:
			v := int64(rapid.IntRange(0, 6).Draw(t, "last"))
			c.Req.Last = &v
		default:
			a, b := int64(rapid.IntRange(-2, 3).Draw(t, "f")), int64(rapid.IntRange(-2, 3).Draw(t, "l"))
			c.Req.First, c.Req.Last = &a, &b
		}
	}
	return c
}

func seq(n int) []int {
	s := make([]int, n)
	for i := range s {
		s[i] = i
	}
	return s
}

func run(t interface{ Fatalf(string, ...interface{}) }, test string, c Case) {
	nt, labels, sig, err := check(c)
	if err != nil {
		p := rec.Violate(test, c, sig+": "+err.Error())
		t.Fatalf("%s: %v (replay %s)", sig, err, p)
	}
	b, _ := json.Marshal(c)
	rec.Case(string(b), nt, labels...)
	if nt {
		rec.Sample(strings.Join(labels, "+"), c)
	}
}

func propPagination(t *rapid.T) { run(t, "TestPagination", genCase(t)) }

// FuzzPagination: the same property driven by the coverage-guided engine (thorough tier).
func FuzzPagination(f *testing.F) { f.Fuzz(rapid.MakeFuzz(propPagination)) }

func TestPagination(t *testing.T) {
	rapid.Check(t, propPagination)
}

func TestReplay(t *testing.T) {
	p := os.Getenv("VERIF_REPLAY")
	if p == "" {
		t.Skip("no VERIF_REPLAY")
	}
	var c Case
	if _, err := ev.LoadReplay(p, &c); err != nil {
		t.Fatalf("harness: cannot load replay: %v", err)
	}
	run(t, "TestReplay", c)
}
