package c12

import (
	"context"
	"database/sql/driver"
	"fmt"
	"os"
	"reflect"
	"sort"
	"strings"
	"sync"
	"testing"
	"time"

	"github.com/samsarahq/thunder/batch"
	"github.com/samsarahq/thunder/sqlgen"
	"pgregory.net/rapid"

	"verifharness/ev"
	"verifharness/fakesql"
	sw "verifharness/sqlworld"
)

var rec = ev.New("C12",
	"histories of 4-14 calls (Query, QueryRow, Count, InsertRow, InsertRows, UpsertRow, UpsertRows, UpdateRow, DeleteRow; with/without batching; FullScanQuery; inside/outside WithTx / WithExistingTx; one *SelectOptions value shared between calls; calls through the unrestricted parent handle in between; complying, missing limit column, wrong value, same value in another Go type, extra raw OR clauses) on a handle restricted with WithShardLimit over 1-2 columns and/or WithDynamicLimit with drawn callbacks; oracle = predicate over the statement log of the model database; non-trivial = the history has an accepted and a rejected call and a batched SELECT serving >=2 filters; distinct = hash of the history description",
	"BEGIN/COMMIT/ROLLBACK are not 'touching the database'", "a rejection of a same-value-different-type filter is conservative and allowed",
	"a dynamic limit binds only when its ShouldContinueOnError callback returns false")

func TestMain(m *testing.M) { code := m.Run(); rec.Flush(); os.Exit(code) }

var schema = sw.NewSchema()

type limitSpec struct {
	cols  []string
	vals  []interface{}
	descr string
}

func (l limitSpec) filter() sqlgen.Filter {
	f := sqlgen.Filter{}
	for i, c := range l.cols {
		f[c] = l.vals[i]
	}
	return f
}

type op struct {
	kind    string
	filter  sqlgen.Filter
	options *sqlgen.SelectOptions
	rows    []interface{}
	chunk   int
	batched bool
	inTx    bool
	descr   string
	group   int // ops with the same non-zero group run concurrently under one batching context
	// viaBase: the call goes through the unrestricted handle the limited one was derived from
	// (another part of the program that is allowed to see everything); its statements are not
	// judged. shareOpts: the call is handed the very *SelectOptions value the previous call
	// with options used (a package-level options variable), not a copy. fullScan: Query is
	// spelled FullScanQuery. existingTx: the transaction is begun on the connection and
	// attached with WithExistingTx.
	viaBase    bool
	shareOpts  bool
	fullScan   bool
	existingTx bool
}

type world struct {
	table        string
	shard        limitSpec  // may be empty
	dyn          *limitSpec // dynamic limit filter (nil = none or callback returns nil)
	dynNilFilter bool
	dynContinue  bool
	// dynPerTable: the dynamic limit only restricts this world's table (its callback answers
	// nil for every other table); "OtherQuery" calls then read another table through the same
	// handle and context in between
	dynPerTable bool
	seed        []interface{}
	ops         []op
}

func shardValue(table string, n int, variant int) interface{} {
	switch table {
	case "row_c":
		return fmt.Sprintf("s%d", n)
	case "row_b":
		switch variant {
		case 1:
			return int64(n)
		case 2:
			return int(n)
		}
		return int32(n)
	}
	if shardBase != 0 {
		// neighbouring shard ids beyond 2^53 (not told apart by a float64)
		if variant != 0 {
			return int(shardBase) + n
		}
		return shardBase + int64(n)
	}
	switch variant {
	case 1:
		return int32(n)
	case 2:
		return int(n)
	}
	return int64(n)
}

// shardBase is added to row_a's shard ids while a world is generated (0 = small ids)
var shardBase int64

var secondCol = map[string]string{"row_a": "i8", "row_b": "p_i32", "row_c": "i_n_s"}

func setField(row interface{}, col string, v interface{}) {
	tbl := schema.ByType[reflect.TypeOf(row).Elem()]
	f := reflect.ValueOf(row).Elem().FieldByIndex(tbl.ColumnsByName[col].Index)
	rv := reflect.ValueOf(v)
	if f.Kind() == reflect.Ptr {
		p := reflect.New(f.Type().Elem())
		p.Elem().Set(rv.Convert(f.Type().Elem()))
		f.Set(p)
		return
	}
	f.Set(rv.Convert(f.Type()))
}

func gen(t *rapid.T) world {
	w := world{table: rapid.SampledFrom(sw.Tables).Draw(t, "table")}
	shardBase = 0
	if w.table == "row_a" && rapid.IntRange(0, 2).Draw(t, "bigshard") == 0 {
		shardBase = 1<<53 - 1
	}
	defer func() { shardBase = 0 }()
	limVal := rapid.IntRange(1, 2).Draw(t, "limval")
	mk := func(two bool) limitSpec {
		l := limitSpec{cols: []string{"shard"}, vals: []interface{}{shardValue(w.table, limVal, 0)}}
		if two {
			switch w.table {
			case "row_a":
				l.cols, l.vals = append(l.cols, "i8"), append(l.vals, int8(1))
			case "row_b":
				l.cols, l.vals = append(l.cols, "p_i32"), append(l.vals, int32(1))
			default:
				l.cols, l.vals = append(l.cols, "i_n_s"), append(l.vals, "a")
			}
		}
		l.descr = fmt.Sprintf("%v=%v", l.cols, l.vals)
		return l
	}
	mode := rapid.SampledFrom([]string{"shard", "shard", "dynamic", "both"}).Draw(t, "limitmode")
	if mode == "shard" || mode == "both" {
		w.shard = mk(rapid.IntRange(0, 3).Draw(t, "twocols") == 0)
	}
	if mode == "dynamic" || mode == "both" {
		d := mk(mode == "dynamic" && rapid.IntRange(0, 3).Draw(t, "twocols") == 0)
		if mode == "both" && len(w.shard.cols) == 1 && rapid.Bool().Draw(t, "dynothercol") {
			// the two limits restrict different columns: a row can satisfy one and not the other
			two := mk(true)
			d = limitSpec{cols: two.cols[1:], vals: two.vals[1:]}
			d.descr = fmt.Sprintf("%v=%v", d.cols, d.vals)
		}
		w.dyn = &d
		w.dynNilFilter = rapid.IntRange(0, 5).Draw(t, "dynnil") == 0
		w.dynContinue = rapid.IntRange(0, 3).Draw(t, "dyncontinue") == 0
	}
	// seed rows in both shards
	for i := 0; i < rapid.IntRange(2, 8).Draw(t, "nseed"); i++ {
		r := sw.GenRow(t, w.table, i+1)
		w.seed = append(w.seed, r)
	}
	nops := rapid.IntRange(4, 14).Draw(t, "nops")
	nextID := 100
	group := 0
	w.dynPerTable = w.dyn != nil && len(w.shard.cols) == 0 && rapid.Bool().Draw(t, "dynpertable")
	for i := 0; i < nops; i++ {
		if w.dynPerTable && rapid.IntRange(0, 3).Draw(t, "otherquery") == 0 {
			w.ops = append(w.ops, op{kind: "OtherQuery", descr: "Query{} on another table (no limit applies there)"})
		}
		o := op{kind: rapid.SampledFrom([]string{"Query", "Query", "QueryRow", "Count", "InsertRow", "InsertRows", "UpsertRow", "UpsertRows", "UpdateRow", "DeleteRow"}).Draw(t, "kind")}
		if w.table == "row_a" && (o.kind == "UpsertRow" || o.kind == "UpsertRows") {
			o.kind = "InsertRow"
		}
		o.inTx = rapid.IntRange(0, 3).Draw(t, "intx") == 0
		o.existingTx = o.inTx && rapid.Bool().Draw(t, "existingtx")
		comply := rapid.SampledFrom([]string{"ok", "ok", "ok", "missing", "wrong", "othertype"}).Draw(t, "comply")
		genSelect := func(o *op) {
			comply := rapid.SampledFrom([]string{"ok", "ok", "ok", "missing", "wrong", "othertype"}).Draw(t, "comply")
			o.filter = sqlgen.Filter{}
			switch comply {
			case "missing":
			case "wrong":
				o.filter["shard"] = shardValue(w.table, 3-limVal, 0)
			case "othertype":
				o.filter["shard"] = shardValue(w.table, limVal, rapid.IntRange(1, 2).Draw(t, "othertype"))
			default:
				o.filter["shard"] = shardValue(w.table, limVal, 0)
			}
			if rapid.Bool().Draw(t, "second") {
				switch w.table {
				case "row_a":
					o.filter["i8"] = int8(rapid.IntRange(0, 1).Draw(t, "i8"))
				case "row_b":
					o.filter["p_i32"] = int32(rapid.IntRange(0, 1).Draw(t, "pi32"))
				default:
					o.filter["i_n_s"] = rapid.SampledFrom([]string{"a", "b"}).Draw(t, "ins")
				}
			}
			if rapid.IntRange(0, 2).Draw(t, "idfilter") == 0 {
				if w.table == "row_c" {
					o.filter["key"] = fmt.Sprintf("k%d", rapid.IntRange(1, 8).Draw(t, "key"))
				} else {
					o.filter["id"] = int64(rapid.IntRange(1, 8).Draw(t, "id"))
				}
			}
		}
		switch o.kind {
		case "Query", "QueryRow", "Count":
			genSelect(&o)
			if o.kind != "Count" {
				switch rapid.IntRange(0, 5).Draw(t, "options") {
				case 0:
					idc := map[string]string{"row_a": "id", "row_b": "id", "row_c": "key"}[w.table]
					// a top-level OR in the caller's own clause, spelled the ways SQL allows
					form := rapid.SampledFrom([]string{"%s = ? OR %s = ?", "%s = ? or %s = ?", "%s = ?\nOR %s = ?", "%s = ? OR(%s = ?)", "%s = ?\tOr\t%s = ?"}).Draw(t, "orform")
					o.options = &sqlgen.SelectOptions{Where: fmt.Sprintf(form, idc, idc)}
					if w.table == "row_c" {
						o.options.Values = []interface{}{"k1", "k2"}
					} else {
						o.options.Values = []interface{}{int64(1), int64(2)}
					}
				case 1:
					o.options = &sqlgen.SelectOptions{OrderBy: map[string]string{"row_a": "id", "row_b": "id", "row_c": "key"}[w.table], Limit: 3}
				}
				if o.kind == "Query" {
					o.fullScan = rapid.IntRange(0, 4).Draw(t, "fullscan") == 0
				}
				if o.options != nil {
					o.shareOpts = rapid.IntRange(0, 2).Draw(t, "shareopts") == 0
					o.viaBase = rapid.IntRange(0, 3).Draw(t, "viabase") == 0
				}
				o.batched = o.options == nil && rapid.IntRange(0, 2).Draw(t, "batched") > 0
				if o.batched && !o.inTx {
					extra := rapid.IntRange(0, 3).Draw(t, "groupextra")
					big := rapid.IntRange(0, 7).Draw(t, "biggroup") == 0
					if big {
						// a large batch: 17-24 calls whose filters name the shard and a different id each
						extra = rapid.IntRange(16, 23).Draw(t, "bigextra")
					}
					if extra > 0 {
						group++
						o.group = group
						o.descr = describeOp(o)
						w.ops = append(w.ops, o)
						for k := 0; k < extra; k++ {
							o2 := op{kind: rapid.SampledFrom([]string{"Query", "QueryRow"}).Draw(t, "gkind"), batched: true, group: group}
							genSelect(&o2)
							if big {
								// one shape for the whole batch: the limit columns and an id
								o2.filter = sqlgen.Filter{}
								for c, v := range w.shard.filter() {
									o2.filter[c] = v
								}
								if w.dyn != nil {
									for c, v := range w.dyn.filter() {
										o2.filter[c] = v
									}
								}
								if w.table == "row_c" {
									o2.filter["key"] = fmt.Sprintf("k%d", 10+k)
								} else {
									o2.filter["id"] = int64(10 + k)
								}
							}
							o2.descr = describeOp(o2)
							if k < extra-1 {
								w.ops = append(w.ops, o2)
							} else {
								o = o2
							}
						}
					}
				}
			}
		default:
			n := 1
			if o.kind == "InsertRows" || o.kind == "UpsertRows" {
				n = rapid.IntRange(1, 4).Draw(t, "nrows")
				o.chunk = rapid.IntRange(1, 3).Draw(t, "chunk")
			}
			for k := 0; k < n; k++ {
				id := nextID
				nextID++
				if o.kind == "UpdateRow" || o.kind == "DeleteRow" || ((o.kind == "UpsertRow" || o.kind == "UpsertRows") && rapid.Bool().Draw(t, "existing")) {
					id = rapid.IntRange(1, len(w.seed)).Draw(t, "existingid")
				}
				r := sw.GenRow(t, w.table, id)
				rowComply := comply
				if n > 1 && rapid.IntRange(0, 2).Draw(t, "rowok") > 0 {
					rowComply = "ok" // only some rows of a multi-row call violate (any position)
				}
				if rowComply == "ok" && w.dyn != nil && w.dyn.cols[0] != "shard" && rapid.IntRange(0, 3).Draw(t, "dynwrong") == 0 {
					rowComply = "dynwrong"
				}
				switch rowComply {
				case "wrong", "missing":
					setField(r, "shard", shardValue(w.table, 3-limVal, 0))
				case "dynwrong":
					// satisfies the shard limit, violates the dynamic limit's column
					setField(r, "shard", shardValue(w.table, limVal, 0))
					switch w.dyn.cols[0] {
					case "i8":
						setField(r, "i8", int8(0))
					case "p_i32":
						setField(r, "p_i32", int32(0))
					default:
						setField(r, "i_n_s", "b")
					}
				default:
					setField(r, "shard", shardValue(w.table, limVal, 0))
					for ci, c := range append(append([]string{}, w.shard.cols...), func() []string {
						if w.dyn != nil {
							return w.dyn.cols
						}
						return nil
					}()...) {
						_ = ci
						if c != "shard" {
							// second limit column: comply
							var lv interface{}
							for j, cc := range w.shard.cols {
								if cc == c {
									lv = w.shard.vals[j]
								}
							}
							if lv == nil && w.dyn != nil {
								for j, cc := range w.dyn.cols {
									if cc == c {
										lv = w.dyn.vals[j]
									}
								}
							}
							if lv != nil {
								setField(r, c, lv)
							}
						}
					}
				}
				o.rows = append(o.rows, r)
			}
		}
		o.descr = describeOp(o)
		w.ops = append(w.ops, o)
	}
	return w
}

func describeOp(o op) string {
	var parts []string
	for k, v := range o.filter {
		parts = append(parts, fmt.Sprintf("%s=%T(%v)", k, v, v))
	}
	sort.Strings(parts)
	s := o.kind
	if o.filter != nil {
		s += "{" + strings.Join(parts, ",") + "}"
	}
	if o.options != nil {
		s += fmt.Sprintf(" opts{where=%q orderby=%q limit=%d}", o.options.Where, o.options.OrderBy, o.options.Limit)
	}
	for _, r := range o.rows {
		s += " " + sw.Describe(r)
	}
	if o.chunk > 0 {
		s += fmt.Sprintf(" chunk=%d", o.chunk)
	}
	if o.batched {
		s += fmt.Sprintf(" batched(group %d)", o.group)
	}
	if o.inTx {
		s += " tx"
		if o.existingTx {
			s += "(existing)"
		}
	}
	if o.fullScan {
		s = "FullScan" + s
	}
	if o.shareOpts {
		s += " shared-options"
	}
	if o.viaBase {
		s += " via-unrestricted-handle"
	}
	return s
}

// confined reports whether a logged statement is confined to the limit.
func confined(eng *fakesql.Engine, le fakesql.LogEntry, lim limitSpec) (bool, string) {
	st := le.Stmt
	def := eng.Def(st.Table)
	colOf := func(name string) fakesql.Col {
		for _, c := range def.Cols {
			if c.Name == name {
				return c
			}
		}
		return fakesql.Col{}
	}
	eq := func(col string, arg driver.Value, want interface{}) bool {
		wv, err := driver.DefaultParameterConverter.ConvertValue(want)
		if err != nil {
			return false
		}
		a, err1 := fakesql.Canon(colOf(col), arg)
		b, err2 := fakesql.Canon(colOf(col), wv)
		return err1 == nil && err2 == nil && a != nil && fakesql.ValEqual(a, b)
	}
	whereCarries := func(col string, want interface{}) bool {
		for _, conj := range fakesql.DNF(st.Where) {
			ok := false
			for _, atom := range conj {
				if atom.Col != col {
					continue
				}
				switch atom.Op {
				case "eq":
					ok = ok || eq(col, le.Args[atom.Param[0]], want)
				case "in":
					all := true
					for _, p := range atom.Param {
						all = all && eq(col, le.Args[p], want)
					}
					ok = ok || all
				}
			}
			if !ok {
				return false
			}
		}
		return true
	}
	for i, col := range lim.cols {
		want := lim.vals[i]
		switch st.Kind {
		case "select", "count", "delete":
			if !whereCarries(col, want) {
				return false, fmt.Sprintf("WHERE does not confine %s to %v in every disjunct", col, want)
			}
		case "insert":
			ci := -1
			for k, c := range st.Cols {
				if c == col {
					ci = k
				}
			}
			if ci < 0 {
				return false, fmt.Sprintf("INSERT does not carry column %s", col)
			}
			for r := 0; r < st.NRows; r++ {
				if !eq(col, le.Args[r*len(st.Cols)+ci], want) {
					return false, fmt.Sprintf("INSERT row %d has %s = %v, limit %v", r, col, le.Args[r*len(st.Cols)+ci], want)
				}
			}
		case "update":
			ok := false
			for k, c := range st.Cols {
				if c == col && eq(col, le.Args[k], want) {
					ok = true
				}
			}
			if !ok && !whereCarries(col, want) {
				return false, fmt.Sprintf("UPDATE carries %s = %v neither in SET nor in WHERE", col, want)
			}
		}
	}
	return true, ""
}

func isLimitErr(err error) bool {
	return err != nil && (strings.Contains(err.Error(), "check failed for db with"))
}

func check(w world) (nt bool, labels []string, sig string, err error) {
	eng := fakesql.NewFromSchema(schema)
	conn := eng.Open()
	defer conn.Close()
	base := sqlgen.NewDB(conn, schema)
	ctx := context.Background()
	for _, r := range w.seed {
		var e error
		if w.table == "row_a" {
			_, e = base.InsertRow(ctx, r)
		} else {
			_, e = base.UpsertRow(ctx, r)
		}
		if e != nil {
			return false, nil, "harness-seed", fmt.Errorf("harness: seeding: %v", e)
		}
	}
	db := base
	var binding []limitSpec
	if len(w.shard.cols) > 0 {
		db, err = db.WithShardLimit(w.shard.filter())
		if err != nil {
			return false, nil, "harness", fmt.Errorf("harness: %v", err)
		}
		binding = append(binding, w.shard)
	}
	if w.dyn != nil {
		dl := sqlgen.DynamicLimit{
			GetLimitFilter: func(ctx context.Context, table string) sqlgen.Filter {
				if w.dynNilFilter || (w.dynPerTable && table != w.table) {
					return nil
				}
				return w.dyn.filter()
			},
			ShouldContinueOnError: func(err error, table string) bool { return w.dynContinue },
		}
		db, err = db.WithDynamicLimit(dl)
		if err != nil {
			return false, nil, "harness", fmt.Errorf("harness: %v", err)
		}
		if !w.dynNilFilter && !w.dynContinue {
			binding = append(binding, *w.dyn)
		}
	}
	accepted, rejected, batchedMulti := 0, 0, false
	var lastOpts *sqlgen.SelectOptions

	runOne := func(o op, bctx context.Context) (err error) {
		defer func() {
			if r := recover(); r != nil {
				err = fmt.Errorf("PANIC: %v", r)
			}
		}()
		c := ctx
		if bctx != nil {
			c = bctx
		} else if o.batched {
			c = batch.WithBatching(ctx)
		}
		commit := func() error { return nil }
		if o.inTx && o.existingTx {
			tx, e := conn.BeginTx(c, nil)
			if e != nil {
				return fmt.Errorf("harness: BeginTx: %v", e)
			}
			c2, e := db.WithExistingTx(c, tx)
			if e != nil {
				return fmt.Errorf("harness: WithExistingTx: %v", e)
			}
			c = c2
			commit = tx.Commit
			defer tx.Rollback()
		} else if o.inTx {
			c2, tx, e := db.WithTx(c)
			if e != nil {
				return fmt.Errorf("harness: WithTx: %v", e)
			}
			c = c2
			commit = tx.Commit
			defer tx.Rollback()
		}
		typ := sw.Types[w.table]
		var opts *sqlgen.SelectOptions
		if o.options != nil {
			if o.shareOpts && lastOpts != nil {
				opts = lastOpts
			} else {
				cp := *o.options
				cp.Values = append([]interface{}(nil), o.options.Values...)
				opts = &cp
			}
			lastOpts = opts
		}
		db := db
		if o.viaBase {
			db = base
		}
		switch o.kind {
		case "Query":
			res := reflect.New(reflect.SliceOf(reflect.PtrTo(typ)))
			if o.fullScan {
				err = db.FullScanQuery(c, res.Interface(), o.filter, opts)
			} else {
				err = db.Query(c, res.Interface(), o.filter, opts)
			}
		case "QueryRow":
			res := reflect.New(reflect.PtrTo(typ))
			err = db.QueryRow(c, res.Interface(), o.filter, opts)
			if err != nil && !isLimitErr(err) {
				err = nil // no rows / more than one
			}
		case "OtherQuery":
			other := sw.Tables[0]
			if other == w.table {
				other = sw.Tables[1]
			}
			res := reflect.New(reflect.SliceOf(reflect.PtrTo(sw.Types[other])))
			// (whether this read is let through is not what the property is about)
			db.Query(c, res.Interface(), sqlgen.Filter{}, nil)
			return nil
		case "Count":
			_, err = db.Count(c, reflect.New(typ).Interface(), o.filter)
		case "InsertRow":
			_, err = db.InsertRow(c, o.rows[0])
		case "UpsertRow":
			_, err = db.UpsertRow(c, o.rows[0])
		case "InsertRows", "UpsertRows":
			sl := reflect.MakeSlice(reflect.SliceOf(reflect.PtrTo(typ)), 0, len(o.rows))
			for _, r := range o.rows {
				sl = reflect.Append(sl, reflect.ValueOf(r))
			}
			if o.kind == "InsertRows" {
				err = db.InsertRows(c, sl.Interface(), o.chunk)
			} else {
				err = db.UpsertRows(c, sl.Interface(), o.chunk)
			}
		case "UpdateRow":
			err = db.UpdateRow(c, o.rows[0])
		case "DeleteRow":
			err = db.DeleteRow(c, o.rows[0])
		}
		if err == nil {
			if e := commit(); e != nil {
				return fmt.Errorf("harness: commit: %v", e)
			}
		}
		return err
	}

	verify := func(from int, descr string, errs []error, ownTxOps bool, before map[string][]fakesql.Row) (string, error) {
		stmts := eng.Statements()[from:]
		real := 0
		for _, le := range stmts {
			if le.Stmt == nil {
				continue // BEGIN/COMMIT/ROLLBACK
			}
			real++
			if le.Stmt.Table != w.table {
				continue // another table: the limits of this world do not apply to it
			}
			for _, lim := range binding {
				if ok, why := confined(eng, le, lim); !ok {
					return "unconfined", fmt.Errorf("statement reached the database outside the limit %s: %s\n  %s args %v\n  during: %s", lim.descr, why, le.SQL, le.Args, descr)
				}
			}
		}
		return "", nil
	}

	i := 0
	for i < len(w.ops) {
		o := w.ops[i]
		from := len(eng.Statements())
		// group of concurrently batched selects
		if o.group != 0 {
			j := i
			for j < len(w.ops) && w.ops[j].group == o.group {
				j++
			}
			grp := w.ops[i:j]
			bctx := batch.WithBatching(ctx)
			errs := make([]error, len(grp))
			var wg sync.WaitGroup
			for k := range grp {
				k := k
				wg.Add(1)
				go func() { defer wg.Done(); errs[k] = runOne(grp[k], bctx) }()
			}
			done := make(chan struct{})
			go func() { wg.Wait(); close(done) }()
			select {
			case <-done:
			case <-time.After(20 * time.Second):
				return false, nil, "hang", fmt.Errorf("batched group did not return")
			}
			var ds []string
			okCalls := 0
			for k, g := range grp {
				ds = append(ds, g.descr)
				if errs[k] != nil && strings.HasPrefix(errs[k].Error(), "PANIC") {
					return false, nil, "panic", fmt.Errorf("%s: %v", g.descr, errs[k])
				}
				if errs[k] == nil {
					accepted++
					okCalls++
				} else if isLimitErr(errs[k]) {
					rejected++
				}
			}
			sel := 0
			for _, le := range eng.Statements()[from:] {
				if le.Stmt != nil && le.Stmt.Kind == "select" {
					sel++
				}
			}
			if okCalls >= 2 && sel < okCalls {
				batchedMulti = true
			}
			if sig, err := verify(from, strings.Join(ds, " || "), errs, false, nil); err != nil {
				return false, nil, sig, err
			}
			i = j
			continue
		}
		if o.viaBase {
			if e := runOne(o, nil); e != nil && (strings.HasPrefix(e.Error(), "PANIC") || strings.HasPrefix(e.Error(), "harness:")) {
				return false, nil, "harness", fmt.Errorf("harness: call through the unrestricted handle: %v", e)
			}
			i++
			continue
		}
		beforeRows := eng.Rows(w.table)
		e := runOne(o, nil)
		if e != nil && strings.HasPrefix(e.Error(), "PANIC") {
			return false, nil, "panic", fmt.Errorf("%s on handle limited to %s%s: %v", o.descr, w.shard.descr, dynDescr(w), e)
		}
		if e != nil && strings.HasPrefix(e.Error(), "harness:") {
			return false, nil, "harness", e
		}
		if sig, err := verify(from, o.descr, []error{e}, false, nil); err != nil {
			return false, nil, sig, err
		}
		if isLimitErr(e) {
			rejected++
			real := 0
			for _, le := range eng.Statements()[from:] {
				if le.Stmt != nil {
					real++
				}
			}
			single := o.kind != "InsertRows" && o.kind != "UpsertRows"
			if single && real > 0 {
				return false, nil, "touched-db", fmt.Errorf("%s was rejected (%v) but %d statements reached the database", o.descr, e, real)
			}
			if !o.inTx {
				after := eng.Rows(w.table)
				if fmt.Sprint(after) != fmt.Sprint(beforeRows) {
					return false, nil, "visible-after-reject", fmt.Errorf("%s was rejected (%v) but changed the table", o.descr, e)
				}
			}
		} else if e == nil {
			accepted++
		}
		i++
	}
	if hs := eng.HarnessErrs(); len(hs) > 0 {
		return false, nil, "harness", fmt.Errorf("harness: %v", hs[0])
	}
	nt = accepted > 0 && rejected > 0 && batchedMulti
	for k, v := range map[string]bool{"accepted": accepted > 0, "rejected": rejected > 0, "batched-multi": batchedMulti, "dynamic": w.dyn != nil, "shard": len(w.shard.cols) > 0, "two-col-limit": len(w.shard.cols) > 1, "table:" + w.table: true} {
		if v {
			labels = append(labels, k)
		}
	}
	sort.Strings(labels)
	return nt, labels, "", nil
}

func dynDescr(w world) string {
	if w.dyn == nil {
		return ""
	}
	return fmt.Sprintf(" dynamic{%s nil=%v continue=%v}", w.dyn.descr, w.dynNilFilter, w.dynContinue)
}

func TestShardLimit(t *testing.T) { rapid.Check(t, propShardLimit) }

// FuzzShardLimit: the same property driven by the coverage-guided engine (thorough tier).
func FuzzShardLimit(f *testing.F) { f.Fuzz(rapid.MakeFuzz(propShardLimit)) }

func propShardLimit(t *rapid.T) {
	{
		w := gen(t)
		nt, labels, sig, err := check(w)
		var ops []string
		for _, o := range w.ops {
			ops = append(ops, o.descr)
		}
		cs := map[string]interface{}{"table": w.table, "shard_limit": w.shard.descr, "dynamic_limit": dynDescr(w), "ops": ops}
		if err != nil {
			p := rec.Violate("TestShardLimit", cs, sig+": "+err.Error())
			t.Fatalf("%s: %v (replay %s)", sig, err, p)
		}
		rec.Case(fmt.Sprint(cs), nt, labels...)
		if nt {
			rec.Sample(strings.Join(labels, "+"), cs)
		}
	}
}

func TestReplay(t *testing.T) {
	if os.Getenv("VERIF_REPLAY") == "" {
		t.Skip("no VERIF_REPLAY")
	}
	t.Skip("C12 replays are re-run by seed (rows and filters hold typed Go values); the replay file lists the history")
}
