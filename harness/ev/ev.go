// Package ev collects per-run coverage counters for a property check and writes
// them, together with violations and replay files, where run.py picks them up.
package ev

import (
	"bufio"
	"encoding/json"
	"fmt"
	"hash/fnv"
	"os"
	"path/filepath"
	"sort"
	"strconv"
	"strings"
	"sync"
	"sync/atomic"
	"time"
)

// Finding is one line of /verif/known_findings.jsonl.
type Finding struct {
	Property    string `json:"property"`
	Status      string `json:"status"` // "known" or "fixed"
	Signature   string `json:"signature"`
	Description string `json:"description"`
	Commit      string `json:"commit,omitempty"`
}

type Recorder struct {
	mu          sync.Mutex
	ID          string
	Rule        string
	Assumptions []string
	evals       int
	nontrivial  int
	distinct    map[uint64]struct{}
	classes     map[string]int
	samples     []json.RawMessage
	maxSamples  int
	excluded    map[string]int
	knownSeen   map[string]string
	violations  []Violation
	extra       map[string]interface{}
}

type Violation struct {
	Property string `json:"property"`
	Test     string `json:"test"`
	Replay   string `json:"replay"`
	Message  string `json:"message"`
}

func New(id, rule string, assumptions ...string) *Recorder {
	return &Recorder{ID: id, Rule: rule, Assumptions: assumptions, distinct: map[uint64]struct{}{},
		classes: map[string]int{}, maxSamples: 5, excluded: map[string]int{}, knownSeen: map[string]string{},
		extra: map[string]interface{}{}}
}

func hash(s string) uint64 { h := fnv.New64a(); h.Write([]byte(s)); return h.Sum64() }

// Case records one evaluated case. canon is a canonical rendering of the case used to
// count distinct non-trivial cases; classes are labels for the distribution histogram.
func (r *Recorder) Case(canon string, nontrivial bool, classes ...string) {
	r.mu.Lock()
	defer r.mu.Unlock()
	r.evals++
	for _, c := range classes {
		r.classes[c]++
	}
	if nontrivial {
		r.nontrivial++
		r.distinct[hash(canon)] = struct{}{}
	}
}

// Count adds to a class counter without counting a case.
func (r *Recorder) Count(class string, n int) {
	r.mu.Lock()
	r.classes[class] += n
	r.mu.Unlock()
}

// Sample keeps up to maxSamples written-out cases (first come first kept, at most
// one per label so that the samples show different shapes).
func (r *Recorder) Sample(label string, v interface{}) {
	r.mu.Lock()
	defer r.mu.Unlock()
	if len(r.samples) >= r.maxSamples {
		return
	}
	for _, s := range r.samples {
		if strings.HasPrefix(string(s), `{"label":`+strconv.Quote(label)+",") {
			return
		}
	}
	b, err := json.Marshal(map[string]interface{}{"label": label, "case": v})
	if err != nil {
		b, _ = json.Marshal(map[string]interface{}{"label": label, "case": fmt.Sprintf("%+v", v)})
	}
	// json.Marshal of a map sorts keys: "case" comes before "label"; rebuild by hand.
	cb, err := json.Marshal(v)
	if err != nil {
		cb, _ = json.Marshal(fmt.Sprintf("%+v", v))
	}
	if len(cb) > 6000 {
		cb, _ = json.Marshal(string(cb[:6000]) + "…(truncated)")
	}
	b = []byte(`{"label":` + strconv.Quote(label) + `,"case":` + string(cb) + `}`)
	r.samples = append(r.samples, b)
}

func (r *Recorder) Excluded(sig string) {
	r.mu.Lock()
	r.excluded[sig]++
	r.mu.Unlock()
}

func (r *Recorder) Extra(k string, v interface{}) {
	r.mu.Lock()
	r.extra[k] = v
	r.mu.Unlock()
}

// KnownSeen notes that a pinned regression input for a listed finding still fails.
func (r *Recorder) KnownSeen(sig, what string) {
	r.mu.Lock()
	r.knownSeen[sig] = what
	r.mu.Unlock()
}

func outDir() string {
	d := os.Getenv("VERIF_OUT")
	if d == "" {
		d = filepath.Join(os.TempDir(), "verif-out")
	}
	os.MkdirAll(d, 0o755)
	return d
}

func replayDir(id string) string {
	d := os.Getenv("VERIF_REPLAY_DIR")
	if d == "" {
		d = filepath.Join(outDir(), "replays")
	}
	d = filepath.Join(d, id)
	os.MkdirAll(d, 0o755)
	return d
}

// Violate writes the failing case as a replay file (overwriting earlier, larger versions
// written while rapid was shrinking the same test) and records the violation.
// It returns the replay path. The caller then fails the test.
// violated is set once this process has recorded a violation: from then on rapid is shrinking
// a failing case and re-runs it many times.
var violated int32

// Patience is how long a watchdog waits for something that takes milliseconds when all is
// well: d until the process has recorded its first violation, a fifth of d (at least 2 s)
// afterwards, so that shrinking a case whose failure is a hang does not take d per attempt.
func Patience(d time.Duration) time.Duration {
	if atomic.LoadInt32(&violated) == 0 || d <= 2*time.Second {
		return d
	}
	if d/5 < 2*time.Second {
		return 2 * time.Second
	}
	return d / 5
}

func (r *Recorder) Violate(test string, c interface{}, msg string) string {
	atomic.StoreInt32(&violated, 1)
	seed := os.Getenv("VERIF_SHARD_SEED")
	if seed == "" {
		seed = "0"
	}
	p := filepath.Join(replayDir(r.ID), fmt.Sprintf("%s-seed%s.json", test, seed))
	b, err := json.MarshalIndent(map[string]interface{}{"property": r.ID, "test": test, "message": msg, "case": c}, "", " ")
	if err != nil {
		b = []byte(fmt.Sprintf(`{"property":%q,"test":%q,"message":%q,"case_unserialisable":%q}`, r.ID, test, msg, fmt.Sprintf("%+v", c)))
	}
	os.WriteFile(p, b, 0o644)
	r.mu.Lock()
	defer r.mu.Unlock()
	for i := range r.violations {
		if r.violations[i].Test == test {
			r.violations[i] = Violation{r.ID, test, p, msg}
			r.flushLocked()
			return p
		}
	}
	r.violations = append(r.violations, Violation{r.ID, test, p, msg})
	r.flushLocked()
	return p
}

func (r *Recorder) Flush() {
	r.mu.Lock()
	defer r.mu.Unlock()
	r.flushLocked()
}

func (r *Recorder) flushLocked() {
	classes := map[string]int{}
	for k, v := range r.classes {
		classes[k] = v
	}
	hs := make([]string, 0, len(r.distinct))
	for h := range r.distinct {
		hs = append(hs, strconv.FormatUint(h, 16))
	}
	sort.Strings(hs)
	out := map[string]interface{}{
		"property_id": r.ID, "rule": r.Rule, "assumptions": r.Assumptions,
		"evaluations": r.evals, "nontrivial": r.nontrivial, "distinct_hashes": hs,
		"classes": classes, "samples": r.samples, "excluded_known": r.excluded,
		"known_seen": r.knownSeen, "violations": r.violations, "extra": r.extra,
	}
	b, _ := json.Marshal(out)
	shard := os.Getenv("VERIF_SHARD")
	if shard == "" {
		shard = strconv.Itoa(os.Getpid())
	}
	p := filepath.Join(outDir(), fmt.Sprintf("%s.%s.part.json", r.ID, shard))
	os.WriteFile(p+".tmp", b, 0o644)
	os.Rename(p+".tmp", p)
}

// Known returns the listed findings for a property.
func Known(id string) []Finding {
	p := os.Getenv("VERIF_KNOWN")
	if p == "" {
		return nil
	}
	f, err := os.Open(p)
	if err != nil {
		return nil
	}
	defer f.Close()
	var out []Finding
	sc := bufio.NewScanner(f)
	sc.Buffer(make([]byte, 1<<20), 1<<20)
	for sc.Scan() {
		line := strings.TrimSpace(sc.Text())
		if line == "" || strings.HasPrefix(line, "#") {
			continue
		}
		var fd Finding
		if json.Unmarshal([]byte(line), &fd) == nil && fd.Property == id {
			out = append(out, fd)
		}
	}
	return out
}

// IsKnown reports whether sig is listed as a known (unrepaired) finding.
func IsKnown(id, sig string) bool {
	for _, f := range Known(id) {
		if f.Status == "known" && f.Signature == sig {
			return true
		}
	}
	return false
}

// LoadReplay reads a replay file written by Violate and decodes its case into v.
func LoadReplay(path string, v interface{}) (test string, err error) {
	b, err := os.ReadFile(path)
	if err != nil {
		return "", err
	}
	var env struct {
		Test string          `json:"test"`
		Case json.RawMessage `json:"case"`
	}
	if err := json.Unmarshal(b, &env); err != nil {
		return "", err
	}
	return env.Test, json.Unmarshal(env.Case, v)
}

// Tier returns "quick" or "thorough".
func Tier() string {
	if os.Getenv("VERIF_TIER") == "thorough" {
		return "thorough"
	}
	return "quick"
}
