// Package sched provides graphql.WorkScheduler implementations whose schedule the harness owns.
package sched

import (
	"math/rand"
	"sync"

	"github.com/samsarahq/thunder/graphql"
)

// New returns a scheduler by name: "goroutine" (thunder's own), "fifo", "lifo",
// "random" (seeded sequential), "pool2", "pool4".
func New(name string, seed int64) graphql.WorkScheduler {
	switch name {
	case "fifo":
		return &seq{pick: func(n int) int { return 0 }}
	case "lifo":
		return &seq{pick: func(n int) int { return n - 1 }}
	case "random":
		// one scheduler serves every concurrent Execute of a connection: the source is shared
		var mu sync.Mutex
		r := rand.New(rand.NewSource(seed))
		return &seq{pick: func(n int) int { mu.Lock(); defer mu.Unlock(); return r.Intn(n) }}
	case "pool2":
		return &pool{k: 2}
	case "pool4":
		return &pool{k: 4}
	}
	return graphql.NewImmediateGoroutineScheduler()
}

var Names = []string{"goroutine", "fifo", "lifo", "random", "pool2", "pool4"}

type seq struct{ pick func(n int) int }

func (s *seq) Run(resolver graphql.UnitResolver, units ...*graphql.WorkUnit) {
	q := append([]*graphql.WorkUnit{}, units...)
	for len(q) > 0 {
		i := s.pick(len(q))
		u := q[i]
		q = append(q[:i], q[i+1:]...)
		q = append(q, resolver(u)...)
	}
}

type pool struct{ k int }

func (p *pool) Run(resolver graphql.UnitResolver, units ...*graphql.WorkUnit) {
	var mu sync.Mutex
	cond := sync.NewCond(&mu)
	q := append([]*graphql.WorkUnit{}, units...)
	active := 0
	var wg sync.WaitGroup
	for w := 0; w < p.k; w++ {
		wg.Add(1)
		go func() {
			defer wg.Done()
			mu.Lock()
			for {
				for len(q) == 0 && active > 0 {
					cond.Wait()
				}
				if len(q) == 0 && active == 0 {
					cond.Broadcast()
					mu.Unlock()
					return
				}
				u := q[0]
				q = q[1:]
				active++
				mu.Unlock()
				more := resolver(u)
				mu.Lock()
				active--
				q = append(q, more...)
				cond.Broadcast()
			}
		}()
	}
	wg.Wait()
}
