package fakesql

import (
	"bytes"
	"context"
	"database/sql"
	"database/sql/driver"
	"errors"
	"fmt"
	"io"
	"reflect"
	"sort"
	"strconv"
	"strings"
	"sync"
	"time"

	"github.com/samsarahq/thunder/sqlgen"
)

// ColKind is the storage class of a column.
type ColKind int

const (
	KInt ColKind = iota
	KUint
	KFloat32
	KFloat64
	KBool
	KString
	KBytes
	KTime
)

type Col struct {
	Name    string
	Kind    ColKind
	Bits    int
	Primary bool
}

type TableDef struct {
	Name    string
	Cols    []Col
	AutoInc bool
	// ExtraCols is the number of trailing database columns that the struct does not know
	// (after an ALTER TABLE ADD COLUMN); they hold NULL.
	ExtraCols int
}

func (t *TableDef) col(name string) int {
	for i, c := range t.Cols {
		if c.Name == name {
			return i
		}
	}
	return -1
}

type Row []driver.Value // canonical: int64, float64, bool, string, []byte, time.Time(UTC, µs), nil

type Change struct {
	Table  string
	Before Row
	After  Row
}

type LogEntry struct {
	SQL   string
	Args  []driver.Value
	InTx  bool
	Stmt  *Stmt
	Error string
}

type table struct {
	def  *TableDef
	rows []Row
	next int64
}

// Engine is one model database. It implements driver.Connector.
type Engine struct {
	mu      sync.Mutex
	tables  map[string]*table
	Log     []LogEntry
	Changes []Change
	// Protocol selects how values are handed back: "binary", "text", "string".
	Protocol string
	// HarnessErrors collects statements the model cannot parse or type: a harness problem, never a violation.
	HarnessErrors []string
	OnChange      func(Change)
	hookMu        sync.Mutex
	failColumns   int
	beforeSelect  func()
	afterSelect   func()
}

// SetSelectHooks installs functions that run (without the engine lock) when a SELECT on a
// table arrives, and after it computed its rows but before they are handed back. Connections
// of other goroutines (the binlog loop's column queries) read them concurrently.
func (e *Engine) SetSelectHooks(before, after func()) {
	e.hookMu.Lock()
	e.beforeSelect, e.afterSelect = before, after
	e.hookMu.Unlock()
}

func (e *Engine) selectHooks() (func(), func()) {
	e.hookMu.Lock()
	defer e.hookMu.Unlock()
	return e.beforeSelect, e.afterSelect
}

func timeCanon(t time.Time) time.Time { return t.UTC().Truncate(time.Microsecond) }

var timeType = reflect.TypeOf(time.Time{})
var bytesType = reflect.TypeOf([]byte(nil))

// NewFromSchema builds the model tables from the sqlgen schema (natural column mapping).
func NewFromSchema(s *sqlgen.Schema) *Engine {
	e := &Engine{tables: map[string]*table{}, Protocol: "binary"}
	for name, t := range s.ByName {
		def := &TableDef{Name: name, AutoInc: t.PrimaryKeyType == sqlgen.AutoIncrement}
		for _, c := range t.Columns {
			col := Col{Name: c.Name, Primary: c.Primary}
			d := c.Descriptor
			switch {
			case d.Tags.Contains("binary") || d.Tags.Contains("json") || d.Tags.Contains("string"):
				col.Kind = KBytes
			case d.Type == timeType:
				col.Kind = KTime
			case d.Type == bytesType:
				col.Kind = KBytes
			default:
				switch d.Kind {
				case reflect.Int, reflect.Int8, reflect.Int16, reflect.Int32, reflect.Int64:
					col.Kind, col.Bits = KInt, d.Type.Bits()
				case reflect.Uint, reflect.Uint8, reflect.Uint16, reflect.Uint32, reflect.Uint64:
					col.Kind, col.Bits = KUint, d.Type.Bits()
				case reflect.Float32:
					col.Kind = KFloat32
				case reflect.Float64:
					col.Kind = KFloat64
				case reflect.Bool:
					col.Kind = KBool
				case reflect.String:
					col.Kind = KString
				default:
					col.Kind = KBytes
				}
			}
			def.Cols = append(def.Cols, col)
		}
		e.tables[name] = &table{def: def, next: 1}
	}
	return e
}

func (e *Engine) Def(table string) *TableDef {
	e.mu.Lock()
	defer e.mu.Unlock()
	if t, ok := e.tables[table]; ok {
		return t.def
	}
	return nil
}

// AddColumn models ALTER TABLE ADD COLUMN of a column unknown to the struct.
func (e *Engine) AddColumn(table string) {
	e.mu.Lock()
	e.tables[table].def.ExtraCols++
	e.mu.Unlock()
}

// FailColumns makes the next n reads of a table's column list (information_schema.columns)
// fail with driver.ErrBadConn; database/sql retries such a query on up to three connections.
func (e *Engine) FailColumns(n int) {
	e.hookMu.Lock()
	e.failColumns = n
	e.hookMu.Unlock()
}

// NCols is the current number of database columns of a table (struct columns + added ones).
func (e *Engine) NCols(table string) int {
	e.mu.Lock()
	defer e.mu.Unlock()
	d := e.tables[table].def
	return len(d.Cols) + d.ExtraCols
}

// Rows returns a copy of the committed rows of a table.
func (e *Engine) Rows(table string) []Row {
	e.mu.Lock()
	defer e.mu.Unlock()
	var out []Row
	for _, r := range e.tables[table].rows {
		out = append(out, append(Row{}, r...))
	}
	return out
}

func (e *Engine) Statements() []LogEntry {
	e.mu.Lock()
	defer e.mu.Unlock()
	return append([]LogEntry{}, e.Log...)
}

func (e *Engine) TakeChanges() []Change {
	e.mu.Lock()
	defer e.mu.Unlock()
	c := e.Changes
	e.Changes = nil
	return c
}

func (e *Engine) harnessErr(format string, a ...interface{}) error {
	msg := "harness: fakesql: " + fmt.Sprintf(format, a...)
	e.HarnessErrors = append(e.HarnessErrors, msg)
	return errors.New(msg)
}

func (e *Engine) HarnessErrs() []string {
	e.mu.Lock()
	defer e.mu.Unlock()
	return append([]string{}, e.HarnessErrors...)
}

// canon converts an argument to the canonical stored form of a column.
func canon(c Col, v driver.Value) (driver.Value, error) {
	if v == nil {
		return nil, nil
	}
	switch c.Kind {
	case KInt, KUint:
		switch x := v.(type) {
		case int64:
			return x, nil
		case bool:
			if x {
				return int64(1), nil
			}
			return int64(0), nil
		}
	case KFloat32:
		switch x := v.(type) {
		case float64:
			return float64(float32(x)), nil
		case int64:
			return float64(float32(x)), nil
		}
	case KFloat64:
		switch x := v.(type) {
		case float64:
			return x, nil
		case int64:
			return float64(x), nil
		}
	case KBool:
		switch x := v.(type) {
		case bool:
			return x, nil
		case int64:
			return x != 0, nil
		}
	case KString:
		switch x := v.(type) {
		case string:
			return x, nil
		case []byte:
			return string(x), nil
		}
	case KBytes:
		switch x := v.(type) {
		case string:
			return []byte(x), nil
		case []byte:
			return append([]byte{}, x...), nil
		}
	case KTime:
		if x, ok := v.(time.Time); ok {
			return timeCanon(x), nil
		}
	}
	return nil, fmt.Errorf("cross-type value %T for column %s", v, c.Name)
}

// Canon and ValEqual are exported for oracles over the statement log.
func Canon(c Col, v driver.Value) (driver.Value, error) { return canon(c, v) }
func ValEqual(a, b driver.Value) bool                   { return valEqual(a, b) }

func valEqual(a, b driver.Value) bool {
	switch x := a.(type) {
	case []byte:
		y, ok := b.([]byte)
		return ok && bytes.Equal(x, y)
	case time.Time:
		y, ok := b.(time.Time)
		return ok && x.Equal(y)
	}
	return a == b
}

// tri: 1 true, 0 false, -1 unknown
func (e *Engine) eval(t *table, ex *Expr, r Row, args []driver.Value) (int, error) {
	if ex == nil {
		return 1, nil
	}
	switch ex.Op {
	case "and":
		a, err := e.eval(t, ex.Kids[0], r, args)
		if err != nil {
			return 0, err
		}
		b, err := e.eval(t, ex.Kids[1], r, args)
		if err != nil {
			return 0, err
		}
		if a == 0 || b == 0 {
			return 0, nil
		}
		if a == -1 || b == -1 {
			return -1, nil
		}
		return 1, nil
	case "or":
		a, err := e.eval(t, ex.Kids[0], r, args)
		if err != nil {
			return 0, err
		}
		b, err := e.eval(t, ex.Kids[1], r, args)
		if err != nil {
			return 0, err
		}
		if a == 1 || b == 1 {
			return 1, nil
		}
		if a == -1 || b == -1 {
			return -1, nil
		}
		return 0, nil
	}
	ci := t.def.col(ex.Col)
	if ci < 0 {
		return 0, fmt.Errorf("unknown column %s", ex.Col)
	}
	col := t.def.Cols[ci]
	cur := r[ci]
	switch ex.Op {
	case "isnull":
		if cur == nil {
			return 1, nil
		}
		return 0, nil
	case "is":
		if args[ex.Param[0]] != nil {
			return 0, e.harnessErr("IS with a non-NULL parameter")
		}
		if cur == nil {
			return 1, nil
		}
		return 0, nil
	case "eq", "in":
		res := 0
		for _, pi := range ex.Param {
			a, err := canon(col, args[pi])
			if err != nil {
				return 0, e.harnessErr("%v", err)
			}
			if a == nil || cur == nil {
				if res != 1 {
					res = -1
				}
				continue
			}
			if valEqual(a, cur) {
				res = 1
			}
		}
		return res, nil
	}
	return 0, e.harnessErr("bad expr op %s", ex.Op)
}

func rowLess(a, b driver.Value) bool {
	if a == nil {
		return b != nil
	}
	if b == nil {
		return false
	}
	switch x := a.(type) {
	case int64:
		return x < b.(int64)
	case float64:
		return x < b.(float64)
	case string:
		return x < b.(string)
	case []byte:
		return bytes.Compare(x, b.([]byte)) < 0
	case time.Time:
		return x.Before(b.(time.Time))
	case bool:
		return !x && b.(bool)
	}
	return false
}

// ---------- execution ----------

type session struct {
	e    *Engine
	inTx bool
	work map[string]*table // transaction-private copy
	chg  []Change
}

func (s *session) tbl(name string) (*table, error) {
	if s.inTx {
		if t, ok := s.work[name]; ok {
			return t, nil
		}
		src, ok := s.e.tables[name]
		if !ok {
			return nil, fmt.Errorf("Table '%s' doesn't exist", name)
		}
		cp := &table{def: src.def, next: src.next}
		for _, r := range src.rows {
			cp.rows = append(cp.rows, append(Row{}, r...))
		}
		s.work[name] = cp
		return cp, nil
	}
	t, ok := s.e.tables[name]
	if !ok {
		return nil, fmt.Errorf("Table '%s' doesn't exist", name)
	}
	return t, nil
}

func (s *session) emit(c Change) {
	if s.inTx {
		s.chg = append(s.chg, c)
		return
	}
	s.e.Changes = append(s.e.Changes, c)
	if s.e.OnChange != nil {
		s.e.OnChange(c)
	}
}

func (s *session) log(sqlText string, args []driver.Value, st *Stmt, err error) {
	le := LogEntry{SQL: sqlText, Args: append([]driver.Value{}, args...), InTx: s.inTx, Stmt: st}
	if err != nil {
		le.Error = err.Error()
	}
	s.e.Log = append(s.e.Log, le)
}

func (s *session) query(sqlText string, args []driver.Value) (driver.Rows, error) {
	e := s.e
	e.mu.Lock()
	defer e.mu.Unlock()
	st, err := Parse(sqlText)
	if err != nil {
		err = e.harnessErr("cannot parse %q: %v", sqlText, err)
		s.log(sqlText, args, nil, err)
		return nil, err
	}
	if st.NParams != len(args) {
		err := e.harnessErr("%q has %d placeholders, %d args", sqlText, st.NParams, len(args))
		s.log(sqlText, args, st, err)
		return nil, err
	}
	switch st.Kind {
	case "columns":
		e.hookMu.Lock()
		failing := e.failColumns > 0
		if failing {
			e.failColumns--
		}
		e.hookMu.Unlock()
		if failing {
			// the connection breaks while the column list is being read
			s.log(sqlText, args, st, driver.ErrBadConn)
			return nil, driver.ErrBadConn
		}
		s.log(sqlText, args, st, nil)
		name, _ := args[1].(string)
		t, ok := e.tables[name]
		if !ok {
			return &rows{cols: []string{"column_name"}}, nil
		}
		out := &rows{cols: []string{"column_name"}}
		for _, c := range t.def.Cols {
			out.data = append(out.data, []driver.Value{[]byte(c.Name)})
		}
		for i := 0; i < t.def.ExtraCols; i++ {
			out.data = append(out.data, []driver.Value{[]byte("extra_" + strconv.Itoa(i))})
		}
		return out, nil
	case "explain":
		s.log(sqlText, args, st, nil)
		return &rows{cols: []string{"id"}}, nil
	case "select", "count":
		t, err := s.tbl(st.Table)
		if err != nil {
			s.log(sqlText, args, st, err)
			return nil, err
		}
		var sel []Row
		for _, r := range t.rows {
			v, err := e.eval(t, st.Where, r, args)
			if err != nil {
				s.log(sqlText, args, st, err)
				return nil, err
			}
			if v == 1 {
				sel = append(sel, r)
			}
		}
		s.log(sqlText, args, st, nil)
		if st.Kind == "count" {
			return &rows{cols: []string{"COUNT(*)"}, data: [][]driver.Value{{int64(len(sel))}}}, nil
		}
		if st.OrderBy != "" {
			ci := t.def.col(st.OrderBy)
			if ci < 0 {
				return nil, fmt.Errorf("Unknown column '%s' in 'order clause'", st.OrderBy)
			}
			sort.SliceStable(sel, func(i, j int) bool {
				if st.Desc {
					return rowLess(sel[j][ci], sel[i][ci])
				}
				return rowLess(sel[i][ci], sel[j][ci])
			})
		}
		if st.Limit > 0 && len(sel) > st.Limit {
			sel = sel[:st.Limit]
		}
		out := &rows{cols: st.Cols}
		var idx []int
		for _, c := range st.Cols {
			ci := t.def.col(c)
			if ci < 0 {
				return nil, fmt.Errorf("Unknown column '%s' in 'field list'", c)
			}
			idx = append(idx, ci)
		}
		for _, r := range sel {
			line := make([]driver.Value, len(idx))
			for k, ci := range idx {
				line[k] = e.render(t.def.Cols[ci], r[ci])
			}
			out.data = append(out.data, line)
		}
		return out, nil
	}
	err = e.harnessErr("statement %q used as a query", sqlText)
	s.log(sqlText, args, st, err)
	return nil, err
}

// render converts a canonical value to the wire representation of the chosen protocol.
func (e *Engine) render(c Col, v driver.Value) driver.Value {
	if v == nil {
		return nil
	}
	switch e.Protocol {
	case "text", "string":
		var s string
		switch x := v.(type) {
		case int64:
			if c.Kind == KUint {
				s = strconv.FormatUint(uint64(x), 10)
			} else {
				s = strconv.FormatInt(x, 10)
			}
		case float64:
			if c.Kind == KFloat32 {
				s = strconv.FormatFloat(x, 'g', -1, 32)
			} else {
				s = strconv.FormatFloat(x, 'g', -1, 64)
			}
		case bool:
			s = "0"
			if x {
				s = "1"
			}
		case string:
			s = x
		case []byte:
			s = string(x)
		case time.Time:
			s = x.Format("2006-01-02 15:04:05.000000")
		}
		if e.Protocol == "string" {
			return s
		}
		// a driver may reuse its read buffer: hand out a buffer that is overwritten later
		b := []byte(s)
		return b
	default: // binary protocol of go-sql-driver/mysql with parseTime=true
		switch x := v.(type) {
		case bool:
			if x {
				return int64(1)
			}
			return int64(0)
		case string:
			return []byte(x)
		case []byte:
			return append([]byte{}, x...)
		}
		return v
	}
}

type result struct{ id, n int64 }

func (r result) LastInsertId() (int64, error) { return r.id, nil }
func (r result) RowsAffected() (int64, error) { return r.n, nil }

func (s *session) exec(sqlText string, args []driver.Value) (driver.Result, error) {
	e := s.e
	e.mu.Lock()
	defer e.mu.Unlock()
	st, err := Parse(sqlText)
	if err != nil {
		err = e.harnessErr("cannot parse %q: %v", sqlText, err)
		s.log(sqlText, args, nil, err)
		return nil, err
	}
	if st.NParams != len(args) {
		err := e.harnessErr("%q has %d placeholders, %d args", sqlText, st.NParams, len(args))
		s.log(sqlText, args, st, err)
		return nil, err
	}
	t, err := s.tbl(st.Table)
	if err != nil {
		s.log(sqlText, args, st, err)
		return nil, err
	}
	res, err := s.execOn(t, st, args)
	s.log(sqlText, args, st, err)
	return res, err
}

func pkEqual(def *TableDef, a, b Row) bool {
	for i, c := range def.Cols {
		if c.Primary && !valEqual(a[i], b[i]) {
			return false
		}
	}
	return true
}

func (s *session) execOn(t *table, st *Stmt, args []driver.Value) (driver.Result, error) {
	e := s.e
	def := t.def
	switch st.Kind {
	case "insert":
		var lastID int64
		n := int64(0)
		for ri := 0; ri < st.NRows; ri++ {
			row := make(Row, len(def.Cols))
			given := map[int]bool{}
			for k, cn := range st.Cols {
				ci := def.col(cn)
				if ci < 0 {
					return nil, fmt.Errorf("Unknown column '%s' in 'field list'", cn)
				}
				v, err := canon(def.Cols[ci], args[ri*len(st.Cols)+k])
				if err != nil {
					return nil, e.harnessErr("%v", err)
				}
				row[ci] = v
				given[ci] = true
			}
			for ci, c := range def.Cols {
				if c.Primary && def.AutoInc && !given[ci] {
					row[ci] = t.next
					lastID = t.next
					t.next++
				}
			}
			dup := -1
			for i, r := range t.rows {
				if pkEqual(def, r, row) {
					dup = i
				}
			}
			if dup >= 0 {
				if !st.Upsert {
					return nil, fmt.Errorf("Error 1062: Duplicate entry for key 'PRIMARY'")
				}
				before := append(Row{}, t.rows[dup]...)
				after := append(Row{}, t.rows[dup]...)
				for _, cn := range st.UpsertCols {
					ci := def.col(cn)
					after[ci] = row[ci]
				}
				t.rows[dup] = after
				s.emit(Change{Table: def.Name, Before: before, After: append(Row{}, after...)})
				n += 2
				continue
			}
			t.rows = append(t.rows, row)
			s.emit(Change{Table: def.Name, After: append(Row{}, row...)})
			n++
		}
		return result{lastID, n}, nil
	case "update":
		n := int64(0)
		for i, r := range t.rows {
			v, err := e.eval(t, st.Where, r, args)
			if err != nil {
				return nil, err
			}
			if v != 1 {
				continue
			}
			before := append(Row{}, r...)
			after := append(Row{}, r...)
			for k, cn := range st.Cols {
				ci := def.col(cn)
				if ci < 0 {
					return nil, fmt.Errorf("Unknown column '%s'", cn)
				}
				cv, err := canon(def.Cols[ci], args[k])
				if err != nil {
					return nil, e.harnessErr("%v", err)
				}
				after[ci] = cv
			}
			t.rows[i] = after
			s.emit(Change{Table: def.Name, Before: before, After: append(Row{}, after...)})
			n++
		}
		return result{0, n}, nil
	case "delete":
		var keep []Row
		n := int64(0)
		for _, r := range t.rows {
			v, err := e.eval(t, st.Where, r, args)
			if err != nil {
				return nil, err
			}
			if v == 1 {
				s.emit(Change{Table: def.Name, Before: append(Row{}, r...)})
				n++
			} else {
				keep = append(keep, r)
			}
		}
		t.rows = keep
		return result{0, n}, nil
	}
	return nil, e.harnessErr("statement kind %s used with Exec", st.Kind)
}

// ---------- database/sql/driver plumbing ----------

func (e *Engine) Connect(context.Context) (driver.Conn, error) { return &conn{s: &session{e: e}}, nil }
func (e *Engine) Driver() driver.Driver                        { return drv{e} }

type drv struct{ e *Engine }

func (d drv) Open(string) (driver.Conn, error) { return d.e.Connect(context.Background()) }

// Open returns a *sql.DB on the engine.
func (e *Engine) Open() *sql.DB { return sql.OpenDB(e) }

type conn struct{ s *session }

func (c *conn) Prepare(string) (driver.Stmt, error) {
	return nil, errors.New("fakesql: Prepare not supported")
}
func (c *conn) Close() error              { return nil }
func (c *conn) Begin() (driver.Tx, error) { return c.BeginTx(context.Background(), driver.TxOptions{}) }

func (c *conn) BeginTx(ctx context.Context, _ driver.TxOptions) (driver.Tx, error) {
	c.s.e.mu.Lock()
	defer c.s.e.mu.Unlock()
	c.s.inTx = true
	c.s.work = map[string]*table{}
	c.s.chg = nil
	c.s.e.Log = append(c.s.e.Log, LogEntry{SQL: "BEGIN"})
	return &tx{c}, nil
}

type tx struct{ c *conn }

func (t *tx) Commit() error {
	s := t.c.s
	s.e.mu.Lock()
	defer s.e.mu.Unlock()
	for name, w := range s.work {
		s.e.tables[name].rows = w.rows
		s.e.tables[name].next = w.next
	}
	chg := s.chg
	s.inTx, s.work, s.chg = false, nil, nil
	s.e.Log = append(s.e.Log, LogEntry{SQL: "COMMIT"})
	for _, c := range chg {
		s.e.Changes = append(s.e.Changes, c)
		if s.e.OnChange != nil {
			s.e.OnChange(c)
		}
	}
	return nil
}

func (t *tx) Rollback() error {
	s := t.c.s
	s.e.mu.Lock()
	defer s.e.mu.Unlock()
	s.inTx, s.work, s.chg = false, nil, nil
	s.e.Log = append(s.e.Log, LogEntry{SQL: "ROLLBACK"})
	return nil
}

func named(args []driver.NamedValue) []driver.Value {
	out := make([]driver.Value, len(args))
	for i, a := range args {
		out[i] = a.Value
	}
	return out
}

func (c *conn) QueryContext(ctx context.Context, q string, args []driver.NamedValue) (driver.Rows, error) {
	if err := ctx.Err(); err != nil {
		return nil, err
	}
	isSel := strings.HasPrefix(q, "SELECT") && !strings.Contains(q, "information_schema")
	before, after := c.s.e.selectHooks()
	if before != nil && isSel {
		before()
	}
	r, err := c.s.query(q, named(args))
	if after != nil && isSel && err == nil {
		after()
	}
	return r, err
}

func (c *conn) ExecContext(ctx context.Context, q string, args []driver.NamedValue) (driver.Result, error) {
	if err := ctx.Err(); err != nil {
		return nil, err
	}
	return c.s.exec(q, named(args))
}

type rows struct {
	cols []string
	data [][]driver.Value
	i    int
	prev []driver.Value
}

func (r *rows) Columns() []string { return r.cols }
func (r *rows) Close() error      { return nil }
func (r *rows) Next(dest []driver.Value) error {
	// like a real driver, invalidate the buffers handed out for the previous row
	for _, v := range r.prev {
		if b, ok := v.([]byte); ok {
			for i := range b {
				b[i] = 0xEE
			}
		}
	}
	if r.i >= len(r.data) {
		return io.EOF
	}
	copy(dest, r.data[r.i])
	r.prev = r.data[r.i]
	r.i++
	return nil
}
