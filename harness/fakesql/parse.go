// Package fakesql is an in-process model database behind database/sql: it parses exactly
// the statement shapes sqlgen can emit, evaluates them with SQL three-valued logic over
// typed columns, logs every statement that reaches it and emits a change feed.
package fakesql

import (
	"fmt"
	"strings"
	"unicode"
)

type tok struct {
	k string // id num ? ( ) , = * str
	v string
}

func lex(s string) ([]tok, error) {
	var out []tok
	i := 0
	for i < len(s) {
		c := s[i]
		switch {
		case c == ' ' || c == '\n' || c == '\t' || c == '\r':
			i++
		case c == '?' || c == '(' || c == ')' || c == ',' || c == '=' || c == '*':
			out = append(out, tok{string(c), string(c)})
			i++
		case c == '"' || c == '\'':
			j := i + 1
			for j < len(s) && s[j] != c {
				j++
			}
			if j >= len(s) {
				return nil, fmt.Errorf("unterminated string")
			}
			out = append(out, tok{"str", s[i+1 : j]})
			i = j + 1
		case unicode.IsDigit(rune(c)):
			j := i
			for j < len(s) && unicode.IsDigit(rune(s[j])) {
				j++
			}
			out = append(out, tok{"num", s[i:j]})
			i = j
		case unicode.IsLetter(rune(c)) || c == '_' || c == '`':
			j := i
			for j < len(s) && (unicode.IsLetter(rune(s[j])) || unicode.IsDigit(rune(s[j])) || s[j] == '_' || s[j] == '.' || s[j] == '`') {
				j++
			}
			out = append(out, tok{"id", strings.Trim(s[i:j], "`")})
			i = j
		default:
			return nil, fmt.Errorf("unexpected character %q in %q", c, s)
		}
	}
	return out, nil
}

// Expr is a boolean WHERE expression.
type Expr struct {
	Op    string // and or eq is in isnull
	Kids  []*Expr
	Col   string
	Param []int // parameter indexes (eq/is: 1; in: n)
}

type Stmt struct {
	Kind     string // select count insert update delete columns explain
	Table    string
	Cols     []string // select columns / insert columns / update set columns
	Where    *Expr
	OrderBy  string
	Desc     bool
	Limit    int
	NRows    int // insert rows
	Upsert   bool
	UpsertCols []string
	NParams  int
	ForUpdate bool
}

type parser struct {
	t []tok
	i int
	n int // params seen
}

func (p *parser) peek() tok {
	if p.i < len(p.t) {
		return p.t[p.i]
	}
	return tok{"eof", ""}
}
func (p *parser) next() tok { t := p.peek(); p.i++; return t }
func (p *parser) kw(words ...string) bool {
	for j, w := range words {
		if p.i+j >= len(p.t) || p.t[p.i+j].k != "id" || !strings.EqualFold(p.t[p.i+j].v, w) {
			return false
		}
	}
	p.i += len(words)
	return true
}
func (p *parser) expect(k string) error {
	if t := p.next(); t.k != k {
		return fmt.Errorf("expected %s, got %q", k, t.v)
	}
	return nil
}
func (p *parser) ident() (string, error) {
	t := p.next()
	if t.k != "id" {
		return "", fmt.Errorf("expected identifier, got %q", t.v)
	}
	return t.v, nil
}

func (p *parser) param() (int, error) {
	if err := p.expect("?"); err != nil {
		return 0, err
	}
	p.n++
	return p.n - 1, nil
}

func (p *parser) parseOr() (*Expr, error) {
	l, err := p.parseAnd()
	if err != nil {
		return nil, err
	}
	for p.kw("OR") {
		r, err := p.parseAnd()
		if err != nil {
			return nil, err
		}
		l = &Expr{Op: "or", Kids: []*Expr{l, r}}
	}
	return l, nil
}

func (p *parser) parseAnd() (*Expr, error) {
	l, err := p.parseAtom()
	if err != nil {
		return nil, err
	}
	for p.kw("AND") {
		r, err := p.parseAtom()
		if err != nil {
			return nil, err
		}
		l = &Expr{Op: "and", Kids: []*Expr{l, r}}
	}
	return l, nil
}

func (p *parser) parseAtom() (*Expr, error) {
	if p.peek().k == "(" {
		p.next()
		e, err := p.parseOr()
		if err != nil {
			return nil, err
		}
		return e, p.expect(")")
	}
	col, err := p.ident()
	if err != nil {
		return nil, err
	}
	switch {
	case p.peek().k == "=":
		p.next()
		i, err := p.param()
		return &Expr{Op: "eq", Col: col, Param: []int{i}}, err
	case p.kw("IS", "NULL"):
		return &Expr{Op: "isnull", Col: col}, nil
	case p.kw("IS"):
		i, err := p.param()
		return &Expr{Op: "is", Col: col, Param: []int{i}}, err
	case p.kw("IN"):
		if err := p.expect("("); err != nil {
			return nil, err
		}
		e := &Expr{Op: "in", Col: col}
		for {
			i, err := p.param()
			if err != nil {
				return nil, err
			}
			e.Param = append(e.Param, i)
			if p.peek().k == "," {
				p.next()
				continue
			}
			break
		}
		return e, p.expect(")")
	}
	return nil, fmt.Errorf("unsupported predicate after column %s: %q", col, p.peek().v)
}

func (p *parser) identList() ([]string, error) {
	var out []string
	for {
		c, err := p.ident()
		if err != nil {
			return nil, err
		}
		out = append(out, c)
		if p.peek().k == "," {
			p.next()
			continue
		}
		return out, nil
	}
}

// Parse parses one statement of sqlgen's dialect.
func Parse(sql string) (*Stmt, error) {
	toks, err := lex(sql)
	if err != nil {
		return nil, err
	}
	p := &parser{t: toks}
	st := &Stmt{}
	switch {
	case p.kw("EXPLAIN"):
		st.Kind = "explain"
		return st, nil
	case p.kw("SELECT"):
		if p.kw("COUNT") {
			st.Kind = "count"
			if err := p.expect("("); err != nil {
				return nil, err
			}
			if err := p.expect("*"); err != nil {
				return nil, err
			}
			if err := p.expect(")"); err != nil {
				return nil, err
			}
		} else {
			st.Kind = "select"
			if st.Cols, err = p.identList(); err != nil {
				return nil, err
			}
		}
		if !p.kw("FROM") {
			return nil, fmt.Errorf("expected FROM")
		}
		if st.Table, err = p.ident(); err != nil {
			return nil, err
		}
		if strings.EqualFold(st.Table, "information_schema.columns") {
			st.Kind = "columns"
			// WHERE table_schema = ? AND table_name = ? ORDER BY ordinal_position
			st.NParams = 2
			return st, nil
		}
		if p.kw("FORCE", "INDEX") || p.kw("USE", "INDEX") {
			if err := p.expect("("); err != nil {
				return nil, err
			}
			if _, err := p.identList(); err != nil {
				return nil, err
			}
			if err := p.expect(")"); err != nil {
				return nil, err
			}
		}
		if p.kw("WHERE") {
			if st.Where, err = p.parseOr(); err != nil {
				return nil, err
			}
		}
		if p.kw("ORDER", "BY") {
			if st.OrderBy, err = p.ident(); err != nil {
				return nil, err
			}
			if p.kw("DESC") {
				st.Desc = true
			} else {
				p.kw("ASC")
			}
		}
		if p.kw("LIMIT") {
			t := p.next()
			if t.k != "num" {
				return nil, fmt.Errorf("bad LIMIT")
			}
			fmt.Sscan(t.v, &st.Limit)
		}
		if p.kw("FOR", "UPDATE") {
			st.ForUpdate = true
		}
	case p.kw("INSERT", "INTO"):
		st.Kind = "insert"
		if st.Table, err = p.ident(); err != nil {
			return nil, err
		}
		if err := p.expect("("); err != nil {
			return nil, err
		}
		if st.Cols, err = p.identList(); err != nil {
			return nil, err
		}
		if err := p.expect(")"); err != nil {
			return nil, err
		}
		if !p.kw("VALUES") {
			return nil, fmt.Errorf("expected VALUES")
		}
		for {
			if err := p.expect("("); err != nil {
				return nil, err
			}
			for k := range st.Cols {
				if _, err := p.param(); err != nil {
					return nil, err
				}
				if k < len(st.Cols)-1 {
					if err := p.expect(","); err != nil {
						return nil, err
					}
				}
			}
			if err := p.expect(")"); err != nil {
				return nil, err
			}
			st.NRows++
			if p.peek().k == "," {
				p.next()
				continue
			}
			break
		}
		if p.kw("ON", "DUPLICATE", "KEY", "UPDATE") {
			st.Upsert = true
			for {
				c, err := p.ident()
				if err != nil {
					return nil, err
				}
				if err := p.expect("="); err != nil {
					return nil, err
				}
				if !p.kw("VALUES") {
					return nil, fmt.Errorf("expected VALUES(col)")
				}
				if err := p.expect("("); err != nil {
					return nil, err
				}
				c2, err := p.ident()
				if err != nil || c2 != c {
					return nil, fmt.Errorf("unsupported upsert assignment")
				}
				if err := p.expect(")"); err != nil {
					return nil, err
				}
				st.UpsertCols = append(st.UpsertCols, c)
				if p.peek().k == "," {
					p.next()
					continue
				}
				break
			}
		}
	case p.kw("UPDATE"):
		st.Kind = "update"
		if st.Table, err = p.ident(); err != nil {
			return nil, err
		}
		if p.kw("SET") {
			for {
				c, err := p.ident()
				if err != nil {
					return nil, err
				}
				if err := p.expect("="); err != nil {
					return nil, err
				}
				if _, err := p.param(); err != nil {
					return nil, err
				}
				st.Cols = append(st.Cols, c)
				if p.peek().k == "," {
					p.next()
					continue
				}
				break
			}
		}
		if p.kw("WHERE") {
			if st.Where, err = p.parseOr(); err != nil {
				return nil, err
			}
		}
	case p.kw("DELETE", "FROM"):
		st.Kind = "delete"
		if st.Table, err = p.ident(); err != nil {
			return nil, err
		}
		if p.kw("WHERE") {
			if st.Where, err = p.parseOr(); err != nil {
				return nil, err
			}
		}
	default:
		return nil, fmt.Errorf("unsupported statement")
	}
	if p.peek().k != "eof" {
		return nil, fmt.Errorf("trailing tokens at %q", p.peek().v)
	}
	st.NParams = p.n
	return st, nil
}

// DNF returns the WHERE expression in disjunctive normal form: a list of conjunctions of
// atoms. nil expression = one empty conjunction (matches everything).
func DNF(e *Expr) [][]*Expr {
	if e == nil {
		return [][]*Expr{{}}
	}
	switch e.Op {
	case "or":
		return append(DNF(e.Kids[0]), DNF(e.Kids[1])...)
	case "and":
		var out [][]*Expr
		for _, a := range DNF(e.Kids[0]) {
			for _, b := range DNF(e.Kids[1]) {
				c := append(append([]*Expr{}, a...), b...)
				out = append(out, c)
			}
		}
		return out
	}
	return [][]*Expr{{e}}
}
