package c06

import (
	"context"
	"encoding/json"
	"fmt"
	"sync"
	"sync/atomic"
	"testing"

	"github.com/samsarahq/thunder/federation"
	"github.com/samsarahq/thunder/graphql"
	"pgregory.net/rapid"

	"verifharness/sched"
	"verifharness/world"
)

// The services behind a running gateway change between two schema refreshes (a deploy): a
// field served by two services is dropped by one of them (the last step of moving a field), or
// a field is dropped by every service. After the refreshes the gateway must answer like a
// freshly started one: the same JSON as a monolith with the new schema, every sub-query only
// naming what the receiving service now has, and a query for a field nobody has any more
// refused without bothering a service.

type swapClient struct {
	name string
	cur  atomic.Value // federation.ExecutorClient
	mu   *sync.Mutex
	log  *[]recorded
}

func (c *swapClient) Execute(ctx context.Context, req *federation.QueryRequest) (*federation.QueryResponse, error) {
	c.mu.Lock()
	*c.log = append(*c.log, recorded{c.name, req.Query})
	c.mu.Unlock()
	return c.cur.Load().(federation.ExecutorClient).Execute(ctx, req)
}

type refreshCase struct {
	Spec      *world.Spec         `json:"spec"`
	Partition *world.FedPartition `json:"partition"`
	Modes     world.Modes         `json:"modes"`
	Kind      string              `json:"kind"` // move | remove
	Field     string              `json:"field"`
	Dropper   string              `json:"dropper,omitempty"`
	Scalar    bool                `json:"scalar,omitempty"` // the field is a scalar without arguments (it can be asked for on its own)
	Refreshes int                 `json:"refreshes"`
	Before    int                 `json:"refreshes_before"` // refreshes of the unchanged services before the change
	Texts     []string            `json:"texts"`
	Queries   []*world.Query      `json:"queries"`
}

func cloneSpecWithout(s *world.Spec, key string) *world.Spec {
	b, _ := json.Marshal(s)
	var out world.Spec
	json.Unmarshal(b, &out)
	for oi := range out.Objects {
		var kept []world.FieldSpec
		for _, f := range out.Objects[oi].Fields {
			if out.Objects[oi].Type+"."+f.Name != key {
				kept = append(kept, f)
			}
		}
		out.Objects[oi].Fields = kept
	}
	return &out
}

func clonePartition(p *world.FedPartition) *world.FedPartition {
	b, _ := json.Marshal(p)
	var out world.FedPartition
	json.Unmarshal(b, &out)
	return &out
}

func servers(svcs []*world.FedService) (map[string]federation.ExecutorClient, error) {
	out := map[string]federation.ExecutorClient{}
	for _, s := range svcs {
		srv, err := federation.NewServer(s.Schema)
		if err != nil {
			return nil, err
		}
		out[s.Name] = &federation.DirectExecutorClient{Client: srv}
	}
	return out, nil
}

func checkRefresh(c refreshCase) (sig string, err error) {
	mono1, err := world.Bind(c.Spec, c.Modes)
	if err != nil {
		return "harness-bind", fmt.Errorf("harness: monolith: %v", err)
	}
	svcs1, err := world.BindFed(c.Spec, c.Partition, c.Modes)
	if err != nil {
		return "harness-bind", fmt.Errorf("harness: services: %v", err)
	}
	first, err := servers(svcs1)
	if err != nil {
		return "harness", fmt.Errorf("harness: %v", err)
	}
	var mu sync.Mutex
	var reqLog []recorded
	swaps := map[string]*swapClient{}
	execs := map[string]federation.ExecutorClient{}
	for name, cl := range first {
		sc := &swapClient{name: name, mu: &mu, log: &reqLog}
		sc.cur.Store(cl)
		swaps[name], execs[name] = sc, sc
	}
	ctx, cancel := context.WithCancel(context.Background())
	defer cancel()
	gw, err := federation.NewExecutor(ctx, execs, &federation.SchemaSyncerConfig{SchemaSyncer: federation.NewIntrospectionSchemaSyncer(ctx, execs, nil)})
	if err != nil {
		return "gateway-build", fmt.Errorf("the gateway does not build: %v", err)
	}
	run := func(mono *world.Bound, spec *world.Spec, part *world.FedPartition, text string, q *world.Query, when string) (string, error) {
		want, err := mono.Run(context.Background(), text, copyVals(q.Values), sched.New("goroutine", 0), false)
		if err != nil {
			return "harness-mono", fmt.Errorf("harness: monolith failed: %v\n%s", err, text)
		}
		var injRef interface{}
		if iq := world.InjectUnionTypename(q, spec, "__inj"); iq != nil {
			injRef = (&world.Ref{S: spec, Q: iq}).Eval()
		}
		pq, err := graphql.Parse(text, copyVals(q.Values))
		if err != nil {
			return "harness-parse", fmt.Errorf("harness: %v", err)
		}
		mu.Lock()
		n0 := len(reqLog)
		mu.Unlock()
		var got interface{}
		var gerr error
		func() {
			defer func() {
				if r := recover(); r != nil {
					gerr = fmt.Errorf("PANIC in gateway: %v", r)
				}
			}()
			got, _, gerr = gw.Execute(context.Background(), pq, nil)
		}()
		if gerr != nil {
			return "gateway-error", fmt.Errorf("%s the gateway failed a query the monolith answers: %v\nquery:\n%s\npartition: %v", when, gerr, text, part.Fields)
		}
		if g, same, _ := sameModuloInjected(got, strip(want), injRef); !same {
			return "mismatch", fmt.Errorf("%s the gateway result differs from the monolith:\n gateway  %s\n monolith %s\nquery:\n%s", when, g, strip(want), text)
		}
		mu.Lock()
		reqs := append([]recorded{}, reqLog[n0:]...)
		mu.Unlock()
		cc := Case{Spec: spec, Partition: part}
		for _, r := range reqs {
			if isIntrospection(r.query) {
				continue
			}
			rootT := "Query"
			if r.query.Kind == "mutation" {
				rootT = "Mutation"
			}
			if err := checkSubQuery(cc, r.service, rootT, r.query.SelectionSet); err != nil {
				return "subquery-leak", fmt.Errorf("%s %v\nquery:\n%s", when, err, text)
			}
		}
		return "", nil
	}
	for i, text := range c.Texts {
		if sig, err := run(mono1, c.Spec, c.Partition, text, c.Queries[i], "before the change"); err != nil {
			return sig, err
		}
	}
	for i := 0; i < c.Before; i++ {
		if err := gw.VerifSyncNow(ctx); err != nil {
			return "refresh-fails", fmt.Errorf("refresh %d of the unchanged services failed: %v", i+1, err)
		}
	}
	// the change
	spec2, part2, mono2 := c.Spec, clonePartition(c.Partition), mono1
	switch c.Kind {
	case "move":
		var kept []string
		for _, s := range part2.Fields[c.Field] {
			if s != c.Dropper {
				kept = append(kept, s)
			}
		}
		part2.Fields[c.Field] = kept
	case "remove":
		spec2 = cloneSpecWithout(c.Spec, c.Field)
		delete(part2.Fields, c.Field)
		if mono2, err = world.Bind(spec2, c.Modes); err != nil {
			return "harness-bind", fmt.Errorf("harness: monolith after the change: %v", err)
		}
	}
	svcs2, err := world.BindFed(spec2, part2, c.Modes)
	if err != nil {
		return "harness-bind", fmt.Errorf("harness: services after the change: %v", err)
	}
	second, err := servers(svcs2)
	if err != nil {
		return "harness", fmt.Errorf("harness: %v", err)
	}
	for name, cl := range second {
		swaps[name].cur.Store(cl)
	}
	for i := 0; i < c.Refreshes; i++ {
		if err := gw.VerifSyncNow(ctx); err != nil {
			return "refresh-fails", fmt.Errorf("refresh %d after the change (%s %s) failed: %v", i+1, c.Kind, c.Field, err)
		}
	}
	when := fmt.Sprintf("after %s of %s and %d refreshes", c.Kind, c.Field, c.Refreshes)
	if c.Kind == "move" {
		if c.Scalar {
			// the moved field itself, asked for directly
			obj, fld := splitKey(c.Field)
			pq := &world.Query{Values: map[string]interface{}{}, Sels: []world.Sel{{Kind: "field", Name: "all" + obj, Sub: []world.Sel{{Kind: "field", Name: fld}}}}}
			if sig, err := run(mono2, spec2, part2, pq.Text(), pq, when); err != nil {
				return sig, err
			}
		}
		for i, text := range c.Texts {
			if sig, err := run(mono2, spec2, part2, text, c.Queries[i], when); err != nil {
				return sig, err
			}
		}
		return "", nil
	}
	// remove: queries that do not use the field still work ...
	for i, text := range c.Texts {
		if usesField(c.Queries[i], c.Field) {
			continue
		}
		if sig, err := run(mono2, spec2, part2, text, c.Queries[i], when); err != nil {
			return sig, err
		}
	}
	// ... and the field is gone from the gateway's schema: a query for it is refused by the
	// gateway itself
	obj, fld := splitKey(c.Field)
	probe := fmt.Sprintf("{ all%s { %s } }", obj, fld)
	pq, err := graphql.Parse(probe, map[string]interface{}{})
	if err != nil {
		return "harness-parse", fmt.Errorf("harness: %v", err)
	}
	mu.Lock()
	n0 := len(reqLog)
	mu.Unlock()
	_, _, gerr := gw.Execute(context.Background(), pq, nil)
	mu.Lock()
	sent := len(reqLog) - n0
	mu.Unlock()
	if gerr == nil {
		return "stale-field", fmt.Errorf("%s the gateway still answers %s although no service has the field", when, probe)
	}
	if sent > 0 {
		return "stale-field", fmt.Errorf("%s the gateway still plans %s (it sent %d sub-queries; error: %v): the field no service has is still in its schema", when, probe, sent, gerr)
	}
	return "", nil
}

func splitKey(k string) (string, string) {
	for i := 0; i < len(k); i++ {
		if k[i] == '.' {
			return k[:i], k[i+1:]
		}
	}
	return k, ""
}

func usesField(q *world.Query, key string) bool {
	_, fld := splitKey(key)
	var walk func([]world.Sel) bool
	walk = func(ss []world.Sel) bool {
		for _, s := range ss {
			if s.Kind == "field" && s.Name == fld {
				return true // (by name only: conservative)
			}
			if walk(s.Sub) {
				return true
			}
		}
		return false
	}
	if walk(q.Sels) {
		return true
	}
	for _, f := range q.Frags {
		if walk(f.Sels) {
			return true
		}
	}
	return false
}

func genRefreshCase(t *rapid.T) refreshCase {
	base, _ := genCase(t, false)
	c := refreshCase{Spec: base.Spec, Partition: base.Partition, Modes: base.Modes, Texts: base.Texts, Queries: base.Queries, Refreshes: rapid.IntRange(1, 3).Draw(t, "refreshes"), Before: rapid.IntRange(0, 2).Draw(t, "before")}
	// candidate fields: func fields of the federated objects
	type cand struct {
		key    string
		scalar bool
	}
	var cands []cand
	for _, o := range c.Spec.Objects {
		if o.Type == "Query" || o.Type == "Mutation" {
			continue
		}
		for _, f := range o.Fields {
			sc := f.Args == "" && (f.Ret == "int64" || f.Ret == "string" || f.Ret == "pstring" || f.Ret == "enumA" || f.Ret == "void")
			cands = append(cands, cand{o.Type + "." + f.Name, sc})
		}
	}
	pick := cands[rapid.IntRange(0, len(cands)-1).Draw(t, "field")]
	c.Field, c.Scalar = pick.key, pick.scalar
	c.Kind = "move"
	if pick.scalar && rapid.Bool().Draw(t, "remove") {
		c.Kind = "remove"
		return c
	}
	// make sure two services serve it, then one of them drops it
	svcs := c.Partition.Fields[c.Field]
	if len(svcs) < 2 {
		for _, s := range c.Partition.Services {
			if s != svcs[0] {
				svcs = append(svcs, s)
				break
			}
		}
		c.Partition.Fields[c.Field] = svcs
	}
	c.Dropper = svcs[rapid.IntRange(0, len(svcs)-1).Draw(t, "dropper")]
	return c
}

func TestRefreshAfterChange(t *testing.T) {
	rapid.Check(t, func(t *rapid.T) {
		c := genRefreshCase(t)
		if sig, err := checkRefresh(c); err != nil {
			p := rec.Violate("TestRefreshAfterChange", c, sig+": "+err.Error())
			t.Fatalf("%s: %v (replay %s)", sig, err, p)
		}
		rec.Case(fmt.Sprint("refresh-change", c.Kind, c.Field, c.Dropper, c.Refreshes, c.Texts), true, "refresh-after-change", "change:"+c.Kind)
	})
}
