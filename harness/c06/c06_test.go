package c06

import (
	"context"
	"encoding/json"
	"fmt"
	"io"
	"log"
	"os"
	"sort"
	"strings"
	"sync"
	"sync/atomic"
	"testing"
	"time"

	"github.com/samsarahq/thunder/federation"
	"github.com/samsarahq/thunder/graphql"
	"pgregory.net/rapid"

	"verifharness/ev"
	jv "verifharness/jsonval"
	"verifharness/sched"
	"verifharness/world"
)

var rec = ev.New("C06",
	"worlds: a generated spec over flat federated objects (fields pure functions of Id), a partition of every field (root fields included) over 2-4 in-process services (1-2 services per field, a drawn FetchObjectFromKeys key-struct variant per service and object, objects re-fetched from Id) and a monolith schema with all fields; per world 4 generated valid queries (duplicate aliases with different sub-selections, nested and repeated fragments, unions of federated objects, arguments, variables, nil objects, empty lists) executed 3 times through federation.NewExecutor (recording ExecutorClients, introspection schema syncer) and once on the monolith with thunder's executor; oracles: gateway JSON == monolith JSON == reference interpreter (keys stripped), repeated executions agree, every recorded sub-query only names fields registered on the receiving service; non-trivial = >=2 services received sub-queries and (a merged alias, a union, or >=3 sub-queries); distinct = hash of (spec, partition, query)",
	"no explicit _federation selection; __typename is always selected under unions (the planner injects it, see known finding)", "fields served by two services have identical signatures and data")

func TestMain(m *testing.M) { log.SetOutput(io.Discard); code := m.Run(); rec.Flush(); os.Exit(code) }

type Case struct {
	Spec      *world.Spec         `json:"spec"`
	Partition *world.FedPartition `json:"partition"`
	Modes     world.Modes         `json:"modes"`
	Queries   []*world.Query      `json:"queries"`
	Texts     []string            `json:"texts"`
	Cancel    *CancelPlan         `json:"cancel,omitempty"` // TestCancelledRequest
}

type recorded struct {
	service string
	query   *graphql.Query
}

type recClient struct {
	name  string
	inner federation.ExecutorClient
	mu    *sync.Mutex
	log   *[]recorded
}

func (c *recClient) Execute(ctx context.Context, req *federation.QueryRequest) (*federation.QueryResponse, error) {
	c.mu.Lock()
	*c.log = append(*c.log, recorded{c.name, req.Query})
	c.mu.Unlock()
	return c.inner.Execute(ctx, req)
}

func isIntrospection(q *graphql.Query) bool {
	return q.SelectionSet != nil && len(q.SelectionSet.Selections) > 0 && strings.HasPrefix(q.SelectionSet.Selections[0].Name, "__schema")
}

// checkSubQuery verifies that a sub-query sent to service svc only names fields that
// service registered.
func checkSubQuery(c Case, svc string, typ string, ss *graphql.SelectionSet) error {
	if ss == nil {
		return nil
	}
	for _, sel := range ss.Selections {
		switch {
		case sel.Name == "__typename":
		case sel.Name == "_federation" && typ == "Query":
			if sel.SelectionSet == nil {
				continue
			}
			for _, ch := range sel.SelectionSet.Selections {
				parts := strings.SplitN(ch.Name, "_", 2)
				if len(parts) != 2 || parts[0] != svc {
					return fmt.Errorf("service %s received federation selection %q", svc, ch.Name)
				}
				if err := checkSubQuery(c, svc, parts[1], ch.SelectionSet); err != nil {
					return err
				}
			}
		case sel.Name == "_federation":
			// key selection on an object
		default:
			tf := c.Spec.FieldOf(typ, sel.Name)
			if tf == nil {
				return fmt.Errorf("service %s was asked for unknown field %s.%s", svc, typ, sel.Name)
			}
			if tf.Spec != nil {
				served := false
				for _, s := range c.Partition.Fields[typ+"."+sel.Name] {
					if s == svc {
						served = true
					}
				}
				if !served {
					return fmt.Errorf("service %s was asked for %s.%s, which only %v serve", svc, typ, sel.Name, c.Partition.Fields[typ+"."+sel.Name])
				}
				if tf.Spec.Args == "" && len(sel.UnparsedArgs) > 0 {
					return fmt.Errorf("service %s was sent arguments %v for %s.%s, which takes none", svc, sel.UnparsedArgs, typ, sel.Name)
				}
			}
			if comp, isU := world.Composite(tf.GoType); comp != "" {
				if isU {
					if sel.SelectionSet != nil {
						for _, fr := range sel.SelectionSet.Fragments {
							if err := checkSubQuery(c, svc, fr.On, fr.SelectionSet); err != nil {
								return err
							}
						}
					}
				} else if err := checkSubQuery(c, svc, comp, sel.SelectionSet); err != nil {
					return err
				}
			}
		}
	}
	for _, fr := range ss.Fragments {
		if err := checkSubQuery(c, svc, fr.On, fr.SelectionSet); err != nil {
			return err
		}
	}
	return nil
}

func copyVals(m map[string]interface{}) map[string]interface{} {
	b, _ := json.Marshal(m)
	var out map[string]interface{}
	json.Unmarshal(b, &out)
	if out == nil {
		out = map[string]interface{}{}
	}
	return out
}

func strip(x interface{}) string {
	b, _ := json.Marshal(x)
	var y interface{}
	json.Unmarshal(b, &y)
	return jv.Canon(jv.StripKeyRef(y))
}

func tree(x interface{}) interface{} {
	b, _ := json.Marshal(x)
	var y interface{}
	json.Unmarshal(b, &y)
	return y
}

// dropInjected walks the gateway's response along the reference response of the marked
// query: where the reference has the marker key and no __typename of its own, a __typename in
// the gateway's object was injected by the planner and is removed. Returns how many.
func dropInjected(got, ref interface{}) int {
	n := 0
	switch r := ref.(type) {
	case map[string]interface{}:
		g, ok := got.(map[string]interface{})
		if !ok {
			return 0
		}
		if _, marked := r["__inj"]; marked {
			if _, own := r["__typename"]; !own {
				if _, has := g["__typename"]; has {
					delete(g, "__typename")
					n++
				}
			}
		}
		for k, rv := range r {
			if gv, ok := g[k]; ok {
				n += dropInjected(gv, rv)
			}
		}
	case []interface{}:
		g, ok := got.([]interface{})
		if !ok {
			return 0
		}
		for i := range r {
			if i < len(g) {
				n += dropInjected(g[i], r[i])
			}
		}
	}
	return n
}

// sameModuloInjected compares the gateway's answer with the monolith's, accepting a
// __typename that the planner injected under a union (marked by injRef).
func sameModuloInjected(got interface{}, wantS string, injRef interface{}) (string, bool, bool) {
	g := strip(got)
	if g == wantS {
		return g, true, false
	}
	if injRef != nil {
		gt, rt := tree(got), tree(injRef)
		if n := dropInjected(gt, rt); n > 0 && jv.Canon(jv.StripKeyRef(gt)) == wantS {
			return g, true, true
		}
	}
	return g, false, false
}

type qstat struct {
	services map[string]bool
	requests int
}

func check(c Case) (stats []qstat, sig string, err error) { return checkWith(c, true) }

// checkWith: tolerateInjected accepts a __typename the planner added under a union (the
// listed known finding) and counts it; the pinned case of the finding runs without it.
func checkWith(c Case, tolerateInjected bool) (stats []qstat, sig string, err error) {
	mono, err := world.Bind(c.Spec, c.Modes)
	if err != nil {
		return nil, "harness-bind", fmt.Errorf("harness: monolith: %v", err)
	}
	svcs, err := world.BindFed(c.Spec, c.Partition, c.Modes)
	if err != nil {
		return nil, "harness-bind", fmt.Errorf("harness: services: %v", err)
	}
	var mu sync.Mutex
	var reqLog []recorded
	execs := map[string]federation.ExecutorClient{}
	for _, s := range svcs {
		srv, err := federation.NewServer(s.Schema)
		if err != nil {
			return nil, "harness", fmt.Errorf("harness: NewServer: %v", err)
		}
		execs[s.Name] = &recClient{name: s.Name, inner: &federation.DirectExecutorClient{Client: srv}, mu: &mu, log: &reqLog}
	}
	ctx, cancel := context.WithCancel(context.Background())
	defer cancel()
	gw, err := federation.NewExecutor(ctx, execs, &federation.SchemaSyncerConfig{SchemaSyncer: federation.NewIntrospectionSchemaSyncer(ctx, execs, nil)})
	if err != nil {
		return nil, "gateway-build", fmt.Errorf("the gateway does not build from services whose fields have identical signatures: %v", err)
	}
	for qi, q := range c.Queries {
		text := c.Texts[qi]
		want, err := mono.Run(context.Background(), text, copyVals(q.Values), sched.New("goroutine", 0), false)
		if err != nil {
			return nil, "harness-mono", fmt.Errorf("harness: monolith failed (C01 matter): %v\n%s", err, text)
		}
		wantS := strip(want)
		ref := strip((&world.Ref{S: c.Spec, Q: q}).Eval())
		if ref != wantS {
			return nil, "harness-mono", fmt.Errorf("harness: monolith differs from reference (C01 matter):\n mono %s\n ref  %s\n%s", wantS, ref, text)
		}
		// the same query with `__inj: __typename` in every union selection that has no plain
		// __typename of its own: marks where the gateway's injected __typename may show up
		var injRef interface{}
		if iq := world.InjectUnionTypename(q, c.Spec, "__inj"); iq != nil {
			injRef = (&world.Ref{S: c.Spec, Q: iq}).Eval()
		}
		st := qstat{services: map[string]bool{}}
		for rep := 0; rep < 3; rep++ {
			mu.Lock()
			n0 := len(reqLog)
			mu.Unlock()
			pq, err := graphql.Parse(text, copyVals(q.Values))
			if err != nil {
				return nil, "harness-parse", fmt.Errorf("harness: %v\n%s", err, text)
			}
			var got interface{}
			var gerr error
			func() {
				defer func() {
					if r := recover(); r != nil {
						gerr = fmt.Errorf("PANIC in gateway: %v", r)
					}
				}()
				got, _, gerr = gw.Execute(context.Background(), pq, nil)
			}()
			if gerr != nil {
				return nil, "gateway-error", fmt.Errorf("the gateway failed a query the monolith answers: %v\nquery:\n%s\npartition: %v", gerr, text, c.Partition.Fields)
			}
			ir := injRef
			if !tolerateInjected {
				ir = nil
			}
			g, same, injected := sameModuloInjected(got, wantS, ir)
			if injected {
				rec.Excluded("gateway-injects-typename")
			}
			if same {
				g = wantS
			}
			if g != wantS {
				return nil, "mismatch", fmt.Errorf("gateway result differs from the monolith (run %d):\n gateway  %s\n monolith %s\nquery:\n%s\nvars: %v\npartition: %v keys: %v", rep, g, wantS, text, q.Values, c.Partition.Fields, c.Partition.Keys)
			}
			mu.Lock()
			reqs := append([]recorded{}, reqLog[n0:]...)
			mu.Unlock()
			for _, r := range reqs {
				if isIntrospection(r.query) {
					continue
				}
				st.services[r.service] = true
				if rep == 0 {
					st.requests++
				}
				rootT := "Query"
				if r.query.Kind == "mutation" {
					rootT = "Mutation"
				}
				if err := checkSubQuery(c, r.service, rootT, r.query.SelectionSet); err != nil {
					return nil, "subquery-leak", fmt.Errorf("%v\nquery:\n%s", err, text)
				}
			}
		}
		stats = append(stats, st)
	}
	return stats, "", nil
}

func genModes(t *rapid.T, s *world.Spec) world.Modes {
	m := world.Modes{}
	for _, o := range s.Objects {
		for _, f := range o.Fields {
			kinds := []string{"plain", "plain", "expensive", "batch"}
			if o.Type == "Query" || o.Type == "Mutation" {
				kinds = []string{"plain", "expensive"}
			}
			m[o.Type+"."+f.Name] = world.Mode{Kind: rapid.SampledFrom(kinds).Draw(t, "mode"), Ctx: true, K: -100}
		}
	}
	return m
}

func genCase(t *rapid.T, dirs bool) (Case, []world.Features) {
	s := world.GenFedSpec(t)
	c := Case{Spec: s, Partition: world.GenPartition(t, s), Modes: genModes(t, s)}
	var feats []world.Features
	for i := 0; i < 4; i++ {
		// one query in four is a mutation: its root field runs on one service, the fields of the
		// object it returns may live on others
		q, f := world.GenQuery(t, s, world.GenOpts{MaxDepth: 4, Directives: dirs, Mutation: rapid.IntRange(0, 3).Draw(t, "mutation") == 0, UnionTypenameAlways: rapid.Bool().Draw(t, "utn"), UncoveredUnion: rapid.Bool().Draw(t, "uncov"), FragOnUnion: rapid.Bool().Draw(t, "fragonunion")})
		c.Queries = append(c.Queries, q)
		c.Texts = append(c.Texts, q.Text())
		feats = append(feats, f)
	}
	return c, feats
}

func run(t interface{ Fatalf(string, ...interface{}) }, test string, c Case, feats []world.Features) {
	stats, sig, err := check(c)
	if err != nil {
		p := rec.Violate(test, c, sig+": "+err.Error())
		t.Fatalf("%s: %v (replay %s)", sig, err, p)
	}
	sb, _ := json.Marshal(c.Spec)
	pb, _ := json.Marshal(c.Partition)
	for i, st := range stats {
		var f world.Features
		if i < len(feats) {
			f = feats[i]
		}
		cls := map[string]bool{">=2services": len(st.services) >= 2, "merged-alias": f.MergedAlias > 0, "union": f.UnionFields > 0, ">=3subqueries": st.requests >= 3, "spread-twice": f.SpreadTwice > 0, "directives": f.Directives > 0, "mutation": i < len(c.Queries) && c.Queries[i].Kind == "mutation"}
		var labels []string
		for k, v := range cls {
			if v {
				labels = append(labels, k)
			}
		}
		sort.Strings(labels)
		nt := cls[">=2services"] && (cls["merged-alias"] || cls["union"] || cls[">=3subqueries"])
		rec.Case(string(sb)+string(pb)+c.Texts[i], nt, labels...)
		if nt {
			rec.Sample(strings.Join(labels, "+"), map[string]interface{}{"query": c.Texts[i], "partition": c.Partition.Fields, "sub_queries": st.requests})
		}
	}
}

func TestTransparent(t *testing.T) {
	rapid.Check(t, func(t *rapid.T) { c, f := genCase(t, false); run(t, "TestTransparent", c, f) })
}

func TestReplay(t *testing.T) {
	p := os.Getenv("VERIF_REPLAY")
	if p == "" {
		t.Skip("no VERIF_REPLAY")
	}
	var c Case
	if _, err := ev.LoadReplay(p, &c); err != nil {
		t.Fatalf("harness: cannot load replay: %v", err)
	}
	if c.Cancel != nil {
		for i := 0; i < 10; i++ {
			runCancelled(t, "TestReplay", c)
		}
		return
	}
	for i := 0; i < 3; i++ {
		run(t, "TestReplay", c, nil)
	}
}

// TestDirectivesGateway is the federation leg of C19: annotated queries through the gateway.
func TestDirectivesGateway(t *testing.T) {
	rapid.Check(t, func(t *rapid.T) { c, f := genCase(t, true); run(t, "TestDirectivesGateway", c, f) })
}

// TestConcurrentRefresh: worker goroutines execute queries while the gateway refreshes its
// schema (verif hook performing one iteration of poll's refresh). Results must stay equal to
// the monolith; with -race (thorough tier) unsynchronised access becomes a report.
func TestConcurrentRefresh(t *testing.T) {
	rapid.Check(t, func(t *rapid.T) {
		c, _ := genCase(t, false)
		mono, err := world.Bind(c.Spec, c.Modes)
		if err != nil {
			t.Fatalf("harness: %v", err)
		}
		svcs, err := world.BindFed(c.Spec, c.Partition, c.Modes)
		if err != nil {
			t.Fatalf("harness: %v", err)
		}
		execs := map[string]federation.ExecutorClient{}
		for _, s := range svcs {
			srv, _ := federation.NewServer(s.Schema)
			execs[s.Name] = &federation.DirectExecutorClient{Client: srv}
		}
		ctx, cancel := context.WithCancel(context.Background())
		defer cancel()
		gw, err := federation.NewExecutor(ctx, execs, &federation.SchemaSyncerConfig{SchemaSyncer: federation.NewIntrospectionSchemaSyncer(ctx, execs, nil)})
		if err != nil {
			t.Fatalf("harness: gateway: %v", err)
		}
		wants := make([]string, len(c.Queries))
		injRefs := make([]interface{}, len(c.Queries))
		for i, q := range c.Queries {
			w, err := mono.Run(context.Background(), c.Texts[i], copyVals(q.Values), sched.New("goroutine", 0), false)
			if err != nil {
				t.Fatalf("harness: monolith: %v", err)
			}
			wants[i] = strip(w)
			injRefs[i] = (&world.Ref{S: c.Spec, Q: world.InjectUnionTypename(q, c.Spec, "__inj")}).Eval()
		}
		stop := make(chan struct{})
		var wg sync.WaitGroup
		var mu sync.Mutex
		var failure string
		wg.Add(1)
		go func() {
			defer wg.Done()
			for i := 0; i < 6; i++ {
				select {
				case <-stop:
					return
				default:
				}
				if err := gw.VerifSyncNow(ctx); err != nil {
					mu.Lock()
					failure = "refresh failed: " + err.Error()
					mu.Unlock()
				}
			}
		}()
		for w := 0; w < 4; w++ {
			wg.Add(1)
			go func(w int) {
				defer wg.Done()
				defer func() {
					if r := recover(); r != nil {
						mu.Lock()
						failure = fmt.Sprintf("panic in gateway during refresh: %v", r)
						mu.Unlock()
					}
				}()
				for k := 0; k < 12; k++ {
					i := (w + k) % len(c.Queries)
					pq, _ := graphql.Parse(c.Texts[i], copyVals(c.Queries[i].Values))
					got, _, err := gw.Execute(context.Background(), pq, nil)
					mu.Lock()
					if err != nil && failure == "" {
						failure = fmt.Sprintf("gateway failed during refresh: %v\n%s", err, c.Texts[i])
					} else if _, same, _ := sameModuloInjected(got, wants[i], injRefs[i]); err == nil && !same && failure == "" {
						failure = fmt.Sprintf("gateway result during refresh differs:\n got  %s\n want %s\n%s", strip(got), wants[i], c.Texts[i])
					}
					mu.Unlock()
				}
			}(w)
		}
		wg.Wait()
		close(stop)
		if failure != "" {
			p := rec.Violate("TestConcurrentRefresh", c, failure)
			t.Fatalf("%s (replay %s)", failure, p)
		}
		sb, _ := json.Marshal(c.Spec)
		pb, _ := json.Marshal(c.Partition)
		rec.Case("refresh"+string(sb)+string(pb), true, "concurrent-refresh")
	})
}

// TestKnownTypename pins the known, unrepaired finding: the planner injects __typename into
// every union selection and the gateway leaves it in the response.
func TestKnownTypename(t *testing.T) {
	s := world.GenFedSpecFixed()
	part := &world.FedPartition{Services: []string{"s1", "s2"}, Fields: map[string][]string{}, Keys: map[string]string{}}
	for _, o := range s.Objects {
		for i, f := range o.Fields {
			part.Fields[o.Type+"."+f.Name] = []string{[]string{"s1", "s2"}[i%2]}
		}
	}
	for _, svc := range part.Services {
		for _, o := range []string{"F1", "F2", "F_3"} {
			part.Keys[svc+"/"+o] = "id"
		}
	}
	q := &world.Query{Sels: []world.Sel{world.Fld("allF1", world.Fld("f3", world.Inl("F1", world.Fld("id")), world.Inl("F2", world.Fld("label")))), world.Fld("allFU", world.Inl("F1", world.Fld("id")))}}
	c := Case{Spec: s, Partition: part, Modes: world.Modes{}, Queries: []*world.Query{q}, Texts: []string{q.Text()}}
	_, sig, err := checkWith(c, false)
	if err == nil {
		return // the finding is gone
	}
	const known = "gateway-injects-typename"
	if sig == "mismatch" && strings.Contains(err.Error(), `"__typename"`) && ev.IsKnown("C06", known) {
		rec.KnownSeen(known, "the gateway response contains a __typename the query did not select under a union: { allF1 { f3 { ... on F1 { id } ... on F2 { label } } } }")
		rec.Case("known-typename", true, "known-finding")
		return
	}
	p := rec.Violate("TestKnownTypename", c, sig+": "+err.Error())
	t.Fatalf("%s: %v (replay %s)", sig, err, p)
}

// TestSiblingHops: several sub-queries hop away from the same (long) list of objects to
// different services. The gateway stitches the answer of one sub-query into those objects
// while it may still be reading them for the next one; results must equal the monolith and,
// in the -race binary, no unsynchronised access may be reported.
func TestSiblingHops(t *testing.T) {
	s := world.GenFedSpecFixed()
	for i := range s.Objects[0].Fields {
		if s.Objects[0].Fields[i].Name == "allF1" {
			s.Objects[0].Fields[i].MaxLen = 6
		}
	}
	part := &world.FedPartition{Services: []string{"s1", "s2", "s3"}, Fields: map[string][]string{}, Keys: map[string]string{}}
	for _, o := range s.Objects {
		for i, f := range o.Fields {
			svc := "s1"
			if o.Type != "Query" {
				svc = []string{"s2", "s3", "s2", "s3"}[i%4]
			}
			part.Fields[o.Type+"."+f.Name] = []string{svc}
		}
	}
	for _, svc := range part.Services {
		for _, o := range []string{"F1", "F2", "F_3"} {
			part.Keys[svc+"/"+o] = "id"
		}
	}
	F := world.Fld
	q := &world.Query{Sels: []world.Sel{F("allF1", F("id"), F("f1", F("id")), F("f2", F("id")), F("f3", F("__typename"), world.Inl("F1", F("id"))))}}
	c := Case{Spec: s, Partition: part, Modes: world.Modes{}, Queries: []*world.Query{q}, Texts: []string{q.Text()}}
	// once through check (sub-query oracle, request log) ...
	stats, sig, err := check(c)
	if err != nil {
		p := rec.Violate("TestSiblingHops", c, sig+": "+err.Error())
		t.Fatalf("%s: %v (replay %s)", sig, err, p)
	}
	rec.Case("sibling-hops-logged", len(stats) > 0 && stats[0].requests >= 3, "sibling-hops")
	// ... and several times without the recording client, whose lock orders the services'
	// goroutines and would hide unsynchronised access from the race detector
	mono, err := world.Bind(c.Spec, c.Modes)
	if err != nil {
		t.Fatalf("harness: %v", err)
	}
	svcs, err := world.BindFed(c.Spec, c.Partition, c.Modes)
	if err != nil {
		t.Fatalf("harness: %v", err)
	}
	execs := map[string]federation.ExecutorClient{}
	for _, sv := range svcs {
		srv, _ := federation.NewServer(sv.Schema)
		execs[sv.Name] = &federation.DirectExecutorClient{Client: srv}
	}
	ctx, cancel := context.WithCancel(context.Background())
	defer cancel()
	gw, err := federation.NewExecutor(ctx, execs, &federation.SchemaSyncerConfig{SchemaSyncer: federation.NewIntrospectionSchemaSyncer(ctx, execs, nil)})
	if err != nil {
		t.Fatalf("harness: gateway: %v", err)
	}
	want, err := mono.Run(context.Background(), q.Text(), map[string]interface{}{}, sched.New("goroutine", 0), false)
	if err != nil {
		t.Fatalf("harness: monolith: %v", err)
	}
	// hook H7: after a sub-plan has been launched the launching goroutine waits, so that the
	// sub-plan's answer is stitched in before the next sub-plan's keys are read
	var yielding int32 = 1
	federation.VerifYield = func(site string) {
		if site == "execute.subPlanLaunched" && atomic.LoadInt32(&yielding) == 1 {
			time.Sleep(3 * time.Millisecond)
		}
	}
	defer atomic.StoreInt32(&yielding, 0)
	for rep := 0; rep < 15; rep++ {
		pq, _ := graphql.Parse(q.Text(), map[string]interface{}{})
		got, _, err := gw.Execute(context.Background(), pq, nil)
		if err != nil || strip(got) != strip(want) {
			p := rec.Violate("TestSiblingHops", c, fmt.Sprintf("gateway differs from the monolith: err=%v", err))
			t.Fatalf("gateway differs from the monolith: %v (replay %s)", err, p)
		}
		rec.Case(fmt.Sprintf("sibling-hops-%d", rep), true, "sibling-hops")
	}
}
