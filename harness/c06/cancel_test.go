package c06

import (
	"context"
	"fmt"
	"sync/atomic"
	"testing"
	"time"

	"github.com/samsarahq/thunder/federation"
	"github.com/samsarahq/thunder/graphql"
	"pgregory.net/rapid"

	"verifharness/sched"
	"verifharness/world"
)

// A request whose context ends while the gateway is at work (client gone, deadline): like a
// single server, the gateway either fails the request or - when everything was already in -
// answers it in full. A well-formed answer with the fields of an interrupted hop missing and
// no error is not what one combined server returns.

type CancelPlan struct {
	Query  int    `json:"query"`
	At     int    `json:"at"`   // the at-th sub-query of the request (1-based)
	Mode   string `json:"mode"` // before | during | after the service call
	Honour bool   `json:"honour"`
	LagUs  int    `json:"lag_us"` // every other sub-query takes this long
}

type cancellingClient struct {
	inner   federation.ExecutorClient
	counter *int32
	plan    *CancelPlan
	armed   *int32
	cancel  *atomic.Value // context.CancelFunc of the current request
	hit     *int32
}

func (c *cancellingClient) Execute(ctx context.Context, req *federation.QueryRequest) (*federation.QueryResponse, error) {
	if atomic.LoadInt32(c.armed) == 0 {
		return c.inner.Execute(ctx, req)
	}
	n := int(atomic.AddInt32(c.counter, 1))
	cancel := c.cancel.Load().(context.CancelFunc)
	if n == c.plan.At {
		atomic.StoreInt32(c.hit, 1)
		switch c.plan.Mode {
		case "before":
			cancel()
		case "during":
			// the call is in flight when the context ends; the client gives up
			cancel()
			return nil, ctx.Err()
		}
	} else if c.plan.LagUs > 0 {
		time.Sleep(time.Duration(c.plan.LagUs) * time.Microsecond)
	}
	if c.plan.Honour && ctx.Err() != nil {
		return nil, ctx.Err()
	}
	resp, err := c.inner.Execute(ctx, req)
	if n == c.plan.At && c.plan.Mode == "after" {
		cancel()
	}
	return resp, err
}

func checkCancelled(c Case) (label string, nt bool, sig string, err error) {
	plan := c.Cancel
	mono, err := world.Bind(c.Spec, c.Modes)
	if err != nil {
		return "", false, "harness-bind", fmt.Errorf("harness: monolith: %v", err)
	}
	svcs, err := world.BindFed(c.Spec, c.Partition, c.Modes)
	if err != nil {
		return "", false, "harness-bind", fmt.Errorf("harness: services: %v", err)
	}
	var counter, armed, hit int32
	var cancelV atomic.Value
	execs := map[string]federation.ExecutorClient{}
	for _, s := range svcs {
		srv, err := federation.NewServer(s.Schema)
		if err != nil {
			return "", false, "harness", fmt.Errorf("harness: NewServer: %v", err)
		}
		execs[s.Name] = &cancellingClient{inner: &federation.DirectExecutorClient{Client: srv}, counter: &counter, plan: plan, armed: &armed, cancel: &cancelV, hit: &hit}
	}
	setup, stop := context.WithCancel(context.Background())
	defer stop()
	gw, err := federation.NewExecutor(setup, execs, &federation.SchemaSyncerConfig{SchemaSyncer: federation.NewIntrospectionSchemaSyncer(setup, execs, nil)})
	if err != nil {
		return "", false, "gateway-build", fmt.Errorf("the gateway does not build: %v", err)
	}
	q, text := c.Queries[plan.Query%len(c.Queries)], c.Texts[plan.Query%len(c.Texts)]
	want, err := mono.Run(context.Background(), text, copyVals(q.Values), sched.New("goroutine", 0), false)
	if err != nil {
		return "", false, "harness-mono", fmt.Errorf("harness: monolith failed: %v\n%s", err, text)
	}
	wantS := strip(want)
	var injRef interface{}
	if iq := world.InjectUnionTypename(q, c.Spec, "__inj"); iq != nil {
		injRef = (&world.Ref{S: c.Spec, Q: iq}).Eval()
	}
	pq, err := graphql.Parse(text, copyVals(q.Values))
	if err != nil {
		return "", false, "harness-parse", fmt.Errorf("harness: %v\n%s", err, text)
	}
	ctx, cancel := context.WithCancel(context.Background())
	defer cancel()
	cancelV.Store(cancel)
	atomic.StoreInt32(&armed, 1)
	type out struct {
		got interface{}
		err error
	}
	done := make(chan out, 1)
	go func() {
		var o out
		defer func() {
			if r := recover(); r != nil {
				o.err = fmt.Errorf("PANIC in gateway: %v", r)
			}
			done <- o
		}()
		o.got, _, o.err = gw.Execute(ctx, pq, nil)
	}()
	var o out
	select {
	case o = <-done:
	case <-time.After(10 * time.Second):
		return "", false, "hang", fmt.Errorf("the gateway does not return within 10s (context cancelled at sub-query %d, %s)\n%s", plan.At, plan.Mode, text)
	}
	atomic.StoreInt32(&armed, 0)
	reached := atomic.LoadInt32(&hit) == 1
	if o.err != nil {
		if len(o.err.Error()) > 5 && o.err.Error()[:5] == "PANIC" {
			return "", false, "panic", o.err
		}
		if !reached {
			return "", false, "gateway-error", fmt.Errorf("the gateway failed a query the monolith answers although its context was never cancelled: %v\n%s", o.err, text)
		}
		return "cancelled:error", true, "", nil
	}
	if g, same, injected := sameModuloInjected(o.got, wantS, injRef); !same {
		return "", false, "partial-answer", fmt.Errorf("the gateway answered without error, but not what one combined server answers (request context cancelled %s sub-query %d of %d, client honours ctx: %v):\n gateway  %s\n monolith %s\nquery:\n%s\npartition: %v", plan.Mode, plan.At, atomic.LoadInt32(&counter), plan.Honour, g, wantS, text, c.Partition.Fields)
	} else if injected {
		rec.Excluded("gateway-injects-typename")
	}
	if reached {
		return "cancelled:complete", true, "", nil
	}
	return "not-reached", false, "", nil
}

func genCancelCase(t *rapid.T) Case {
	s := world.GenFedSpec(t)
	c := Case{Spec: s, Partition: world.GenPartition(t, s), Modes: genModes(t, s)}
	q, _ := world.GenQuery(t, s, world.GenOpts{MaxDepth: 4, UnionTypenameAlways: rapid.Bool().Draw(t, "utn"), FragOnUnion: rapid.Bool().Draw(t, "fragonunion")})
	c.Queries = append(c.Queries, q)
	c.Texts = append(c.Texts, q.Text())
	c.Cancel = &CancelPlan{At: rapid.IntRange(1, 5).Draw(t, "at"), Mode: rapid.SampledFrom([]string{"before", "during", "during", "after"}).Draw(t, "mode"), Honour: rapid.Bool().Draw(t, "honour"), LagUs: rapid.SampledFrom([]int{0, 0, 200, 1000}).Draw(t, "lag")}
	return c
}

func runCancelled(t interface{ Fatalf(string, ...interface{}) }, test string, c Case) {
	label, nt, sig, err := checkCancelled(c)
	if err != nil {
		p := rec.Violate(test, c, sig+": "+err.Error())
		t.Fatalf("%s: %v (replay %s)", sig, err, p)
	}
	rec.Case(fmt.Sprintf("cancel%+v", *c.Cancel)+c.Texts[0]+fmt.Sprint(c.Partition.Fields), nt, "request-cancelled", label, "mode:"+c.Cancel.Mode)
	if nt {
		rec.Sample("request-"+label, map[string]interface{}{"query": c.Texts[0], "plan": c.Cancel, "partition": c.Partition.Fields})
	}
}

func TestCancelledRequest(t *testing.T) {
	rapid.Check(t, func(t *rapid.T) { runCancelled(t, "TestCancelledRequest", genCancelCase(t)) })
}
