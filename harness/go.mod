module verifharness

go 1.23

require (
	github.com/samsarahq/thunder v0.0.0
	pgregory.net/rapid v1.3.0
)

replace github.com/samsarahq/thunder => /repo
