// Package fakesock implements graphql.JSONSocket in memory and a client model that folds
// update deltas with the reference applier (not with thunder's merge).
package fakesock

import (
	"encoding/json"
	"errors"
	"sync"
	"time"

	"github.com/gorilla/websocket"

	jv "verifharness/jsonval"
)

type Out struct {
	Seq  int
	Raw  []byte
	ID   string
	Type string
	Msg  interface{} // decoded message (float64 numbers)
	HasMsg bool
	At   time.Time
}

type Socket struct {
	mu     sync.Mutex
	cond   *sync.Cond
	in     [][]byte
	closed bool
	out    []Out
	WriteErr error // if set, WriteJSON fails with it
	// failUpdate: the next envelope of type "update" is not written; WriteJSON returns this
	// error for it (the way a real socket reports a value it cannot encode)
	failUpdate error
	// FailedUpdates counts envelopes refused that way
	FailedUpdates int
}

// FailNextUpdate makes the write of the next "update" envelope fail with err.
func (s *Socket) FailNextUpdate(err error) {
	s.mu.Lock()
	s.failUpdate = err
	s.mu.Unlock()
}

// Failed reports how many update envelopes were refused by FailNextUpdate.
func (s *Socket) Failed() int { s.mu.Lock(); defer s.mu.Unlock(); return s.FailedUpdates }

func New() *Socket {
	s := &Socket{}
	s.cond = sync.NewCond(&s.mu)
	return s
}

// Send queues raw bytes as the next client frame.
func (s *Socket) Send(raw []byte) {
	s.mu.Lock()
	s.in = append(s.in, raw)
	s.cond.Broadcast()
	s.mu.Unlock()
}

// SendEnvelope queues {"id","type","message"}.
func (s *Socket) SendEnvelope(id, typ string, msg interface{}) {
	m := map[string]interface{}{"id": id, "type": typ}
	if msg != nil {
		m["message"] = msg
	}
	b, _ := json.Marshal(m)
	s.Send(b)
}

func (s *Socket) ReadJSON(v interface{}) error {
	s.mu.Lock()
	for len(s.in) == 0 && !s.closed {
		s.cond.Wait()
	}
	if len(s.in) == 0 && s.closed {
		s.mu.Unlock()
		return &websocket.CloseError{Code: websocket.CloseNormalClosure, Text: "closed"}
	}
	raw := s.in[0]
	s.in = s.in[1:]
	s.mu.Unlock()
	return json.Unmarshal(raw, v)
}

func (s *Socket) WriteJSON(v interface{}) error {
	b, err := json.Marshal(v)
	if err != nil {
		return err
	}
	s.mu.Lock()
	defer s.mu.Unlock()
	if s.closed {
		return websocket.ErrCloseSent
	}
	if s.WriteErr != nil {
		return s.WriteErr
	}
	var env struct {
		ID      string          `json:"id"`
		Type    string          `json:"type"`
		Message json.RawMessage `json:"message"`
	}
	json.Unmarshal(b, &env)
	if s.failUpdate != nil && env.Type == "update" {
		err := s.failUpdate
		s.failUpdate = nil
		s.FailedUpdates++
		return err
	}
	o := Out{Seq: len(s.out), Raw: b, ID: env.ID, Type: env.Type, At: time.Now()}
	if len(env.Message) > 0 {
		o.HasMsg = true
		json.Unmarshal(env.Message, &o.Msg)
	}
	s.out = append(s.out, o)
	s.cond.Broadcast()
	return nil
}

func (s *Socket) Close() error {
	s.mu.Lock()
	s.closed = true
	s.cond.Broadcast()
	s.mu.Unlock()
	return nil
}

func (s *Socket) Closed() bool { s.mu.Lock(); defer s.mu.Unlock(); return s.closed }

// Outs returns a snapshot of everything written so far.
func (s *Socket) Outs() []Out {
	s.mu.Lock()
	defer s.mu.Unlock()
	return append([]Out(nil), s.out...)
}

func (s *Socket) NOut() int { s.mu.Lock(); defer s.mu.Unlock(); return len(s.out) }

// WaitFor waits until pred holds over the written envelopes, or the timeout expires.
func (s *Socket) WaitFor(timeout time.Duration, pred func([]Out) bool) bool {
	deadline := time.Now().Add(timeout)
	s.mu.Lock()
	defer s.mu.Unlock()
	for {
		if pred(s.out) {
			return true
		}
		if time.Now().After(deadline) || s.closed {
			return pred(s.out)
		}
		// cond has no timed wait: poll
		s.mu.Unlock()
		time.Sleep(200 * time.Microsecond)
		s.mu.Lock()
	}
}

// Echo sends an echo with a fresh id and waits for its reply: a barrier, since the
// server handles frames sequentially.
func (s *Socket) Echo(id string, timeout time.Duration) bool {
	s.SendEnvelope(id, "echo", nil)
	return s.WaitFor(timeout, func(outs []Out) bool {
		for i := len(outs) - 1; i >= 0; i-- {
			if outs[i].Type == "echo" && outs[i].ID == id {
				return true
			}
		}
		return false
	})
}

// Client folds update messages per subscription id with the reference applier.
type Client struct {
	State map[string]interface{}
	Has   map[string]bool
}

func NewClient() *Client { return &Client{State: map[string]interface{}{}, Has: map[string]bool{}} }

var ErrFormat = errors.New("delta not applicable")

// Apply folds one update envelope.
func (c *Client) Apply(o Out) error {
	if o.Type != "update" && o.Type != "result" {
		return nil
	}
	var prev interface{} = jv.Absent
	if c.Has[o.ID] {
		prev = c.State[o.ID]
	}
	if !o.HasMsg {
		return errors.New("update without message")
	}
	if m, ok := o.Msg.(map[string]interface{}); ok && len(m) == 0 && c.Has[o.ID] {
		return nil // empty diff
	}
	nv, err := jv.RefApply(prev, o.Msg)
	if err != nil {
		return err
	}
	c.State[o.ID] = nv
	c.Has[o.ID] = true
	return nil
}
