package c19

import (
	"context"
	"encoding/json"
	"fmt"
	"os"
	"sort"
	"strings"
	"testing"

	"pgregory.net/rapid"

	"verifharness/ev"
	jv "verifharness/jsonval"
	"verifharness/sched"
	"verifharness/world"
)

var rec = ev.New("C19",
	"cases: generated spec x generated valid query annotated with @skip/@include (literal or variable conditions with defaults) on fields, inline fragments and spreads; oracle: thunder(annotated) == thunder(pruned) == reference(pruned), where pruned deletes excluded nodes and all directives on the harness AST; non-trivial = >=2 directives with different truth values and one of: a fragment spread twice with different conditions, both directives on one node, a conditional copy of a duplicated alias, a directive under a union; distinct = hash of (spec, query text, variable values)",
	"conditions are booleans; every selection set keeps one unconditional leaf so pruning never yields an empty selection set")

func TestMain(m *testing.M) { code := m.Run(); rec.Flush(); os.Exit(code) }

type Case struct {
	Spec   *world.Spec  `json:"spec"`
	Query  *world.Query `json:"query"`
	Modes  world.Modes  `json:"modes"`
	Sched  string       `json:"sched"`
	Text   string       `json:"text"`
	Pruned string       `json:"pruned_text"`
}

func copyVals(m map[string]interface{}) map[string]interface{} {
	b, _ := json.Marshal(m)
	var out map[string]interface{}
	json.Unmarshal(b, &out)
	if out == nil {
		out = map[string]interface{}{}
	}
	return out
}

func truthValues(q *world.Query) (nTrue, nFalse int) {
	var walk func([]world.Sel)
	seen := map[string]bool{}
	walk = func(ss []world.Sel) {
		for _, s := range ss {
			for _, d := range s.Dirs {
				v := false
				if d.Var != "" {
					v, _ = q.VarValue(d.Var).(bool)
				} else {
					v = *d.Lit
				}
				if v {
					nTrue++
				} else {
					nFalse++
				}
			}
			if s.Kind == "spread" && !seen[s.Frag] {
				seen[s.Frag] = true
				if f := q.Frag(s.Frag); f != nil {
					walk(f.Sels)
				}
			}
			walk(s.Sub)
		}
	}
	walk(q.Sels)
	return
}

func check(c Case) (sig string, err error) {
	pruned := world.Prune(c.Query)
	if world.HasEmptySelection(pruned) {
		return "harness-empty", fmt.Errorf("harness: pruning produced an empty selection set:\n%s", c.Query.Text())
	}
	refP := jv.Canon((&world.Ref{S: c.Spec, Q: pruned}).Eval())
	refA := jv.Canon((&world.Ref{S: c.Spec, Q: c.Query}).Eval())
	if refP != refA {
		return "harness-ref", fmt.Errorf("harness: reference interpreter disagrees with itself on pruned vs annotated:\n%s\n%s\n%s", c.Query.Text(), refA, refP)
	}
	b, err := world.Bind(c.Spec, c.Modes)
	if err != nil {
		return "harness-bind", fmt.Errorf("harness: %v", err)
	}
	text, ptext := c.Query.Text(), pruned.Text()
	resP, err := b.Run(context.Background(), ptext, copyVals(pruned.Values), sched.New(c.Sched, 1), false)
	if err != nil {
		return "pruned-error", fmt.Errorf("pruned query failed: %v\n%s", err, ptext)
	}
	if got := jv.Canon(resP); got != refP {
		return "pruned-mismatch", fmt.Errorf("pruned query (no directives) differs from the reference (a C01 matter):\n got  %s\n want %s\n%s", got, refP, ptext)
	}
	resA, err := b.Run(context.Background(), text, copyVals(c.Query.Values), sched.New(c.Sched, 1), false)
	if err != nil {
		return "annotated-error", fmt.Errorf("annotated query failed: %v\n%s\nvars %v", err, text, c.Query.Values)
	}
	if got := jv.Canon(resA); got != refP {
		return "mismatch", fmt.Errorf("annotated query differs from pruned query:\n got  %s\n want %s\nannotated:\n%s\nvars: %v\npruned:\n%s", got, refP, text, c.Query.Values, ptext)
	}
	return "", nil
}

func genCase(t *rapid.T) (Case, world.Features) {
	s := world.GenSpec(t)
	q, feat := world.GenQuery(t, s, world.GenOpts{Directives: true, FragOnUnion: true})
	m := world.Modes{}
	for _, o := range s.Objects {
		for _, f := range o.Fields {
			kinds := []string{"plain", "expensive", "batch"}
			if o.Type == "Query" {
				kinds = []string{"plain", "expensive"}
			}
			m[o.Type+"."+f.Name] = world.Mode{Kind: rapid.SampledFrom(kinds).Draw(t, "mode"), Ctx: true, K: -100}
		}
	}
	c := Case{Spec: s, Query: q, Modes: m, Sched: rapid.SampledFrom(sched.Names).Draw(t, "sched"), Text: q.Text()}
	c.Pruned = world.Prune(q).Text()
	return c, feat
}

func run(t interface{ Fatalf(string, ...interface{}) }, test string, c Case, f world.Features) {
	sig, err := check(c)
	if err != nil {
		p := rec.Violate(test, c, sig+": "+err.Error())
		t.Fatalf("%s: %v (replay %s)", sig, err, p)
	}
	nT, nF := truthValues(c.Query)
	cls := map[string]bool{"spread-diff-conds": f.SpreadDiffConds > 0, "both-directives": f.DirBoth > 0, "dir-dup-alias": f.DirDupAlias > 0,
		"dir-under-union": f.DirUnderUnion > 0, "dir-on-union-frag": f.DirOnUnionFrag > 0, "dir-on-spread": f.DirOnSpread > 0, "mixed-truth": nT > 0 && nF > 0, "var-conditions": len(c.Query.Vars) > 0}
	var labels []string
	for k, v := range cls {
		if v {
			labels = append(labels, k)
		}
	}
	sort.Strings(labels)
	nt := nT > 0 && nF > 0 && (cls["spread-diff-conds"] || cls["both-directives"] || cls["dir-dup-alias"] || cls["dir-under-union"] || cls["dir-on-union-frag"])
	sb, _ := json.Marshal(c.Spec)
	vb, _ := json.Marshal(c.Query.Values)
	rec.Case(string(sb)+c.Text+string(vb), nt, labels...)
	if nt {
		rec.Sample(strings.Join(labels, "+"), map[string]interface{}{"annotated": c.Text, "vars": c.Query.Values, "pruned": c.Pruned})
	}
}

func TestDirectives(t *testing.T) { rapid.Check(t, propDirectives) }

func propDirectives(t *rapid.T) {
	c, f := genCase(t)
	run(t, "TestDirectives", c, f)
}

// FuzzDirectives: the same property driven by the coverage-guided engine (thorough tier).
func FuzzDirectives(f *testing.F) { f.Fuzz(rapid.MakeFuzz(propDirectives)) }

func TestReplay(t *testing.T) {
	p := os.Getenv("VERIF_REPLAY")
	if p == "" {
		t.Skip("no VERIF_REPLAY")
	}
	var c Case
	if _, err := ev.LoadReplay(p, &c); err != nil {
		t.Fatalf("harness: cannot load replay: %v", err)
	}
	run(t, "TestReplay", c, world.Features{})
}

func lit(name string, v bool) world.Dir { return world.Dir{Name: name, Lit: &v} }

// TestPinned: minimal inputs of the directive defects repaired in /repo.
func TestPinned(t *testing.T) {
	F, I, S := world.Fld, world.Inl, world.Spr
	s := world.BaseSpec()
	with := func(sel world.Sel, ds ...world.Dir) world.Sel { sel.Dirs = ds; return sel }
	frA := []world.FragDef{{Name: "FA", On: "O1", Sels: []world.Sel{F("name")}}}
	qs := []*world.Query{
		// both directives on one node (fixed 41e00a9)
		{Sels: []world.Sel{F("allO1", F("id"), with(F("name"), lit("skip", false), lit("include", false)))}},
		{Sels: []world.Sel{F("allO1", F("id"), with(F("name"), lit("include", true), lit("skip", true)))}},
		// same fragment spread twice with different conditions (fixed edb677b)
		{Sels: []world.Sel{F("allO1", F("id"), with(S("FA"), lit("skip", true))), with(F("allO1", S("FA")))}, Frags: frA},
		{Sels: []world.Sel{F("allO1", F("id"), S("FA")), F("allO1", F("id"), with(S("FA"), lit("include", false)))}, Frags: frA},
		// conditional copy of a duplicated alias (fixed c3928b6)
		{Sels: []world.Sel{F("allO1", F("id")), with(F("allO1", F("name")), lit("skip", true))}},
		{Sels: []world.Sel{F("allO1", with(F("name"), lit("skip", true)), F("name"), F("id"))}},
		// directives on union-member fragments (fixed 759d0a6)
		{Sels: []world.Sel{F("allU1", F("__typename"), with(I("O1", F("name")), lit("skip", true)), I("O1", F("id")), with(I("O2", F("label")), lit("include", false)))}},
		// directives on a fragment typed on the union itself, inline and as a named fragment spread twice
		{Sels: []world.Sel{F("allU1", F("__typename"), with(I("U1", I("O1", F("name")), I("O2", F("label"))), lit("skip", true)), I("O1", F("id")))}},
		{Sels: []world.Sel{F("allU1", F("__typename"), with(S("FU"), lit("include", false)), I("O1", F("id"))), F("allU2", F("__typename")), with(F("allU1", S("FU")), lit("skip", false))},
			Frags: []world.FragDef{{Name: "FU", On: "U1", Sels: []world.Sel{I("O1", F("name")), I("O2", F("label"))}}}},
	}
	for i, q := range qs {
		m := world.Modes{}
		c := Case{Spec: s, Query: q, Modes: m, Sched: sched.Names[i%len(sched.Names)], Text: q.Text(), Pruned: world.Prune(q).Text()}
		run(t, fmt.Sprintf("TestPinned-%d", i), c, world.Features{DirBoth: 1})
	}
}
