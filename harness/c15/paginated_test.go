package c15

import (
	"context"
	"fmt"
	"sync/atomic"
	"testing"
	"time"

	"github.com/samsarahq/thunder/batch"
	"github.com/samsarahq/thunder/graphql"
	"github.com/samsarahq/thunder/graphql/schemabuilder"
	"pgregory.net/rapid"
)

// Panicking resolvers in the helper fields of a thunder-managed paginated connection (text
// filter fields and sort fields, in every registration form): the request fails with an
// error; the panic must not escape on a goroutine of its own and take the process down.

type pgItem struct {
	Id   int64
	Name string
}

var pgPanicOn atomic.Value // name of the helper field whose resolver panics ("" = none)

func pgMaybePanic(name string) {
	if v, _ := pgPanicOn.Load().(string); v == name {
		panic("resolver of " + name + " failed")
	}
}

var pgHelpers = []string{"fplain", "fexp", "fbatch", "ffb", "splain", "sexp", "sbatch", "sfb"}

func paginatedSchema() *graphql.Schema {
	s := schemabuilder.NewSchema()
	obj := s.Object("PgItem", pgItem{})
	obj.Key("id")
	useBatch := func(ctx context.Context) bool { v, _ := ctx.Value(pgFallbackKey{}).(bool); return !v }
	s.Query().FieldFunc("items", func(ctx context.Context) ([]*pgItem, error) {
		var out []*pgItem
		for i := int64(0); i < 20; i++ {
			out = append(out, &pgItem{Id: i, Name: fmt.Sprintf("item %d apple", i)})
		}
		return out, nil
	}, schemabuilder.Paginated,
		schemabuilder.FilterField("fplain", func(i *pgItem) string { pgMaybePanic("fplain"); return i.Name }),
		schemabuilder.FilterField("fexp", func(ctx context.Context, i *pgItem) (string, error) { pgMaybePanic("fexp"); return i.Name, nil }, schemabuilder.Expensive),
		schemabuilder.BatchFilterField("fbatch", func(ctx context.Context, m map[batch.Index]*pgItem) (map[batch.Index]string, error) {
			pgMaybePanic("fbatch")
			out := map[batch.Index]string{}
			for k, v := range m {
				out[k] = v.Name
			}
			return out, nil
		}),
		schemabuilder.BatchFilterFieldWithFallback("ffb", func(ctx context.Context, m map[batch.Index]*pgItem) (map[batch.Index]string, error) {
			pgMaybePanic("ffb")
			out := map[batch.Index]string{}
			for k, v := range m {
				out[k] = v.Name
			}
			return out, nil
		}, func(ctx context.Context, i *pgItem) (string, error) { pgMaybePanic("ffb"); return i.Name, nil }, useBatch),
		schemabuilder.SortField("splain", func(i *pgItem) int64 { pgMaybePanic("splain"); return -i.Id }),
		schemabuilder.SortField("sexp", func(ctx context.Context, i *pgItem) (int64, error) { pgMaybePanic("sexp"); return -i.Id, nil }, schemabuilder.Expensive),
		schemabuilder.BatchSortField("sbatch", func(ctx context.Context, m map[batch.Index]*pgItem) (map[batch.Index]int64, error) {
			pgMaybePanic("sbatch")
			out := map[batch.Index]int64{}
			for k, v := range m {
				out[k] = -v.Id
			}
			return out, nil
		}),
		schemabuilder.BatchSortFieldWithFallback("sfb", func(ctx context.Context, m map[batch.Index]*pgItem) (map[batch.Index]int64, error) {
			pgMaybePanic("sfb")
			out := map[batch.Index]int64{}
			for k, v := range m {
				out[k] = -v.Id
			}
			return out, nil
		}, func(ctx context.Context, i *pgItem) (int64, error) { pgMaybePanic("sfb"); return -i.Id, nil }, useBatch),
	)
	return s.MustBuild()
}

type pgFallbackKey struct{}

func TestPanicPaginated(t *testing.T) {
	schema := paginatedSchema()
	rapid.Check(t, func(t *rapid.T) {
		helper := rapid.SampledFrom(pgHelpers).Draw(t, "helper")
		panics := rapid.IntRange(0, 3).Draw(t, "panics") > 0
		fallback := rapid.Bool().Draw(t, "fallback")
		args := fmt.Sprintf("first: %d", rapid.IntRange(1, 25).Draw(t, "first"))
		if helper[0] == 'f' {
			args += fmt.Sprintf(`, filterText: "apple", filterTextFields: [%q]`, helper)
		} else {
			args += fmt.Sprintf(`, sortBy: %q, sortOrder: %s`, helper, rapid.SampledFrom([]string{"asc", "desc"}).Draw(t, "order"))
		}
		text := "{ items(" + args + ") { totalCount edges { node { id } } } }"
		pgPanicOn.Store("")
		if panics {
			pgPanicOn.Store(helper)
		}
		cs := map[string]interface{}{"query": text, "panicking_helper": helper, "panics": panics, "fallback": fallback}
		q, err := graphql.Parse(text, map[string]interface{}{})
		if err != nil {
			t.Fatalf("harness: %v", err)
		}
		if err := graphql.PrepareQuery(context.Background(), schema.Query, q.SelectionSet); err != nil {
			t.Fatalf("harness: %v\n%s", err, text)
		}
		ctx := batch.WithBatching(context.WithValue(context.Background(), pgFallbackKey{}, fallback))
		type res struct {
			err error
			rec interface{}
		}
		done := make(chan res, 1)
		go func() {
			defer func() {
				if r := recover(); r != nil {
					done <- res{rec: r}
				}
			}()
			_, err := graphql.NewExecutor(graphql.NewImmediateGoroutineScheduler()).Execute(ctx, schema.Query, nil, q)
			done <- res{err: err}
		}()
		select {
		case r := <-done:
			if r.rec != nil {
				p := rec.Violate("TestPanicPaginated", cs, fmt.Sprintf("panic escaped Execute: %v", r.rec))
				t.Fatalf("panic escaped Execute: %v (replay %s)", r.rec, p)
			}
			if panics && r.err == nil {
				p := rec.Violate("TestPanicPaginated", cs, "a panicking helper resolver was swallowed: Execute returned data")
				t.Fatalf("the resolver of %s panicked but Execute returned no error (replay %s)", helper, p)
			}
			if !panics && r.err != nil {
				t.Fatalf("harness: healthy paginated query failed: %v\n%s", r.err, text)
			}
		case <-time.After(10 * time.Second):
			p := rec.Violate("TestPanicPaginated", cs, "Execute does not return within 10s")
			t.Fatalf("Execute does not return (replay %s)", p)
		}
		rec.Case(fmt.Sprint(cs), panics, "panic-paginated:"+helper)
		if panics {
			rec.Sample("panic-paginated", cs)
		}
	})
}
