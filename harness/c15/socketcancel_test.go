package c15

import (
	"context"
	"fmt"
	"sync/atomic"
	"testing"
	"time"

	"github.com/samsarahq/thunder/graphql"
	"pgregory.net/rapid"

	"verifharness/fakesock"
)

// Cancellation points of a websocket subscription: while one of its resolvers is running the
// client unsubscribes, goes away, or the server's context ends; the resolver then returns the
// way a context-watching resolver does (context.Canceled itself, an error wrapping it, or its
// normal value). Whatever the combination: the connection keeps answering (unless it was the
// connection that ended), other subscriptions are served, ServeJSONSocket returns promptly
// once the socket is closed, and no goroutine stays behind.
func TestSocketCancellation(t *testing.T) {
	pipeline(context.Background(), "{ allO1 { id } }", nil)
	rapid.Check(t, func(t *rapid.T) {
		target := rapid.SampledFrom(targets).Draw(t, "target")
		action := rapid.SampledFrom([]string{"unsubscribe", "unsubscribe", "close", "ctx-cancel", "none"}).Draw(t, "action")
		retKind := rapid.SampledFrom([]string{"canceled", "canceled", "wrapped", "value"}).Draw(t, "returns")
		lingerUs := rapid.SampledFrom([]int{0, 200, 2000}).Draw(t, "lingerus")
		// the resolver gives up only when its own context ends (a query or RPC that honours ctx),
		// with a 7s safety net so that a context that never ends shows up as a hang, not a wedge
		waitCtx := action != "none" && rapid.Bool().Draw(t, "waitctx")
		cs := map[string]interface{}{"target": target, "action": action, "resolver_returns": retKind, "linger_us": lingerUs, "resolver_waits_for_ctx": waitCtx, "query": queryFor(target)}
		base := goroutines()
		sock := fakesock.New()
		ctx, cancel := context.WithCancel(context.Background())
		defer cancel()
		conn := graphql.CreateConnection(ctx, sock, bound.Schema, graphql.WithMinRerunInterval(time.Millisecond))
		done := make(chan interface{}, 1)
		go func() {
			defer func() { done <- recover() }()
			conn.ServeJSONSocket()
		}()
		fail := func(msg string) {
			st := stacks()
			p := rec.Violate("TestSocketCancellation", map[string]interface{}{"case": cs, "stacks": st[:min(len(st), 8000)]}, msg)
			sock.Close()
			cancel()
			t.Fatalf("%s; case %v (replay %s)", msg, cs, p)
		}
		theGate.arm("", "", nil)
		defer theGate.arm("", "", nil)
		gotUpdate := func(id string, from int) bool {
			return sock.WaitFor(5*time.Second, func(outs []fakesock.Out) bool {
				for _, o := range outs[from:] {
					if o.ID == id && o.Type == "update" {
						return true
					}
				}
				return false
			})
		}
		sock.SendEnvelope("healthy", "subscribe", map[string]interface{}{"query": "{ allO3 { title } }", "variables": map[string]interface{}{}})
		if !gotUpdate("healthy", 0) {
			fail("a plain subscription got no first update")
		}
		var ret error
		switch retKind {
		case "canceled":
			ret = context.Canceled
		case "wrapped":
			ret = fmt.Errorf("lookup failed: %w", context.Canceled)
		}
		theGate.arm(target, "act", nil)
		theGate.mu.Lock()
		theGate.actErr = ret
		theGate.act = func(rctx context.Context) {
			if waitCtx && rctx != nil {
				defer func() {
					select {
					case <-rctx.Done():
					case <-time.After(7 * time.Second):
					}
				}()
			}
			switch action {
			case "unsubscribe":
				sock.SendEnvelope("s", "unsubscribe", nil)
			case "close":
				sock.Close()
			case "ctx-cancel":
				cancel()
			}
			time.Sleep(time.Duration(lingerUs) * time.Microsecond)
		}
		theGate.mu.Unlock()
		sock.SendEnvelope("s", "subscribe", map[string]interface{}{"query": queryFor(target), "variables": map[string]interface{}{}})
		reached := false
		for i := 0; i < 5000 && !reached; i++ {
			if atomic.LoadInt32(&theGate.hit) > 0 {
				reached = true
				break
			}
			time.Sleep(time.Millisecond)
		}
		if !reached {
			fail("harness: the armed resolver was never called")
		}
		if action == "unsubscribe" || action == "none" {
			if !sock.Echo("probe", 5*time.Second) {
				fail(fmt.Sprintf("the connection does not answer an echo within 5s after subscription \"s\" was %sd while its resolver %s was running and returned %s", action, target, retKind))
			}
			n0 := sock.NOut()
			sock.SendEnvelope("later", "subscribe", map[string]interface{}{"query": "{ allO3 { title } }", "variables": map[string]interface{}{}})
			if !gotUpdate("later", n0) {
				fail("a subscription made afterwards on the same connection is not served")
			}
		}
		sock.Close()
		select {
		case r := <-done:
			if r != nil {
				fail(fmt.Sprintf("ServeJSONSocket panicked: %v", r))
			}
		case <-time.After(5 * time.Second):
			fail(fmt.Sprintf("ServeJSONSocket does not return within 5s after the socket closed (subscription ended by %q while %s was running, resolver returned %s)", action, target, retKind))
		}
		cancel()
		if n, ok := settleGoroutines(base); !ok {
			fail(fmt.Sprintf("goroutines left behind: %d before, %d 3s after the connection ended", base, n))
		}
		lbl := ""
		if waitCtx {
			lbl = ":waits-for-ctx"
		}
		rec.Case(fmt.Sprint(cs), true, "socket-cancel:"+action+":"+retKind+lbl)
		rec.Sample("socket-cancel-"+action+"-"+retKind, cs)
	})
}
