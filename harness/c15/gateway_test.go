package c15

import (
	"context"
	"encoding/json"
	"fmt"
	"sync/atomic"
	"testing"
	"time"

	"github.com/samsarahq/thunder/federation"
	"github.com/samsarahq/thunder/graphql"
	"pgregory.net/rapid"

	"verifharness/world"
)

type cancelClient struct {
	inner   federation.ExecutorClient
	counter *int32
	at      int32
	after   bool
	cancel  context.CancelFunc
	hit     *int32
}

func (c *cancelClient) Execute(ctx context.Context, req *federation.QueryRequest) (*federation.QueryResponse, error) {
	n := atomic.AddInt32(c.counter, 1)
	if n == c.at && !c.after {
		atomic.StoreInt32(c.hit, 1)
		c.cancel()
	}
	resp, err := c.inner.Execute(ctx, req)
	if n == c.at && c.after {
		atomic.StoreInt32(c.hit, 1)
		c.cancel()
	}
	return resp, err
}

// TestGatewayCancellation: the federation gateway's Execute with its context cancelled
// before the call, at the k-th federated sub-query, or right after it.
func TestGatewayCancellation(t *testing.T) {
	rapid.Check(t, func(t *rapid.T) {
		s := world.GenFedSpec(t)
		part := world.GenPartition(t, s)
		svcs, err := world.BindFed(s, part, world.Modes{})
		if err != nil {
			t.Fatalf("harness: %v", err)
		}
		var counter, hit int32
		at := int32(rapid.IntRange(0, 6).Draw(t, "at")) // 0 = before the call
		after := rapid.Bool().Draw(t, "after")
		setup, stopSetup := context.WithCancel(context.Background())
		defer stopSetup()
		plain := map[string]federation.ExecutorClient{}
		for _, sv := range svcs {
			srv, _ := federation.NewServer(sv.Schema)
			plain[sv.Name] = &federation.DirectExecutorClient{Client: srv}
		}
		ctx, cancel := context.WithCancel(context.Background())
		defer cancel()
		execs := map[string]federation.ExecutorClient{}
		for name, cl := range plain {
			execs[name] = &cancelClient{inner: cl, counter: &counter, at: -1, cancel: cancel, hit: &hit}
		}
		gw, err := federation.NewExecutor(setup, execs, &federation.SchemaSyncerConfig{SchemaSyncer: federation.NewIntrospectionSchemaSyncer(setup, execs, nil)})
		if err != nil {
			t.Fatalf("harness: gateway: %v", err)
		}
		q, _ := world.GenQuery(t, s, world.GenOpts{MaxDepth: 4, UnionTypenameAlways: true})
		vb, _ := json.Marshal(q.Values)
		var vals map[string]interface{}
		json.Unmarshal(vb, &vals)
		if vals == nil {
			vals = map[string]interface{}{}
		}
		pq, err := graphql.Parse(q.Text(), vals)
		if err != nil {
			t.Fatalf("harness: %v", err)
		}
		time.Sleep(time.Millisecond)
		base := goroutines()
		atomic.StoreInt32(&counter, 0)
		for _, cl := range execs {
			if cc, ok := cl.(*cancelClient); ok {
				cc.at, cc.after = at, after
			}
		}
		if at == 0 {
			cancel()
		}
		done := make(chan interface{}, 1)
		go func() {
			defer func() { done <- recover() }()
			gw.Execute(ctx, pq, nil)
		}()
		cs := map[string]interface{}{"query": q.Text(), "cancel_at_subquery": at, "after": after, "partition": part.Fields}
		select {
		case r := <-done:
			if r != nil {
				p := rec.Violate("TestGatewayCancellation", cs, fmt.Sprintf("panic: %v", r))
				t.Fatalf("gateway panicked when cancelled: %v (replay %s)", r, p)
			}
		case <-time.After(5 * time.Second):
			st := stacks()
			p := rec.Violate("TestGatewayCancellation", map[string]interface{}{"case": cs, "stacks": st[:min(len(st), 6000)]}, "federation.Executor.Execute does not return within 5s after its context was cancelled")
			t.Fatalf("gateway Execute does not return within 5s after cancellation at sub-query %d (replay %s)", at, p)
		}
		cancel()
		if n, ok := settleGoroutines(base); !ok {
			st := stacks()
			p := rec.Violate("TestGatewayCancellation", map[string]interface{}{"case": cs, "stacks": st[:min(len(st), 8000)]}, fmt.Sprintf("goroutines left behind: %d before, %d after", base, n))
			t.Fatalf("goroutines left behind after a cancelled gateway request: %d before, %d after (replay %s)", base, n, p)
		}
		reached := at == 0 || atomic.LoadInt32(&hit) == 1
		rec.Case(fmt.Sprint(cs), reached, "cancel:gateway", fmt.Sprintf("reached=%v", reached))
		if reached {
			rec.Sample("cancel-gateway", cs)
		}
	})
}

// failClient: the at-th federated sub-query of a request fails at once; every other sub-query
// lingers for a moment, so that some are in flight when the failure happens. Once a sibling
// has failed, a sub-query in flight must see its context cancelled promptly.
type failClient struct {
	inner             federation.ExecutorClient
	counter           *int32
	at                int32
	failed            chan struct{}
	failOnce          *int32
	notCancelled      *int32
	inFlightAtFailure *int32
	inFlight          *int32
}

func (c *failClient) Execute(ctx context.Context, req *federation.QueryRequest) (*federation.QueryResponse, error) {
	n := atomic.AddInt32(c.counter, 1)
	if n == c.at {
		if atomic.CompareAndSwapInt32(c.failOnce, 0, 1) {
			atomic.StoreInt32(c.inFlightAtFailure, atomic.LoadInt32(c.inFlight))
			close(c.failed)
		}
		return nil, fmt.Errorf("injected sub-query failure")
	}
	atomic.AddInt32(c.inFlight, 1)
	defer atomic.AddInt32(c.inFlight, -1)
	select {
	case <-ctx.Done():
		return nil, ctx.Err()
	case <-c.failed:
		select {
		case <-ctx.Done():
			return nil, ctx.Err()
		case <-time.After(2 * time.Second):
			atomic.StoreInt32(c.notCancelled, 1)
			return nil, fmt.Errorf("harness: gave up waiting for cancellation")
		}
	case <-time.After(40 * time.Millisecond):
	}
	return c.inner.Execute(ctx, req)
}

// TestGatewaySiblingFailure: one federated sub-query fails while others are in flight.
func TestGatewaySiblingFailure(t *testing.T) {
	rapid.Check(t, func(t *rapid.T) {
		s := world.GenFedSpec(t)
		part := world.GenPartition(t, s)
		svcs, err := world.BindFed(s, part, world.Modes{})
		if err != nil {
			t.Fatalf("harness: %v", err)
		}
		var counter, failOnce, notCancelled, inFlight, inFlightAtFailure int32
		failed := make(chan struct{})
		at := int32(rapid.IntRange(1, 4).Draw(t, "at"))
		setup, stopSetup := context.WithCancel(context.Background())
		defer stopSetup()
		execs := map[string]federation.ExecutorClient{}
		var clients []*failClient
		for _, sv := range svcs {
			srv, _ := federation.NewServer(sv.Schema)
			fc := &failClient{inner: &federation.DirectExecutorClient{Client: srv}, counter: &counter, at: -1, failed: failed, failOnce: &failOnce, notCancelled: &notCancelled, inFlight: &inFlight, inFlightAtFailure: &inFlightAtFailure}
			clients = append(clients, fc)
			execs[sv.Name] = fc
		}
		gw, err := federation.NewExecutor(setup, execs, &federation.SchemaSyncerConfig{SchemaSyncer: federation.NewIntrospectionSchemaSyncer(setup, execs, nil)})
		if err != nil {
			t.Fatalf("harness: gateway: %v", err)
		}
		q, _ := world.GenQuery(t, s, world.GenOpts{MaxDepth: 3, UnionTypenameAlways: true})
		vb, _ := json.Marshal(q.Values)
		var vals map[string]interface{}
		json.Unmarshal(vb, &vals)
		if vals == nil {
			vals = map[string]interface{}{}
		}
		pq, err := graphql.Parse(q.Text(), vals)
		if err != nil {
			t.Fatalf("harness: %v", err)
		}
		time.Sleep(50 * time.Millisecond) // let the introspection sub-queries of the syncer pass
		atomic.StoreInt32(&counter, 0)
		for _, fc := range clients {
			fc.at = at
		}
		start := time.Now()
		done := make(chan error, 1)
		go func() {
			_, _, err := gw.Execute(context.Background(), pq, nil)
			done <- err
		}()
		cs := map[string]interface{}{"query": q.Text(), "fail_at_subquery": at, "partition": part.Fields}
		select {
		case <-done:
		case <-time.After(10 * time.Second):
			p := rec.Violate("TestGatewaySiblingFailure", cs, "federation.Executor.Execute does not return within 10s after a sub-query failed")
			t.Fatalf("gateway Execute does not return after a sub-query failed (replay %s)", p)
		}
		took := time.Since(start)
		if atomic.LoadInt32(&notCancelled) == 1 {
			p := rec.Violate("TestGatewaySiblingFailure", cs, fmt.Sprintf("a sub-query in flight was not cancelled within 2s after another sub-query of the request had failed (Execute took %v)", took))
			t.Fatalf("a sub-query in flight was not cancelled after its sibling failed; Execute took %v (replay %s)", took, p)
		}
		reached := atomic.LoadInt32(&failOnce) == 1 && atomic.LoadInt32(&inFlightAtFailure) > 0
		rec.Case(fmt.Sprint(cs), reached, "sibling-failure", fmt.Sprintf("others-in-flight=%v", reached))
		if reached {
			rec.Sample("sibling-failure", cs)
		}
	})
}
