package c15

import (
	"context"
	"encoding/json"
	"fmt"
	"sync/atomic"
	"testing"
	"time"

	"github.com/samsarahq/thunder/federation"
	"github.com/samsarahq/thunder/graphql"
	"pgregory.net/rapid"

	"verifharness/world"
)

type cancelClient struct {
	inner   federation.ExecutorClient
	counter *int32
	at      int32
	after   bool
	cancel  context.CancelFunc
	hit     *int32
}

func (c *cancelClient) Execute(ctx context.Context, req *federation.QueryRequest) (*federation.QueryResponse, error) {
	n := atomic.AddInt32(c.counter, 1)
	if n == c.at && !c.after {
		atomic.StoreInt32(c.hit, 1)
		c.cancel()
	}
	resp, err := c.inner.Execute(ctx, req)
	if n == c.at && c.after {
		atomic.StoreInt32(c.hit, 1)
		c.cancel()
	}
	return resp, err
}

// TestGatewayCancellation: the federation gateway's Execute with its context cancelled
// before the call, at the k-th federated sub-query, or right after it.
func TestGatewayCancellation(t *testing.T) {
	rapid.Check(t, func(t *rapid.T) {
		s := world.GenFedSpec(t)
		part := world.GenPartition(t, s)
		svcs, err := world.BindFed(s, part, world.Modes{})
		if err != nil {
			t.Fatalf("harness: %v", err)
		}
		var counter, hit int32
		at := int32(rapid.IntRange(0, 6).Draw(t, "at")) // 0 = before the call
		after := rapid.Bool().Draw(t, "after")
		setup, stopSetup := context.WithCancel(context.Background())
		defer stopSetup()
		plain := map[string]federation.ExecutorClient{}
		for _, sv := range svcs {
			srv, _ := federation.NewServer(sv.Schema)
			plain[sv.Name] = &federation.DirectExecutorClient{Client: srv}
		}
		ctx, cancel := context.WithCancel(context.Background())
		defer cancel()
		execs := map[string]federation.ExecutorClient{}
		for name, cl := range plain {
			execs[name] = &cancelClient{inner: cl, counter: &counter, at: -1, cancel: cancel, hit: &hit}
		}
		gw, err := federation.NewExecutor(setup, execs, &federation.SchemaSyncerConfig{SchemaSyncer: federation.NewIntrospectionSchemaSyncer(setup, execs, nil)})
		if err != nil {
			t.Fatalf("harness: gateway: %v", err)
		}
		q, _ := world.GenQuery(t, s, world.GenOpts{MaxDepth: 4, UnionTypenameAlways: true})
		vb, _ := json.Marshal(q.Values)
		var vals map[string]interface{}
		json.Unmarshal(vb, &vals)
		if vals == nil {
			vals = map[string]interface{}{}
		}
		pq, err := graphql.Parse(q.Text(), vals)
		if err != nil {
			t.Fatalf("harness: %v", err)
		}
		time.Sleep(time.Millisecond)
		base := goroutines()
		atomic.StoreInt32(&counter, 0)
		for _, cl := range execs {
			if cc, ok := cl.(*cancelClient); ok {
				cc.at, cc.after = at, after
			}
		}
		if at == 0 {
			cancel()
		}
		done := make(chan interface{}, 1)
		go func() {
			defer func() { done <- recover() }()
			gw.Execute(ctx, pq, nil)
		}()
		cs := map[string]interface{}{"query": q.Text(), "cancel_at_subquery": at, "after": after, "partition": part.Fields}
		select {
		case r := <-done:
			if r != nil {
				p := rec.Violate("TestGatewayCancellation", cs, fmt.Sprintf("panic: %v", r))
				t.Fatalf("gateway panicked when cancelled: %v (replay %s)", r, p)
			}
		case <-time.After(5 * time.Second):
			st := stacks()
			p := rec.Violate("TestGatewayCancellation", map[string]interface{}{"case": cs, "stacks": st[:min(len(st), 6000)]}, "federation.Executor.Execute does not return within 5s after its context was cancelled")
			t.Fatalf("gateway Execute does not return within 5s after cancellation at sub-query %d (replay %s)", at, p)
		}
		cancel()
		if n, ok := settleGoroutines(base); !ok {
			st := stacks()
			p := rec.Violate("TestGatewayCancellation", map[string]interface{}{"case": cs, "stacks": st[:min(len(st), 8000)]}, fmt.Sprintf("goroutines left behind: %d before, %d after", base, n))
			t.Fatalf("goroutines left behind after a cancelled gateway request: %d before, %d after (replay %s)", base, n, p)
		}
		reached := at == 0 || atomic.LoadInt32(&hit) == 1
		rec.Case(fmt.Sprint(cs), reached, "cancel:gateway", fmt.Sprintf("reached=%v", reached))
		if reached {
			rec.Sample("cancel-gateway", cs)
		}
	})
}
