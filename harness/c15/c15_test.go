package c15

import (
	"bytes"
	"context"
	"encoding/json"
	"fmt"
	"io"
	"log"
	"net/http/httptest"
	"os"
	"runtime"
	"sort"
	"strings"
	"sync"
	"sync/atomic"
	"testing"
	"time"

	"github.com/samsarahq/thunder/federation"
	"github.com/samsarahq/thunder/graphql"
	"github.com/samsarahq/thunder/reactive"
	"github.com/samsarahq/thunder/thunderpb"
	"pgregory.net/rapid"

	"verifharness/ev"
	"verifharness/fakesock"
	"verifharness/sched"
	"verifharness/world"
)

var rec = ev.New("C15",
	"(1) documents: generated valid queries mutated by grammar-level operators (anonymous inline fragments, odd/missing directive arguments, subscriptions, several operations, type definitions, variables in defaults, duplicate args, unknown/unused/cyclic fragments, deep nesting, object/list/null/enum literals, bad escapes) and byte-level edits, plus arbitrary JSON variable maps, run through Parse -> PrepareQuery -> Execute; arbitrary websocket envelopes and HTTP requests; (2) fragment-spread, alias and nesting bombs of depth up to 30; (3) panicking resolvers placed in a query under HTTP and websocket; (4) request contexts cancelled before the call, when a chosen resolver starts, or after it; oracles: no panic escapes, error or result, bounded time, connection keeps answering echo, other subscriptions keep updating, prompt return and no goroutine left behind; non-trivial = the input parsed but uses an unsupported construct, or bomb depth >= 20, or the panic / cancellation point was reached; distinct = hash of the input",
	"an error return is always acceptable", "time bounds have >=100x margin on both sides (polynomial: milliseconds; exponential at depth 30: minutes)")

func TestMain(m *testing.M) {
	log.SetOutput(io.Discard)
	reactive.WriteThenReadDelay = 0
	code := m.Run()
	rec.Flush()
	os.Exit(code)
}

var (
	spec  = world.BaseSpec()
	bound *world.Bound
)

func init() {
	modes := world.Modes{}
	kinds := []string{"plain", "expensive", "batch"}
	for _, o := range spec.Objects {
		for j, f := range o.Fields {
			k := kinds[j%3]
			if o.Type == "Query" {
				k = kinds[j%2]
			}
			// NumParallelInvocationsFunc: not set, or asking for 2, 0, as many as there are
			// sources, a negative number
			modes[o.Type+"."+f.Name] = world.Mode{Kind: k, Ctx: true, K: []int{-100, 2, 0, 1000, -1}[(j+len(o.Type))%5]}
		}
	}
	var err error
	bound, err = world.Bind(spec, modes)
	if err != nil {
		panic(err)
	}
}

// pipeline runs the whole input path and converts an escaping panic into an error.
func pipeline(ctx context.Context, text string, vars map[string]interface{}) (stage string, parsedOK bool, err error) {
	defer func() {
		if r := recover(); r != nil {
			buf := make([]byte, 4096)
			buf = buf[:runtime.Stack(buf, false)]
			stage, err = "PANIC", fmt.Errorf("panic: %v\n%s", r, buf)
		}
	}()
	q, err := graphql.Parse(text, vars)
	if err != nil {
		return "parse", false, nil
	}
	root := bound.Schema.Query
	if q.Kind == "mutation" {
		root = bound.Schema.Mutation
	}
	if err := graphql.PrepareQuery(ctx, root, q.SelectionSet); err != nil {
		return "prepare", true, nil
	}
	e := graphql.NewExecutor(graphql.NewImmediateGoroutineScheduler())
	if _, err := e.Execute(ctx, root, nil, q); err != nil {
		return "execute", true, nil
	}
	return "ok", true, nil
}

var snippets = []string{
	"... { id }", "... @include(if: true) { id }", "... @skip(if: false) { name }", "...on O1{id}", "... on Nope { id }", "...Missing",
	"@skip", "@skip(if: 5)", "@include(if: \"x\")", "@unknown(x: 1)", "@skip(if: $nope)", "@skip(if: true) @skip(if: false)", "@include(if: null)",
	"(x: 1, x: 2)", "(x: {a: 1})", "(x: [1, 2])", "(x: null)", "(x: RED)", "(x: 99999999999999999999)", "(x: 1.5e400)", "(x: \"\\u12\")", "(x: \"\\q\")", "(x: \"\"\"block\"\"\")", "(s: $v, n: $v)",
	"__typename", "__schema { types { name } }", "__type(name: \"O1\") { name }", "id: id", "id: name", "a: allO1 { id } a: allO2 { id }",
	"z: f1 { id } z: id", "z: id z: f1 { id }", "f1 { id } f1", "z: f2 { title } z: __typename",
	"f0(x: [1, 2]) f0(x: [1, 2])", "z: id z: id", "z: f0(x: [1]) z: f0(x: [2])", "f0(x: $v) f0(x: $v)", "f0(x: {a: [1]}) f0(x: {a: [1]})", "f0(x: [[1], []]) ... on O1 { f0(x: [[1], []]) }",
	"(x: [[\x16", "(x: [\x01])", "(x: [[", "(x: {a: [\x7f", "[", "]", "\x16", "\"unterminated", "(x: [\"\\q\"])",
	"{", "}", "{}", "#comment\n", ",,,", "\ufeff", "\x00", "query", "mutation", "subscription", "fragment", "on",
}

var tails = []string{
	"", " query Second { allO1 { id } }", " subscription S { allO1 { id } }", " type Foo { a: Int }", " schema { query: Query }",
	" fragment Unused on O1 { id }", " fragment A on O1 { ...B } fragment B on O1 { ...A }", " fragment Self on O1 { ...Self }",
	" extend type Query { x: Int }", " mutation M { bump(typ: \"O1\", id: 1) }",
}

var heads = []string{"", "query ", "query Q ", "query Q($v: int64 = 1) ", "query Q($v: int64!) ", "query Q($v: int64! = 3) ", "query Q($v: int64 = $w, $w: int64) ", "query Q($v: [int64] = [1, {a: 2}]) ", "mutation ", "subscription ", "query Q($v: T, $v: T) "}

func genDoc(t *rapid.T) (string, map[string]interface{}) {
	q, _ := world.GenQuery(t, spec, world.GenOpts{Directives: rapid.Bool().Draw(t, "dirs"), MaxDepth: 3, FragOnUnion: true, UncoveredUnion: true})
	text := q.Text()
	if i := strings.Index(text, "{"); i > 0 && rapid.Bool().Draw(t, "newhead") {
		text = rapid.SampledFrom(heads).Draw(t, "head") + text[i:]
	}
	n := rapid.IntRange(0, 4).Draw(t, "nmut")
	for i := 0; i < n; i++ {
		switch rapid.IntRange(0, 7).Draw(t, "mutkind") {
		case 7: // one named fragment spread at several places, whatever type stands there
			var pos []int
			for j, ch := range text {
				if ch == '{' {
					pos = append(pos, j+1)
				}
			}
			if len(pos) > 0 && !strings.Contains(text, "fragment XF") {
				k := rapid.IntRange(1, 3).Draw(t, "xfspreads")
				var at []int
				for i := 0; i < k; i++ {
					at = append(at, pos[rapid.IntRange(0, len(pos)-1).Draw(t, "xfpos")])
				}
				sort.Sort(sort.Reverse(sort.IntSlice(at)))
				for _, p := range at {
					text = text[:p] + " ...XF " + text[p:]
				}
				text += rapid.SampledFrom([]string{" fragment XF on O1 { name tag }", " fragment XF on O2 { label ok }", " fragment XF on Query { allO1 { id } }", " fragment XF on O3 { title sub { a } }", " fragment XF on U1 { __typename }"}).Draw(t, "xfdef")
			}
		case 6: // duplicate a range in place (same selection, alias or argument twice)
			if len(text) > 2 {
				a := rapid.IntRange(0, len(text)-2).Draw(t, "dupa")
				b := rapid.IntRange(a+1, min(len(text), a+40)).Draw(t, "dupb")
				text = text[:b] + " " + text[a:b] + text[b:]
			}
		case 0, 1: // insert a snippet after some '{' or identifier boundary
			var pos []int
			for j, ch := range text {
				if ch == '{' || ch == ' ' || ch == '\n' {
					pos = append(pos, j+1)
				}
			}
			if len(pos) > 0 {
				p := pos[rapid.IntRange(0, len(pos)-1).Draw(t, "pos")]
				text = text[:p] + " " + rapid.SampledFrom(snippets).Draw(t, "snippet") + " " + text[p:]
			}
		case 2:
			text += rapid.SampledFrom(tails).Draw(t, "tail")
		case 3: // delete a byte range
			if len(text) > 2 {
				a := rapid.IntRange(0, len(text)-2).Draw(t, "dela")
				b := rapid.IntRange(a+1, min(len(text), a+6)).Draw(t, "delb")
				text = text[:a] + text[b:]
			}
		case 4: // replace a byte
			if len(text) > 0 {
				p := rapid.IntRange(0, len(text)-1).Draw(t, "rep")
				text = text[:p] + string(rune(rapid.SampledFrom([]int{'{', '}', '(', ')', '$', '@', '"', ':', '.', '!', '[', ']', '\\', 0, 200, '#'}).Draw(t, "byte"))) + text[p+1:]
			}
		default: // deep nesting
			d := rapid.IntRange(5, 300).Draw(t, "deep")
			text = "{ allO1 " + strings.Repeat("{ f2 ", d) + "{ id }" + strings.Repeat(" }", d) + " }"
		}
	}
	vars := map[string]interface{}{}
	for k, v := range q.Values {
		vars[k] = v
	}
	for i := 0; i < rapid.IntRange(0, 2).Draw(t, "nvars"); i++ {
		vars[rapid.SampledFrom([]string{"v", "w", "v0", "b0", "nope"}).Draw(t, "vname")] = genJSON(t, 2)
	}
	return text, vars
}

func min(a, b int) int {
	if a < b {
		return a
	}
	return b
}

func genJSON(t *rapid.T, depth int) interface{} {
	switch rapid.IntRange(0, 7).Draw(t, "jk") {
	case 0:
		return nil
	case 1:
		return rapid.Bool().Draw(t, "jb")
	case 2:
		return rapid.SampledFrom([]float64{0, 1, -1, 1.5, 1e308, -1e308, 9007199254740993, 4294967296}).Draw(t, "jn")
	case 3:
		return rapid.SampledFrom([]string{"", "x", "RED", "2020-01-01T00:00:00Z", "\x00", strings.Repeat("a", 1000)}).Draw(t, "js")
	case 4, 5:
		if depth > 0 {
			var a []interface{}
			for i := 0; i < rapid.IntRange(0, 3).Draw(t, "jl"); i++ {
				a = append(a, genJSON(t, depth-1))
			}
			return a
		}
		return 1.0
	default:
		if depth > 0 {
			m := map[string]interface{}{}
			for i := 0; i < rapid.IntRange(0, 3).Draw(t, "jm"); i++ {
				m[rapid.SampledFrom([]string{"x", "s", "n", "if", ""}).Draw(t, "jkey")] = genJSON(t, depth-1)
			}
			return m
		}
		return "leaf"
	}
}

func TestDocuments(t *testing.T) {
	rapid.Check(t, func(t *rapid.T) {
		text, vars := genDoc(t)
		start := time.Now()
		type res struct {
			stage  string
			parsed bool
			err    error
		}
		done := make(chan res, 1)
		go func() {
			st, pa, e := pipeline(context.Background(), text, vars)
			done <- res{st, pa, e}
		}()
		var stage string
		var parsed bool
		var err error
		select {
		case r := <-done:
			stage, parsed, err = r.stage, r.parsed, r.err
		case <-time.After(30 * time.Second):
			// the input is still being processed (and may be allocating): report it and stop
			// this process at once instead of shrinking with a runaway goroutine in the background
			p := rec.Violate("TestDocuments", map[string]interface{}{"query": text, "vars": vars}, fmt.Sprintf("hang: %d-byte document still running after 30s", len(text)))
			fmt.Printf("%d-byte document still running after 30s: %q (replay %s)\n", len(text), text, p)
			rec.Flush()
			os.Exit(3)
		}
		if err != nil {
			p := rec.Violate("TestDocuments", map[string]interface{}{"query": text, "vars": vars}, "panic: "+err.Error())
			t.Fatalf("input crashed the pipeline: %v\nquery: %q (replay %s)", err, text, p)
		}
		if d := time.Since(start); d > 5*time.Second {
			p := rec.Violate("TestDocuments", map[string]interface{}{"query": text, "vars": vars}, fmt.Sprintf("slow: %d bytes took %v", len(text), d))
			t.Fatalf("%d-byte document took %v (replay %s)", len(text), d, p)
		}
		rec.Case(text+fmt.Sprint(vars), parsed && stage != "ok", "stage:"+stage)
		if parsed && stage != "ok" {
			rec.Sample("doc-"+stage, map[string]interface{}{"query": text, "vars": vars})
		}
	})
}

// ---------- (2) bombs ----------

func bomb(kind string, n int) string {
	var b strings.Builder
	switch kind {
	case "spread":
		b.WriteString("{ ...F0 }")
		for i := 0; i < n; i++ {
			fmt.Fprintf(&b, " fragment F%d on Query { ...F%d ...F%d }", i, i+1, i+1)
		}
		fmt.Fprintf(&b, " fragment F%d on Query { __typename }", n)
	case "spread3":
		b.WriteString("{ allO1 { ...F0 } }")
		for i := 0; i < n; i++ {
			fmt.Fprintf(&b, " fragment F%d on O1 { ...F%d ... on O1 { ...F%d } f1 { id } ...F%d }", i, i+1, i+1, i+1)
		}
		fmt.Fprintf(&b, " fragment F%d on O1 { id }", n)
	case "alias":
		b.WriteString("{ allO1 {")
		for i := 0; i < n*20; i++ {
			fmt.Fprintf(&b, " a%d: id", i%7)
		}
		b.WriteString(" } }")
	case "nested-dup":
		// the same alias repeated at every level
		inner := "{ id }"
		for i := 0; i < n; i++ {
			inner = "{ f1 " + inner + " f1 " + inner + " }"
			if len(inner) > 200000 {
				break
			}
		}
		b.WriteString("{ allO1 " + inner + " }")
	case "union-spread":
		b.WriteString("{ allU1 { ...F0 } }")
		for i := 0; i < n; i++ {
			fmt.Fprintf(&b, " fragment F%d on U1 { ...F%d ...F%d }", i, i+1, i+1)
		}
		fmt.Fprintf(&b, " fragment F%d on U1 { __typename }", n)
	}
	return b.String()
}

func TestBombs(t *testing.T) {
	rapid.Check(t, func(t *rapid.T) {
		kind := rapid.SampledFrom([]string{"spread", "spread3", "alias", "nested-dup", "union-spread"}).Draw(t, "kind")
		n := rapid.IntRange(1, 30).Draw(t, "depth")
		if kind == "nested-dup" && n > 14 {
			n = 14 // the document itself doubles per level
		}
		text := bomb(kind, n)
		done := make(chan error, 1)
		start := time.Now()
		go func() { _, _, err := pipeline(context.Background(), text, nil); done <- err }()
		select {
		case err := <-done:
			if err != nil {
				p := rec.Violate("TestBombs", map[string]interface{}{"kind": kind, "depth": n}, err.Error())
				t.Fatalf("%s bomb depth %d: %v (replay %s)", kind, n, err, p)
			}
		case <-time.After(10 * time.Second):
			p := rec.Violate("TestBombs", map[string]interface{}{"kind": kind, "depth": n, "bytes": len(text)}, fmt.Sprintf("%s bomb of depth %d (%d bytes) still running after 10s", kind, n, len(text)))
			t.Fatalf("%s bomb of depth %d (%d bytes) does not finish within 10s (replay %s)", kind, n, len(text), p)
		}
		rec.Case(fmt.Sprintf("%s-%d", kind, n), n >= 20 || kind == "nested-dup", "bomb:"+kind)
		if n >= 20 {
			rec.Sample("bomb-"+kind, map[string]interface{}{"kind": kind, "depth": n, "bytes": len(text), "took": time.Since(start).String()})
		}
	})
}

// ---------- (1d) envelopes ----------

func TestEnvelopes(t *testing.T) {
	rapid.Check(t, func(t *rapid.T) {
		sock := fakesock.New()
		ctx, cancel := context.WithCancel(context.Background())
		defer cancel()
		conn := graphql.CreateConnection(ctx, sock, bound.Schema, graphql.WithMinRerunInterval(time.Millisecond))
		done := make(chan interface{}, 1)
		go func() {
			defer func() { done <- recover() }()
			conn.ServeJSONSocket()
		}()
		var sent []string
		n := rapid.IntRange(1, 8).Draw(t, "nframes")
		undecodable := false
		for i := 0; i < n && !undecodable; i++ {
			var frame []byte
			switch rapid.IntRange(0, 5).Draw(t, "framekind") {
			case 0: // arbitrary JSON value as the whole frame
				frame, _ = json.Marshal(genJSON(t, 2))
			case 1: // raw garbage
				frame = []byte(rapid.SampledFrom([]string{"", "{", "nul", "\"", "{\"id\":1}", "{\"type\":5}", "[1,2", "{\"id\":\"a\",\"type\":\"echo\",\"message\":}"}).Draw(t, "garbage"))
			default:
				typ := rapid.SampledFrom([]string{"subscribe", "unsubscribe", "mutate", "echo", "url", "", "nope"}).Draw(t, "type")
				msg := genJSON(t, 2)
				if rapid.Bool().Draw(t, "msgquery") {
					text, vars := genDoc(t)
					var v interface{} = vars
					if rapid.IntRange(0, 3).Draw(t, "badvars") == 0 {
						v = genJSON(t, 1)
					}
					msg = map[string]interface{}{"query": text, "variables": v}
				}
				env := map[string]interface{}{"id": rapid.SampledFrom([]interface{}{"a", "b", "", "a"}).Draw(t, "id"), "type": typ, "message": msg}
				if rapid.IntRange(0, 5).Draw(t, "ext") == 0 {
					env["extensions"] = genJSON(t, 1)
				}
				frame, _ = json.Marshal(env)
			}
			sent = append(sent, string(frame))
			var probe struct {
				ID         string                 `json:"id"`
				Type       string                 `json:"type"`
				Message    json.RawMessage        `json:"message"`
				Extensions map[string]interface{} `json:"extensions,omitempty"`
			}
			if json.Unmarshal(frame, &probe) != nil {
				undecodable = true // the read loop ends on an undecodable frame
			}
			sock.Send(frame)
		}
		if !undecodable {
			if !sock.Echo("__probe", 10*time.Second) {
				select {
				case r := <-done:
					p := rec.Violate("TestEnvelopes", sent, fmt.Sprintf("connection died: %v", r))
					t.Fatalf("the connection stopped after frames %q: %v (replay %s)", sent, r, p)
				default:
				}
				p := rec.Violate("TestEnvelopes", sent, "no echo reply")
				t.Fatalf("the connection does not answer an echo after frames %q (replay %s)", sent, p)
			}
		}
		sock.Close()
		select {
		case r := <-done:
			if r != nil {
				p := rec.Violate("TestEnvelopes", sent, fmt.Sprintf("panic: %v", r))
				t.Fatalf("ServeJSONSocket panicked on frames %q: %v (replay %s)", sent, r, p)
			}
		case <-time.After(10 * time.Second):
			p := rec.Violate("TestEnvelopes", sent, "ServeJSONSocket does not return after close")
			t.Fatalf("ServeJSONSocket does not return after the socket closed; frames %q (replay %s)", sent, p)
		}
		rec.Case(strings.Join(sent, "\n"), !undecodable, "envelopes", fmt.Sprintf("undecodable=%v", undecodable))
		if !undecodable {
			rec.Sample("envelopes", sent)
		}
	})
}

// ---------- (1e) HTTP ----------

func TestHTTP(t *testing.T) {
	h := graphql.HTTPHandler(bound.Schema)
	rapid.Check(t, func(t *rapid.T) {
		method := rapid.SampledFrom([]string{"POST", "POST", "POST", "GET", "PUT", ""}).Draw(t, "method")
		var body []byte
		switch rapid.IntRange(0, 4).Draw(t, "bodykind") {
		case 0:
			body, _ = json.Marshal(genJSON(t, 2))
		case 1:
			body = []byte(rapid.SampledFrom([]string{"", "{", "null", "{\"query\":5}", "{\"query\":\"{ allO1 { id } }\",\"variables\":[1]}", "{\"query\":\"{ allO1 { id } }\",\"variables\":\"x\"}"}).Draw(t, "rawbody"))
		default:
			text, vars := genDoc(t)
			body, _ = json.Marshal(map[string]interface{}{"query": text, "variables": vars})
		}
		var rdr io.Reader = bytes.NewReader(body)
		if rapid.IntRange(0, 9).Draw(t, "nobody") == 0 {
			rdr = nil
		}
		req := httptest.NewRequest("POST", "/graphql", rdr)
		req.Method = method
		if rdr == nil {
			req.Body = nil
		}
		w := httptest.NewRecorder()
		done := make(chan interface{}, 1)
		go func() {
			defer func() { done <- recover() }()
			h.ServeHTTP(w, req)
		}()
		select {
		case r := <-done:
			if r != nil {
				p := rec.Violate("TestHTTP", map[string]interface{}{"method": method, "body": string(body)}, fmt.Sprintf("panic: %v", r))
				t.Fatalf("ServeHTTP panicked: %v; body %q (replay %s)", r, body, p)
			}
		case <-time.After(10 * time.Second):
			p := rec.Violate("TestHTTP", map[string]interface{}{"method": method, "body": string(body)}, "ServeHTTP does not return")
			t.Fatalf("ServeHTTP does not return; method %q body %q (replay %s)", method, body, p)
		}
		var resp struct {
			Data   interface{} `json:"data"`
			Errors []string    `json:"errors"`
		}
		valid := json.Unmarshal(w.Body.Bytes(), &resp) == nil
		rec.Case(method+string(body), valid && len(resp.Errors) > 0, "http", fmt.Sprintf("status=%d", w.Code))
	})
}

// ---------- (3) resolver panics, (4) cancellation ----------

type gate struct {
	mu      sync.Mutex
	target  string // "Type.field"
	mode    string // "" | panic | block | cancel
	hit     int32
	cancel  context.CancelFunc
	release chan struct{}
	act     func(ctx context.Context) // mode "act"; ctx is the context the armed resolver was called with
	actErr  error
	lastCtx context.Context
}

var theGate = &gate{}

func (g *gate) arm(target, mode string, cancel context.CancelFunc) {
	g.mu.Lock()
	g.target, g.mode, g.cancel = target, mode, cancel
	g.release = make(chan struct{})
	atomic.StoreInt32(&g.hit, 0)
	g.mu.Unlock()
}

func init() {
	bound.Env.OnCallCtx = func(ctx context.Context, typ string, id int64, f *world.FieldSpec) {
		theGate.mu.Lock()
		if theGate.mode == "act" && theGate.target == typ+"."+f.Name {
			theGate.lastCtx = ctx
		}
		theGate.mu.Unlock()
	}
	bound.Env.Fault = func(typ string, id int64, f *world.FieldSpec, a world.ArgVal, batch bool) error {
		theGate.mu.Lock()
		target, mode, cancel := theGate.target, theGate.mode, theGate.cancel
		theGate.mu.Unlock()
		if mode == "" || target != typ+"."+f.Name {
			return nil
		}
		atomic.AddInt32(&theGate.hit, 1)
		switch mode {
		case "panic":
			return world.PanicErr{Msg: "resolver exploded"}
		case "cancel":
			if cancel != nil {
				cancel()
			}
		case "act":
			// first hit only: do what the test asked for (the client goes away, unsubscribes,
			// the server context ends) while this resolver is running, then give up the way a
			// resolver that watches its context does
			theGate.mu.Lock()
			act, ret, ctx := theGate.act, theGate.actErr, theGate.lastCtx
			theGate.act = nil
			theGate.mu.Unlock()
			if act != nil {
				act(ctx)
				return ret
			}
		}
		return nil
	}
}

var targets = []string{"Query.allO1", "Query.allU1", "O1.f0", "O1.f1", "O1.f2", "O2.f1", "O3.f0"}

func queryFor(target string) string {
	switch target {
	case "Query.allO1":
		return "{ allO1 { id } allO2 { id } }"
	case "Query.allU1":
		return "{ allU1 { __typename ... on O1 { id } ... on O2 { id } } allO1 { id } }"
	case "O1.f0":
		return "{ allO1 { id f0(x: 1) } allO3 { title } }"
	case "O1.f1":
		return "{ allO1 { f1 { id label } } }"
	case "O1.f2":
		return "{ allO1 { f2 { title f0(x: 2) } } allO2 { id } }"
	case "O2.f1":
		return "{ allO2 { f1 { id } } allO1 { f1 { f1 { id } } } }"
	}
	return "{ allO3 { f0(x: 0) f1 { id } } }"
}

func goroutines() int { return runtime.NumGoroutine() }

func settleGoroutines(base int) (int, bool) {
	deadline := time.Now().Add(3 * time.Second)
	for {
		n := goroutines()
		if n <= base {
			return n, true
		}
		if time.Now().After(deadline) {
			return n, false
		}
		time.Sleep(2 * time.Millisecond)
	}
}

func stacks() string {
	buf := make([]byte, 1<<18)
	return string(buf[:runtime.Stack(buf, true)])
}

func TestPanicContained(t *testing.T) {
	h := graphql.HTTPHandler(bound.Schema)
	rapid.Check(t, func(t *rapid.T) {
		target := rapid.SampledFrom(targets).Draw(t, "target")
		text := queryFor(target)
		theGate.arm(target, "panic", nil)
		defer theGate.arm("", "", nil)
		// HTTP
		body, _ := json.Marshal(map[string]interface{}{"query": text, "variables": map[string]interface{}{}})
		w := httptest.NewRecorder()
		done := make(chan interface{}, 1)
		go func() {
			defer func() { done <- recover() }()
			h.ServeHTTP(w, httptest.NewRequest("POST", "/graphql", bytes.NewReader(body)))
		}()
		select {
		case r := <-done:
			if r != nil {
				p := rec.Violate("TestPanicContained", map[string]interface{}{"target": target, "query": text}, fmt.Sprintf("panic escaped ServeHTTP: %v", r))
				t.Fatalf("a resolver panic escaped ServeHTTP: %v (replay %s)", r, p)
			}
		case <-time.After(10 * time.Second):
			p := rec.Violate("TestPanicContained", map[string]interface{}{"target": target, "query": text}, "ServeHTTP hangs after a resolver panic")
			t.Fatalf("ServeHTTP hangs after a resolver panic (replay %s)", p)
		}
		reached := atomic.LoadInt32(&theGate.hit) > 0
		var resp struct {
			Data   interface{} `json:"data"`
			Errors []string    `json:"errors"`
		}
		json.Unmarshal(w.Body.Bytes(), &resp)
		if reached && (len(resp.Errors) == 0 || resp.Data != nil) {
			p := rec.Violate("TestPanicContained", map[string]interface{}{"target": target, "query": text}, "panicking resolver did not fail the HTTP request: "+w.Body.String())
			t.Fatalf("a panicking resolver did not fail the request: %s (replay %s)", w.Body.String(), p)
		}
		// websocket: the failing subscription gets an error, a healthy one and echo keep working
		sock := fakesock.New()
		ctx, cancel := context.WithCancel(context.Background())
		defer cancel()
		conn := graphql.CreateConnection(ctx, sock, bound.Schema, graphql.WithMinRerunInterval(time.Millisecond), graphql.WithExecutor(graphql.NewExecutor(sched.New(rapid.SampledFrom(sched.Names).Draw(t, "sched"), 1))))
		served := make(chan interface{}, 1)
		go func() {
			defer func() { served <- recover() }()
			conn.ServeJSONSocket()
		}()
		healthy := "{ allO4 { id } }"
		sock.SendEnvelope("ok", "subscribe", map[string]interface{}{"query": healthy, "variables": map[string]interface{}{}})
		sock.SendEnvelope("bad", "subscribe", map[string]interface{}{"query": text, "variables": map[string]interface{}{}})
		ok := sock.WaitFor(10*time.Second, func(outs []fakesock.Out) bool {
			a, b := false, false
			for _, o := range outs {
				if o.ID == "ok" && o.Type == "update" {
					a = true
				}
				if o.ID == "bad" && (o.Type == "error" || o.Type == "update") {
					b = true
				}
			}
			return a && b
		})
		echoed := sock.Echo("e", 10*time.Second)
		sock.Close()
		var r interface{}
		select {
		case r = <-served:
		case <-time.After(10 * time.Second):
			r = "ServeJSONSocket did not return"
		}
		if r != nil || !ok || !echoed {
			var outs []string
			for _, o := range sock.Outs() {
				outs = append(outs, string(o.Raw))
			}
			p := rec.Violate("TestPanicContained", map[string]interface{}{"target": target, "query": text}, fmt.Sprintf("websocket: recovered=%v answered=%v echo=%v outs=%v", r, ok, echoed, outs))
			t.Fatalf("a resolver panic was not contained on the websocket: recovered=%v answered=%v echo=%v outs=%v (replay %s)", r, ok, echoed, outs, p)
		}
		if reached {
			for _, o := range sock.Outs() {
				if o.ID == "bad" && o.Type == "update" {
					p := rec.Violate("TestPanicContained", map[string]interface{}{"target": target, "query": text}, "subscription with a panicking resolver received data: "+string(o.Raw))
					t.Fatalf("subscription with a panicking resolver received data: %s (replay %s)", o.Raw, p)
				}
			}
		}
		rec.Case("panic:"+target, reached, "panic", "reached="+fmt.Sprint(reached))
		if reached {
			rec.Sample("panic", map[string]interface{}{"panicking_field": target, "query": text})
		}
	})
}

func TestCancellation(t *testing.T) {
	h := graphql.HTTPHandler(bound.Schema)
	srv, err := federation.NewServer(bound.Schema)
	if err != nil {
		t.Fatalf("harness: %v", err)
	}
	// warm up lazily started goroutines
	pipeline(context.Background(), "{ allO1 { id } }", nil)
	rapid.Check(t, func(t *rapid.T) {
		target := rapid.SampledFrom(targets).Draw(t, "target")
		when := rapid.SampledFrom([]string{"before", "before", "at-resolver", "after"}).Draw(t, "when")
		entry := rapid.SampledFrom([]string{"http", "fedserver"}).Draw(t, "entry")
		text := queryFor(target)
		base := goroutines()
		ctx, cancel := context.WithCancel(context.Background())
		defer cancel()
		if when == "at-resolver" {
			theGate.arm(target, "cancel", cancel)
		} else {
			theGate.arm("", "", nil)
		}
		defer theGate.arm("", "", nil)
		if when == "before" {
			cancel()
		}
		done := make(chan interface{}, 1)
		start := time.Now()
		go func() {
			defer func() { done <- recover() }()
			switch entry {
			case "http":
				body, _ := json.Marshal(map[string]interface{}{"query": text, "variables": map[string]interface{}{}})
				req := httptest.NewRequest("POST", "/graphql", bytes.NewReader(body)).WithContext(ctx)
				h.ServeHTTP(httptest.NewRecorder(), req)
			case "fedserver":
				q, err := graphql.Parse(text, nil)
				if err != nil {
					panic("harness: " + err.Error())
				}
				pb, err := federation.MarshalQuery(q)
				if err != nil {
					panic("harness: " + err.Error())
				}
				srv.Execute(ctx, &thunderpb.ExecuteRequest{Query: pb})
			}
		}()
		if when == "after" {
			time.Sleep(time.Duration(rapid.IntRange(0, 500).Draw(t, "afterus")) * time.Microsecond)
			cancel()
		}
		cs := map[string]interface{}{"entry": entry, "when": when, "target": target, "query": text}
		select {
		case r := <-done:
			if r != nil {
				if s, ok := r.(string); ok && strings.HasPrefix(s, "harness:") {
					t.Fatalf("%s", s)
				}
				p := rec.Violate("TestCancellation", cs, fmt.Sprintf("panic: %v", r))
				t.Fatalf("%s panicked when cancelled %s: %v (replay %s)", entry, when, r, p)
			}
		case <-time.After(5 * time.Second):
			st := stacks()
			p := rec.Violate("TestCancellation", map[string]interface{}{"case": cs, "stacks": st[:min(len(st), 6000)]}, fmt.Sprintf("%s does not return within 5s when its context is cancelled %s", entry, when))
			cancel()
			t.Fatalf("%s does not return within 5s when its context is cancelled %s (replay %s)", entry, when, p)
		}
		took := time.Since(start)
		cancel()
		if n, ok := settleGoroutines(base); !ok {
			st := stacks()
			p := rec.Violate("TestCancellation", map[string]interface{}{"case": cs, "stacks": st[:min(len(st), 8000)]}, fmt.Sprintf("goroutines left behind: %d before, %d after", base, n))
			t.Fatalf("goroutines left behind after %s cancelled %s: %d before, %d 3s after (replay %s)", entry, when, base, n, p)
		}
		reached := when != "at-resolver" || atomic.LoadInt32(&theGate.hit) > 0
		rec.Case(fmt.Sprint(cs), reached, "cancel:"+entry+":"+when)
		if reached {
			rec.Sample("cancel-"+entry+"-"+when, map[string]interface{}{"case": cs, "returned_after": took.String()})
		}
	})
}

func TestReplay(t *testing.T) {
	p := os.Getenv("VERIF_REPLAY")
	if p == "" {
		t.Skip("no VERIF_REPLAY")
	}
	var c struct {
		Query string                 `json:"query"`
		Vars  map[string]interface{} `json:"vars"`
	}
	if _, err := ev.LoadReplay(p, &c); err != nil || c.Query == "" {
		t.Skip("replay file is not a document case; re-run by seed")
	}
	done := make(chan error, 1)
	go func() { _, _, err := pipeline(context.Background(), c.Query, c.Vars); done <- err }()
	select {
	case err := <-done:
		if err != nil {
			rec.Violate("TestReplay", c, err.Error())
			t.Fatalf("%v", err)
		}
	case <-time.After(10 * time.Second):
		rec.Violate("TestReplay", c, "does not finish within 10s")
		t.Fatalf("does not finish within 10s")
	}
}

var _ = sort.Strings

// TestPinned: minimal inputs of the defects repaired in /repo.
func TestPinned(t *testing.T) {
	// (the last two: one response key selected with and without sub-selections crashed the
	// process in Flatten during execution; fixed in /repo, see known_findings.jsonl)
	for _, text := range []string{"{ ... { id } }", "{ allO1 { ... @include(if: true) { id } } }", "{ ...on O1 { ... { id } } }",
		"{ allO1 { z: f1 { id } z: id } }", "{ allO1 { z: id z: f1 { id } } }"} {
		if _, _, err := pipeline(context.Background(), text, nil); err != nil {
			rec.Violate("TestPinned-parse", map[string]interface{}{"query": text}, err.Error())
			t.Errorf("%q: %v", text, err)
		}
		rec.Case("pinned:"+text, true, "pinned")
	}
	// a lexical error right after "[" made the graphql-go parser spin for ever (fixed 4917822)
	for _, text := range []string{"{A(A:[[\x16", "{a(b:[\x16", "{ allO1(x: [1, [\"\\q\"]]) { id } }", "query Q($v: [int64] = [[\x00]) { allO1 { id } }", "{ a(b: {c: [\x7f}) }"} {
		text := text
		done := make(chan error, 1)
		go func() { _, _, err := pipeline(context.Background(), text, nil); done <- err }()
		select {
		case err := <-done:
			if err != nil {
				rec.Violate("TestPinned-lex", map[string]interface{}{"query": text}, err.Error())
				t.Errorf("%q: %v", text, err)
			}
		case <-time.After(10 * time.Second):
			rec.Violate("TestPinned-lex", map[string]interface{}{"query": text}, fmt.Sprintf("%d-byte document still being parsed after 10s", len(text)))
			t.Errorf("%q (%d bytes) does not finish within 10s", text, len(text))
		}
		rec.Case("pinned-lex:"+text, true, "pinned")
	}
	for _, kind := range []string{"spread", "spread3", "union-spread"} {
		text := bomb(kind, 30)
		done := make(chan error, 1)
		go func() { _, _, err := pipeline(context.Background(), text, nil); done <- err }()
		select {
		case err := <-done:
			if err != nil {
				t.Errorf("%s: %v", kind, err)
			}
		case <-time.After(10 * time.Second):
			rec.Violate("TestPinned-bomb", map[string]interface{}{"kind": kind, "depth": 30, "query": text}, "bomb of depth 30 does not finish within 10s")
			t.Errorf("%s bomb of depth 30 (%d bytes) does not finish within 10s", kind, len(text))
		}
		rec.Case("pinned-bomb:"+kind, true, "pinned")
	}
}
