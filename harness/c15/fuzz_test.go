package c15

import (
	"bytes"
	"context"
	"encoding/json"
	"net/http/httptest"
	"testing"
	"time"

	"github.com/samsarahq/thunder/graphql"

	"verifharness/fakesock"
)

// FuzzPipeline: coverage-guided search over query text and a JSON variables document with the
// oracles of TestDocuments: Parse -> PrepareQuery -> Execute returns an error or a result,
// never panics (a panic on a scheduler goroutine kills the fuzz worker, which the fuzzing
// engine reports with the input), and finishes within seconds.
func FuzzPipeline(f *testing.F) {
	f.Add(`{ allO1 { id name } }`, `{}`)
	f.Add(`query Q($v: int64 = 1, $b: bool) { allO1 { id @skip(if: $b) f1 { id } ...F } allU1 { __typename ... on O1 { id } ... on O2 { label } } } fragment F on O1 { name @include(if: true) }`, `{"v": 2, "b": false}`)
	f.Add(`mutation M { bump(typ: "O1", id: 1) }`, `null`)
	f.Add(`{ ... { __typename } ...on Query @skip { __typename } }`, `{"x": [1, {"a": null}]}`)
	f.Add("{A(A:[[\x16", `0`)
	f.Add(bomb("spread", 6), `{}`)
	f.Add(bomb("union-spread", 4), `{}`)
	f.Add(`subscription S { allO1 { id } } type Foo { a: Int } fragment A on O1 { ...B } fragment B on O1 { ...A }`, `{}`)
	for _, s := range snippets {
		f.Add(`{ allO1 { id `+s+` } }`, `{"v": 1}`)
	}
	f.Fuzz(func(t *testing.T, text string, varsJSON string) {
		if len(text) > 20000 {
			t.Skip()
		}
		var vars map[string]interface{}
		if json.Unmarshal([]byte(varsJSON), &vars) != nil {
			vars = nil
		}
		done := make(chan error, 1)
		start := time.Now()
		go func() { _, _, err := pipeline(context.Background(), text, vars); done <- err }()
		select {
		case err := <-done:
			if err != nil {
				t.Fatalf("input crashed the pipeline: %v\nquery: %q vars: %s", err, text, varsJSON)
			}
		case <-time.After(20 * time.Second):
			t.Fatalf("%d-byte document still running after %v\nquery: %q", len(text), time.Since(start), text)
		}
	})
}

// FuzzEnvelope: raw websocket frames (one per line of the input) into ServeJSONSocket. As
// long as every frame decodes as an envelope the read loop must keep answering echo; in every
// case ServeJSONSocket returns after the socket is closed and nothing panics.
func FuzzEnvelope(f *testing.F) {
	f.Add([]byte(`{"id":"a","type":"subscribe","message":{"query":"{ allO1 { id } }","variables":{}}}` + "\n" + `{"id":"a","type":"unsubscribe"}`))
	f.Add([]byte(`{"id":"m","type":"mutate","message":{"query":"mutation { bump(typ: \"O1\", id: 1) }","variables":null}}`))
	f.Add([]byte(`{"id":"a","type":"subscribe","message":{"query":"{A(A:[[\u0016","variables":[1]}}` + "\n" + `{"id":1}`))
	f.Add([]byte(`{"id":"","type":"url","message":5}` + "\n" + `{"type":"echo","id":"x","message":{"a":[null]},"extensions":{"k":1}}`))
	f.Add([]byte(`{"id":"a","type":"subscribe","message":"x"}` + "\n" + `{"id":"a","type":"subscribe","message":{"query":5}}` + "\n" + `[]`))
	f.Fuzz(func(t *testing.T, data []byte) {
		if len(data) > 4000 {
			t.Skip()
		}
		sock := fakesock.New()
		ctx, cancel := context.WithCancel(context.Background())
		defer cancel()
		conn := graphql.CreateConnection(ctx, sock, bound.Schema, graphql.WithMinRerunInterval(time.Millisecond))
		done := make(chan interface{}, 1)
		go func() {
			defer func() { done <- recover() }()
			conn.ServeJSONSocket()
		}()
		undecodable := false
		for _, frame := range bytes.Split(data, []byte("\n")) {
			var probe struct {
				ID         string                 `json:"id"`
				Type       string                 `json:"type"`
				Message    json.RawMessage        `json:"message"`
				Extensions map[string]interface{} `json:"extensions,omitempty"`
			}
			if json.Unmarshal(frame, &probe) != nil {
				undecodable = true // the read loop ends on an undecodable frame
			}
			sock.Send(append([]byte{}, frame...))
			if undecodable {
				break
			}
		}
		if !undecodable && !sock.Echo("__probe", 20*time.Second) {
			t.Fatalf("the connection does not answer an echo after frames %q", data)
		}
		sock.Close()
		select {
		case r := <-done:
			if r != nil {
				t.Fatalf("ServeJSONSocket panicked on frames %q: %v", data, r)
			}
		case <-time.After(20 * time.Second):
			t.Fatalf("ServeJSONSocket does not return after the socket closed; frames %q", data)
		}
	})
}

// FuzzHTTP: arbitrary request bodies into the HTTP handler: it answers (any status) within
// seconds and does not panic.
func FuzzHTTP(f *testing.F) {
	f.Add([]byte(`{"query":"{ allO1 { id } }","variables":{}}`))
	f.Add([]byte(`{"query":"query Q($v: int64 = 1) { allO1 { f0(x: $v) } }","variables":{"v":[1]}}`))
	f.Add([]byte(`{"query":5}`))
	f.Add([]byte(`{"query":"{A(A:[[\u0016","variables":"x"}`))
	f.Add([]byte(`null`))
	h := graphql.HTTPHandler(bound.Schema)
	f.Fuzz(func(t *testing.T, body []byte) {
		if len(body) > 8000 {
			t.Skip()
		}
		req := httptest.NewRequest("POST", "/graphql", bytes.NewReader(body))
		w := httptest.NewRecorder()
		done := make(chan interface{}, 1)
		go func() {
			defer func() { done <- recover() }()
			h.ServeHTTP(w, req)
		}()
		select {
		case r := <-done:
			if r != nil {
				t.Fatalf("ServeHTTP panicked: %v; body %q", r, body)
			}
		case <-time.After(20 * time.Second):
			t.Fatalf("ServeHTTP does not return; body %q", body)
		}
	})
}
