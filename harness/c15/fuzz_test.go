package c15

import (
	"context"
	"encoding/json"
	"testing"
	"time"
)

// FuzzPipeline: coverage-guided search over query text and a JSON variables document with the
// oracles of TestDocuments: Parse -> PrepareQuery -> Execute returns an error or a result,
// never panics (a panic on a scheduler goroutine kills the fuzz worker, which the fuzzing
// engine reports with the input), and finishes within seconds.
func FuzzPipeline(f *testing.F) {
	f.Add(`{ allO1 { id name } }`, `{}`)
	f.Add(`query Q($v: int64 = 1, $b: bool) { allO1 { id @skip(if: $b) f1 { id } ...F } allU1 { __typename ... on O1 { id } ... on O2 { label } } } fragment F on O1 { name @include(if: true) }`, `{"v": 2, "b": false}`)
	f.Add(`mutation M { bump(typ: "O1", id: 1) }`, `null`)
	f.Add(`{ ... { __typename } ...on Query @skip { __typename } }`, `{"x": [1, {"a": null}]}`)
	f.Add("{A(A:[[\x16", `0`)
	f.Add(bomb("spread", 6), `{}`)
	f.Add(bomb("union-spread", 4), `{}`)
	f.Add(`subscription S { allO1 { id } } type Foo { a: Int } fragment A on O1 { ...B } fragment B on O1 { ...A }`, `{}`)
	for _, s := range snippets {
		f.Add(`{ allO1 { id `+s+` } }`, `{"v": 1}`)
	}
	f.Fuzz(func(t *testing.T, text string, varsJSON string) {
		if len(text) > 20000 {
			t.Skip()
		}
		var vars map[string]interface{}
		if json.Unmarshal([]byte(varsJSON), &vars) != nil {
			vars = nil
		}
		done := make(chan error, 1)
		start := time.Now()
		go func() { _, _, err := pipeline(context.Background(), text, vars); done <- err }()
		select {
		case err := <-done:
			if err != nil {
				t.Fatalf("input crashed the pipeline: %v\nquery: %q vars: %s", err, text, varsJSON)
			}
		case <-time.After(20 * time.Second):
			t.Fatalf("%d-byte document still running after %v\nquery: %q", len(text), time.Since(start), text)
		}
	})
}
