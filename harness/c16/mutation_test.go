package c16

import (
	"context"
	"errors"
	"fmt"
	"strings"
	"testing"
	"time"

	"github.com/samsarahq/thunder/graphql"
	"github.com/samsarahq/thunder/graphql/schemabuilder"
	"pgregory.net/rapid"

	"verifharness/fakesock"
)

// Mutation leg of the websocket protocol: a mutation whose resolver fails (at the root or in
// a field of the object it returns) yields exactly one "error" envelope for its id - with a
// client-safe message or the generic one - and no "result"; a succeeding one yields exactly
// one "result"; no envelope carries the text of an unsafe error; the connection and a live
// subscription keep working, and a successful mutation makes the subscription re-run.

const mutSecret = "MUTSECRETTOKEN"

type mutObj struct{ Id int64 }

type mutKind struct {
	field string
	// expected: "result", or "error" with one of msgs
	fails bool
	msgs  []string
}

var mutKinds = []mutKind{
	{"ok", false, nil},
	{"okObj { id fine }", false, nil},
	{"failPlain", true, []string{"Internal server error"}},
	{"failClient", true, []string{"client msg"}},
	{"failSafe", true, []string{"safe msg"}},
	{"failWrapped", true, []string{"wrapped msg"}},
	{"failPanic", true, []string{"Internal server error"}},
	{"failHidden", true, []string{"Internal server error"}},
	{"okObj { id failInner }", true, []string{"Internal server error"}},
	{"okObj { id safeInner }", true, []string{"inner safe msg"}},
	{"okObj { safeInner failInner }", true, []string{"inner safe msg", "Internal server error"}},
}

func mutationSchema() *graphql.Schema {
	s := schemabuilder.NewSchema()
	s.Query().FieldFunc("n", func() int64 { return 1 })
	obj := s.Object("MutObj", mutObj{})
	obj.FieldFunc("fine", func(o *mutObj) string { return "fine" })
	obj.FieldFunc("failInner", func(o *mutObj) (string, error) { return "", errors.New("inner " + mutSecret) })
	obj.FieldFunc("safeInner", func(o *mutObj) (string, error) { return "", graphql.NewSafeError("inner safe msg") })
	m := s.Mutation()
	m.FieldFunc("ok", func() int64 { return 7 })
	m.FieldFunc("okObj", func() *mutObj { return &mutObj{Id: 3} })
	m.FieldFunc("failPlain", func() (int64, error) { return 0, errors.New("plain " + mutSecret) })
	m.FieldFunc("failClient", func() (int64, error) { return 0, graphql.NewClientError("client msg") })
	m.FieldFunc("failSafe", func() (int64, error) { return 0, graphql.NewSafeError("safe msg") })
	m.FieldFunc("failWrapped", func() (int64, error) {
		return 0, graphql.WrapAsSafeError(errors.New("wrapped inner "+mutSecret), "wrapped msg")
	})
	m.FieldFunc("failPanic", func() (int64, error) { panic("panic " + mutSecret) })
	m.FieldFunc("failHidden", func() (int64, error) {
		return 0, fmt.Errorf("outer %s: %w", mutSecret, graphql.NewSafeError("hidden safe msg"))
	})
	return s.MustBuild()
}

type mutCase struct {
	Order []int `json:"order"` // indices into mutKinds
}

func checkMutations(c mutCase) (string, error) {
	schema := mutationSchema()
	sock := fakesock.New()
	ctx, cancel := context.WithCancel(context.Background())
	defer cancel()
	conn := graphql.CreateConnection(ctx, sock, schema, graphql.WithMinRerunInterval(time.Millisecond))
	done := make(chan struct{})
	go func() { conn.ServeJSONSocket(); close(done) }()
	defer func() { sock.Close(); <-done }()

	sock.SendEnvelope("sub", "subscribe", map[string]interface{}{"query": "{ n }", "variables": map[string]interface{}{}})
	if !sock.Echo("e0", 10*time.Second) {
		return "no-echo", fmt.Errorf("no echo after subscribe")
	}
	for i, k := range c.Order {
		mk := mutKinds[k%len(mutKinds)]
		id := fmt.Sprintf("m%d", i)
		sock.SendEnvelope(id, "mutate", map[string]interface{}{"query": "mutation { " + mk.field + " }", "variables": map[string]interface{}{}})
		if !sock.WaitFor(10*time.Second, func(outs []fakesock.Out) bool {
			for _, o := range outs {
				if o.ID == id && (o.Type == "result" || o.Type == "error") {
					return true
				}
			}
			return false
		}) {
			return "mutate-no-answer", fmt.Errorf("mutation %q got no answer; written: %s", mk.field, dump(sock.Outs()))
		}
		if !sock.Echo(fmt.Sprintf("e%d", i+1), 10*time.Second) {
			return "no-echo", fmt.Errorf("connection does not answer an echo after mutation %q", mk.field)
		}
		time.Sleep(2 * time.Millisecond) // anything else the mutation's run writes comes right behind its answer
		var mine []fakesock.Out
		for _, o := range sock.Outs() {
			if strings.Contains(string(o.Raw), mutSecret) {
				return "secret-leak", fmt.Errorf("envelope leaks unsafe error text: %s", o.Raw)
			}
			if o.ID == id {
				mine = append(mine, o)
			}
		}
		if !mk.fails {
			if len(mine) != 1 || mine[0].Type != "result" {
				return "mutate-result", fmt.Errorf("succeeding mutation %q must be answered by exactly one result envelope; got %s", mk.field, dump(mine))
			}
			continue
		}
		if len(mine) != 1 || mine[0].Type != "error" {
			return "mutate-error-once", fmt.Errorf("failing mutation %q must be answered by exactly one error envelope and nothing else; got %s", mk.field, dump(mine))
		}
		msg, _ := mine[0].Msg.(string)
		ok := false
		for _, m := range mk.msgs {
			if msg == m {
				ok = true
			}
		}
		if !ok {
			return "mutate-message", fmt.Errorf("failing mutation %q: error message %q, want one of %q", mk.field, msg, mk.msgs)
		}
	}
	// the subscription is still served
	n0 := sock.NOut()
	sock.SendEnvelope("sub2", "subscribe", map[string]interface{}{"query": "{ n }", "variables": map[string]interface{}{}})
	if !sock.WaitFor(10*time.Second, func(outs []fakesock.Out) bool {
		for _, o := range outs[n0:] {
			if o.ID == "sub2" && o.Type == "update" {
				return true
			}
		}
		return false
	}) {
		return "dead-connection", fmt.Errorf("a new subscription is not served after the mutations")
	}
	return "", nil
}

func TestMutations(t *testing.T) {
	rapid.Check(t, func(t *rapid.T) {
		c := mutCase{Order: rapid.SliceOfN(rapid.IntRange(0, len(mutKinds)-1), 1, 6).Draw(t, "order")}
		sig, err := checkMutations(c)
		if err != nil {
			p := rec.Violate("TestMutations", c, sig+": "+err.Error())
			t.Fatalf("%s: %v (replay %s)", sig, err, p)
		}
		fails := 0
		for _, k := range c.Order {
			if mutKinds[k].fails {
				fails++
			}
		}
		rec.Case(fmt.Sprint("mut", c.Order), fails > 0 && fails < len(c.Order), "mutations", fmt.Sprintf("failing=%d", fails))
	})
}
