package c16

import (
	"context"
	"errors"
	"fmt"
	"strings"
	"sync"
	"testing"
	"time"

	"github.com/samsarahq/thunder/batch"
	"github.com/samsarahq/thunder/graphql"
	"github.com/samsarahq/thunder/graphql/schemabuilder"
	"pgregory.net/rapid"

	"verifharness/fakesock"
)

// Resolvers that thunder runs on behalf of a paginated field: text-filter fields (ordinary,
// Expensive, batch) and sort fields (ordinary, batch). They are resolvers "needed for the
// query" like any other: when one fails the paginated field fails, with the error that
// resolver raised under the paginated field's response path - not with an error that its
// failure provoked in a sibling (an ordinary filter resolver that watches its context returns
// ctx.Err() once the group is cancelled) - and over the websocket the failing subscription is
// reported exactly once.

const pgSecret = "PGSECRETTOKEN"

type pgItem struct {
	Id   int64
	Name string
	Alt  string
	Desc string
	Tag  string
	Rank int64
}

type PgFail struct {
	Field   string `json:"field"` // name alt (ordinary) desc (expensive) tag (batch) rank (sort) brank (batch sort)
	Item    int    `json:"item"`
	Kind    string `json:"kind"` // plain safe panic
	DelayUs int    `json:"delay_us"`
}

type PgCase struct {
	N          int      `json:"n"`
	Fails      []PgFail `json:"fails"`
	WatchCtx   bool     `json:"ordinary_watches_ctx"`
	OrdWaitUs  int      `json:"ordinary_wait_us"`
	Fields     []string `json:"filter_fields"` // nil = all
	FilterText bool     `json:"filter_text"`
	Alias      string   `json:"alias,omitempty"`
	SortBy     string   `json:"sort_by,omitempty"`
	Socket     bool     `json:"socket"`
}

var pgState struct {
	mu sync.Mutex
	c  *PgCase
}

func pgCur() *PgCase {
	pgState.mu.Lock()
	defer pgState.mu.Unlock()
	return pgState.c
}

func (f PgFail) msg() string { return fmt.Sprintf("pgfail-%s-%d-%s", f.Field, f.Item, f.Kind) }

func (f PgFail) raise() error {
	time.Sleep(time.Duration(f.DelayUs) * time.Microsecond)
	switch f.Kind {
	case "safe":
		return graphql.NewSafeError(f.msg())
	case "panic":
		panic(f.msg() + " " + pgSecret)
	}
	return errors.New(f.msg() + " " + pgSecret)
}

func pgFailFor(field string, id int64) *PgFail {
	c := pgCur()
	if c == nil {
		return nil
	}
	for i := range c.Fails {
		if c.Fails[i].Field == field && int64(c.Fails[i].Item) == id {
			return &c.Fails[i]
		}
	}
	return nil
}

// pgOrdinary: an ordinary (serially resolved) filter resolver that watches its context
func pgOrdinary(ctx context.Context, field string, it pgItem, text string) (string, error) {
	if f := pgFailFor(field, it.Id); f != nil {
		return "", f.raise()
	}
	if c := pgCur(); c != nil && c.WatchCtx {
		select {
		case <-ctx.Done():
			return "", ctx.Err()
		case <-time.After(time.Duration(c.OrdWaitUs) * time.Microsecond):
		}
	}
	return text, nil
}

var pgSchema = func() *graphql.Schema {
	s := schemabuilder.NewSchema()
	obj := s.Object("PgItem", pgItem{})
	obj.Key("id")
	s.Query().FieldFunc("items", func(ctx context.Context) []pgItem {
		c := pgCur()
		var out []pgItem
		for i := 0; c != nil && i < c.N; i++ {
			out = append(out, pgItem{Id: int64(i), Name: "y name", Alt: "y alt", Desc: "x desc", Tag: "x tag", Rank: int64(7 * i % 5)})
		}
		return out
	}, schemabuilder.Paginated,
		schemabuilder.FilterField("name", func(ctx context.Context, i pgItem) (string, error) { return pgOrdinary(ctx, "name", i, i.Name) }),
		schemabuilder.FilterField("alt", func(ctx context.Context, i pgItem) (string, error) { return pgOrdinary(ctx, "alt", i, i.Alt) }),
		schemabuilder.FilterField("desc", func(ctx context.Context, i pgItem) (string, error) {
			if f := pgFailFor("desc", i.Id); f != nil {
				return "", f.raise()
			}
			return i.Desc, nil
		}, schemabuilder.Expensive),
		schemabuilder.BatchFilterField("tag", func(ctx context.Context, m map[batch.Index]pgItem) (map[batch.Index]string, error) {
			out := map[batch.Index]string{}
			var fail *PgFail
			for k, v := range m {
				if f := pgFailFor("tag", v.Id); f != nil && (fail == nil || f.Item < fail.Item) {
					fail = f
				}
				out[k] = v.Tag
			}
			if fail != nil {
				return nil, fail.raise()
			}
			return out, nil
		}),
		schemabuilder.SortField("rank", func(ctx context.Context, i pgItem) (int64, error) {
			if f := pgFailFor("rank", i.Id); f != nil {
				return 0, f.raise()
			}
			return i.Rank, nil
		}),
		schemabuilder.BatchSortField("brank", func(ctx context.Context, m map[batch.Index]pgItem) (map[batch.Index]int64, error) {
			out := map[batch.Index]int64{}
			var fail *PgFail
			for k, v := range m {
				if f := pgFailFor("brank", v.Id); f != nil && (fail == nil || f.Item < fail.Item) {
					fail = f
				}
				out[k] = v.Rank
			}
			if fail != nil {
				return nil, fail.raise()
			}
			return out, nil
		}))
	return s.MustBuild()
}()

func (c PgCase) query() string {
	var args []string
	if c.FilterText {
		args = append(args, `filterText: "x"`)
		if c.Fields != nil {
			var q []string
			for _, f := range c.Fields {
				q = append(q, fmt.Sprintf("%q", f))
			}
			args = append(args, "filterTextFields: ["+strings.Join(q, ", ")+"]")
		}
	}
	if c.SortBy != "" {
		args = append(args, fmt.Sprintf("sortBy: %q", c.SortBy))
	}
	args = append(args, "first: 100")
	a := ""
	if c.Alias != "" {
		a = c.Alias + ": "
	}
	return "{ " + a + "items(" + strings.Join(args, ", ") + ") { totalCount edges { node { id } } } }"
}

// reachable: the failures whose resolver runs. The texts of the ordinary filters do not match
// (so thunder, which stops at an item's first matching field within a class, resolves all of
// them); those of the expensive and the batch filter match every item. Filtering comes first,
// so a failing filter resolver hides the sort; without one the failing sort resolvers count
// when items are left to sort.
func (c PgCase) reachable() []PgFail {
	var filt, srt []PgFail
	kept := !c.FilterText || c.Fields == nil
	for _, x := range c.Fields {
		kept = kept || x == "desc" || x == "tag"
	}
	for _, f := range c.Fails {
		if f.Item >= c.N {
			continue
		}
		switch f.Field {
		case "rank", "brank":
			if c.SortBy == f.Field && kept {
				srt = append(srt, f)
			}
		default:
			if !c.FilterText {
				continue
			}
			in := c.Fields == nil
			for _, x := range c.Fields {
				in = in || x == f.Field
			}
			if in {
				filt = append(filt, f)
			}
		}
	}
	if len(filt) > 0 {
		return filt
	}
	return srt
}

func (c PgCase) key() string {
	if c.Alias != "" {
		return c.Alias
	}
	return "items"
}

func pgMatch(c PgCase, err error, reach []PgFail) error {
	es := err.Error()
	for _, f := range reach {
		switch f.Kind {
		case "safe":
			if es == f.msg() {
				if _, ok := err.(graphql.SanitizedError); !ok {
					return fmt.Errorf("error %q lost its client-safe marking", es)
				}
				return nil
			}
		case "plain":
			if es == c.key()+": "+f.msg()+" "+pgSecret {
				return nil
			}
		case "panic":
			if strings.HasPrefix(es, c.key()+": graphql: panic: "+f.msg()+" "+pgSecret) {
				return nil
			}
		}
	}
	first := es
	if i := strings.Index(first, "\n"); i > 0 {
		first = first[:i]
	}
	return fmt.Errorf("error %q is not the error of one of the reachable failing resolvers under the response path %q: %+v", first, c.key(), reach)
}

func checkPaginatedDirect(c PgCase) (string, error) {
	reach := c.reachable()
	q, err := graphql.Parse(c.query(), map[string]interface{}{})
	if err != nil {
		return "harness-query", fmt.Errorf("harness: parse: %v", err)
	}
	if err := graphql.PrepareQuery(context.Background(), pgSchema.Query, q.SelectionSet); err != nil {
		return "harness-query", fmt.Errorf("harness: prepare: %v\n%s", err, c.query())
	}
	ctx := batch.WithBatching(context.Background())
	var res interface{}
	func() {
		defer func() {
			if r := recover(); r != nil {
				err = fmt.Errorf("PANIC escaped: %v", r)
			}
		}()
		res, err = graphql.NewExecutor(graphql.NewImmediateGoroutineScheduler()).Execute(ctx, pgSchema.Query, nil, q)
	}()
	if len(reach) == 0 {
		if err != nil {
			return "spurious-error", fmt.Errorf("no failing resolver is reachable but Execute failed: %v\n%s", err, c.query())
		}
		return "", nil
	}
	if err == nil {
		return "partial-data", fmt.Errorf("%d failing filter/sort resolvers are reachable but Execute returned data\n%s", len(reach), c.query())
	}
	if res != nil {
		return "partial-data", fmt.Errorf("Execute returned both an error and data")
	}
	if strings.HasPrefix(err.Error(), "PANIC escaped") {
		return "panic-escaped", err
	}
	if merr := pgMatch(c, err, reach); merr != nil {
		return "wrong-error", fmt.Errorf("%v\nquery: %s", merr, c.query())
	}
	return "", nil
}

func checkPaginatedSocket(c PgCase) (string, error) {
	reach := c.reachable()
	sock := fakesock.New()
	ctx, cancel := context.WithCancel(context.Background())
	defer cancel()
	conn := graphql.CreateConnection(ctx, sock, pgSchema, graphql.WithMinRerunInterval(time.Millisecond))
	done := make(chan struct{})
	go func() { conn.ServeJSONSocket(); close(done) }()
	defer func() { sock.Close(); <-done }()
	sock.SendEnvelope("s", "subscribe", map[string]interface{}{"query": c.query(), "variables": map[string]interface{}{}})
	answered := sock.WaitFor(2*time.Second, func(outs []fakesock.Out) bool {
		for _, o := range outs {
			if o.ID == "s" && (o.Type == "update" || o.Type == "error") {
				return true
			}
		}
		return false
	})
	if !sock.Echo("e", 10*time.Second) {
		return "no-echo", fmt.Errorf("no echo after subscribe")
	}
	time.Sleep(2 * time.Millisecond)
	var mine []fakesock.Out
	for _, o := range sock.Outs() {
		if strings.Contains(string(o.Raw), pgSecret) {
			return "secret-leak", fmt.Errorf("envelope leaks unsafe error text: %s", o.Raw)
		}
		if o.ID == "s" {
			mine = append(mine, o)
		}
	}
	if len(reach) == 0 {
		if !answered || len(mine) != 1 || mine[0].Type != "update" {
			return "spurious-error", fmt.Errorf("no failing resolver reachable; want one update, got %s\n%s", dump(mine), c.query())
		}
		return "", nil
	}
	if len(mine) != 1 || mine[0].Type != "error" {
		return "error-once", fmt.Errorf("a subscription whose paginated field has a failing filter/sort resolver (%+v) must be reported by exactly one error envelope; got %s\n%s", reach, dump(mine), c.query())
	}
	msg, _ := mine[0].Msg.(string)
	ok := false
	for _, f := range reach {
		if f.Kind == "safe" && msg == f.msg() {
			ok = true
		}
		if f.Kind != "safe" && msg == "Internal server error" {
			ok = true
		}
	}
	if !ok {
		return "wrong-message", fmt.Errorf("error envelope message %q does not belong to a reachable failure %+v", msg, reach)
	}
	return "", nil
}

func genPaginated(t *rapid.T) PgCase {
	c := PgCase{N: rapid.IntRange(1, 6).Draw(t, "n"), WatchCtx: rapid.Bool().Draw(t, "watch"), OrdWaitUs: rapid.SampledFrom([]int{0, 100, 500, 2000}).Draw(t, "ordwait"),
		FilterText: rapid.IntRange(0, 4).Draw(t, "filtertext") > 0, Alias: rapid.SampledFrom([]string{"", "", "a"}).Draw(t, "alias"),
		SortBy: rapid.SampledFrom([]string{"", "rank", "brank"}).Draw(t, "sortby"), Socket: rapid.Bool().Draw(t, "socket")}
	if rapid.Bool().Draw(t, "subset") {
		for _, f := range []string{"name", "alt", "desc", "tag"} {
			if rapid.Bool().Draw(t, "in") {
				c.Fields = append(c.Fields, f)
			}
		}
		if c.Fields == nil {
			c.Fields = []string{"name"}
		}
	}
	nf := rapid.IntRange(0, 3).Draw(t, "nfails")
	seen := map[string]bool{}
	for i := 0; i < nf; i++ {
		f := PgFail{Field: rapid.SampledFrom([]string{"name", "alt", "desc", "desc", "tag", "tag", "rank", "brank"}).Draw(t, "field"), Item: rapid.IntRange(0, c.N-1).Draw(t, "item"),
			Kind: rapid.SampledFrom([]string{"plain", "plain", "safe", "panic"}).Draw(t, "kind"), DelayUs: rapid.SampledFrom([]int{0, 0, 50, 300, 1000}).Draw(t, "delay")}
		k := fmt.Sprint(f.Field, f.Item)
		if seen[k] {
			continue
		}
		seen[k] = true
		c.Fails = append(c.Fails, f)
	}
	return c
}

func runPaginated(t interface{ Fatalf(string, ...interface{}) }, test string, c PgCase) {
	pgState.mu.Lock()
	pgState.c = &c
	pgState.mu.Unlock()
	var sig string
	var err error
	if c.Socket {
		sig, err = checkPaginatedSocket(c)
	} else {
		sig, err = checkPaginatedDirect(c)
	}
	if err != nil {
		p := rec.Violate(test, map[string]interface{}{"paginated": c}, sig+": "+err.Error())
		t.Fatalf("%s: %v (replay %s)", sig, err, p)
	}
	reach := c.reachable()
	classes := map[string]bool{}
	for _, f := range reach {
		switch f.Field {
		case "name", "alt":
			classes["ordinary"] = true
		default:
			classes[f.Field] = true
		}
	}
	// non-trivial: a failing expensive or batch filter next to ordinary filters that are also resolved
	ordinaryRuns := c.FilterText && (c.Fields == nil || strings.Contains(strings.Join(c.Fields, ","), "name") || strings.Contains(strings.Join(c.Fields, ","), "alt"))
	nt := len(reach) > 0 && (classes["desc"] || classes["tag"]) && ordinaryRuns
	lbl := "paginated-direct"
	if c.Socket {
		lbl = "paginated-socket"
	}
	rec.Case(fmt.Sprintf("pg%+v", c), nt, lbl, fmt.Sprintf("reachable=%d", len(reach)))
	if nt {
		rec.Sample(lbl, c)
	}
}

func TestPaginatedFailures(t *testing.T) {
	rapid.Check(t, func(t *rapid.T) { runPaginated(t, "TestPaginatedFailures", genPaginated(t)) })
}
