package c16

import (
	"context"
	"encoding/json"
	"errors"
	"fmt"
	"io"
	"log"
	"os"
	"regexp"
	"sort"
	"strings"
	"sync"
	"testing"
	"time"

	"github.com/samsarahq/thunder/graphql"
	"github.com/samsarahq/thunder/reactive"
	"pgregory.net/rapid"

	"verifharness/ev"
	"verifharness/fakesock"
	jv "verifharness/jsonval"
	"verifharness/sched"
	"verifharness/world"
)

var rec = ev.New("C16",
	"cases: generated spec x valid query x a generated set of failing field instances (plain error, ClientError, SafeError, wrapped safe error with secret inner, panic; in plain, expensive and batch fields) executed directly under a generated mode/scheduler and over the websocket protocol; non-trivial = >=2 failing instances reachable, at least one below a list index and one in a batch or expensive field; distinct = hash of (spec, query, fault plan)",
	"which failing field wins is schedule dependent and not asserted",
	"for a batch failure the path of any instance of the same field (list indices wildcarded) is accepted",
	"a named operation may prefix the path with the operation name")

func TestMain(m *testing.M) {
	log.SetOutput(io.Discard)
	reactive.WriteThenReadDelay = 0
	code := m.Run()
	rec.Flush()
	os.Exit(code)
}

type FaultRule struct {
	Typ   string `json:"typ"`
	Field string `json:"field"`
	Mod   int    `json:"mod"`
	Rem   int    `json:"rem"`
	Kind  string `json:"kind"` // plain client safe wrapped panic
}

type Case struct {
	Spec       *world.Spec  `json:"spec"`
	Query      *world.Query `json:"query"`
	Modes      world.Modes  `json:"modes"`
	Sched      string       `json:"sched"`
	Faults     []FaultRule  `json:"faults"`
	Secret     string       `json:"secret"`
	Text       string       `json:"text"`
	InRerunner bool         `json:"in_rerunner"`
}

type failErr struct {
	kind string
	msg  string
	err  error
}

func (f failErr) Error() string { return f.err.Error() }

func (c *Case) fault() world.FaultFunc {
	return func(typ string, id int64, f *world.FieldSpec, a world.ArgVal, batchMode bool) error {
		for _, r := range c.Faults {
			if r.Typ == typ && r.Field == f.Name && int(id)%r.Mod == r.Rem {
				msg := fmt.Sprintf("fail-%s-%s-%d", typ, f.Name, id)
				kind := r.Kind
				if !f.HasErr {
					kind = "panic" // a resolver without error result can only fail by panicking
				}
				switch kind {
				case "plain":
					return failErr{kind, msg, errors.New(msg + "-" + c.Secret)}
				case "client":
					return failErr{kind, msg, graphql.NewClientError("%s", msg)}
				case "safe":
					return failErr{kind, msg, graphql.NewSafeError("%s", msg)}
				case "wrapped":
					return failErr{kind, msg, graphql.WrapAsSafeError(errors.New("inner-"+c.Secret), "%s", msg)}
				case "hidden":
					// NOT marked safe itself, but wraps a client-safe error: still an internal error
					return failErr{kind, msg, fmt.Errorf("%s-%s: %w", msg, c.Secret, graphql.NewSafeError("hidden-safe-%s", msg))}
				case "wrapcancel":
					// an internal error that happens to wrap context.Canceled (a downstream call
					// that was cancelled): still a failure of this field, reported like any other
					return failErr{kind, msg, fmt.Errorf("%s-%s: %w", msg, c.Secret, context.Canceled)}
				default:
					return failErr{"panic", msg, world.PanicErr{Msg: msg + "-" + c.Secret}}
				}
			}
		}
		return nil
	}
}

// the fault handed to thunder's resolvers unwraps failErr into the real error value
func (c *Case) thunderFault() world.FaultFunc {
	f := c.fault()
	return func(typ string, id int64, fs *world.FieldSpec, a world.ArgVal, batchMode bool) error {
		err := f(typ, id, fs, a, batchMode)
		if fe, ok := err.(failErr); ok {
			return fe.err
		}
		return err
	}
}

var numRe = regexp.MustCompile(`^\d+$`)

func wildcard(path []string) string {
	out := make([]string, len(path))
	for i, p := range path {
		if numRe.MatchString(p) {
			out[i] = "#"
		} else {
			out[i] = p
		}
	}
	return strings.Join(out, ".")
}

type refInfo struct {
	want     string
	failures []world.RefFailure
}

func (c *Case) reference() refInfo {
	r := &world.Ref{S: c.Spec, Q: c.Query, Fault: c.fault()}
	res := r.Eval()
	return refInfo{want: jv.Canon(res), failures: r.Failures}
}

func kindOf(err error) (kind, msg string) {
	switch e := err.(type) {
	case failErr:
		return e.kind, e.msg
	case world.PanicErr:
		return "panic", e.Msg
	}
	return "?", err.Error()
}

// matchDirect checks that err (from Execute) corresponds to one reachable failing instance.
func (c *Case) matchDirect(err error, ri refInfo) error {
	es := err.Error()
	for _, f := range ri.failures {
		kind, msg := kindOf(f.Err)
		mode := c.Modes[f.Typ+"."+f.F.Name].Kind
		path := strings.Join(f.Path, ".")
		wpath := wildcard(f.Path)
		switch kind {
		case "client", "safe", "wrapped":
			if es == msg {
				if _, ok := err.(graphql.SanitizedError); !ok {
					return fmt.Errorf("error %q lost its client-safe marking", es)
				}
				return nil
			}
		case "plain", "hidden", "wrapcancel":
			full := msg + "-" + c.Secret
			if kind == "hidden" {
				full += ": hidden-safe-" + msg
			}
			if kind == "wrapcancel" {
				full += ": context canceled"
			}
			for _, prefix := range []string{"", c.Query.OpName + "."} {
				if es == prefix+path+": "+full {
					return nil
				}
				if (mode == "batch" || mode == "batchfb") && strings.HasSuffix(es, ": "+full) {
					got := strings.TrimSuffix(es, ": "+full)
					if wildcard(strings.Split(got, ".")) == prefix+wpath {
						return nil
					}
				}
			}
		case "panic":
			full := msg + "-" + c.Secret
			idx := strings.Index(es, ": graphql: panic: "+full)
			if idx < 0 {
				continue
			}
			got := es[:idx]
			for _, prefix := range []string{"", c.Query.OpName + "."} {
				if got == prefix+path {
					return nil
				}
				if (mode == "batch" || mode == "batchfb") && wildcard(strings.Split(got, ".")) == prefix+wpath {
					return nil
				}
			}
		}
	}
	var descr []string
	for _, f := range ri.failures {
		k, m := kindOf(f.Err)
		descr = append(descr, fmt.Sprintf("%s@%s(%s)", m, strings.Join(f.Path, "."), k))
	}
	first := es
	if i := strings.Index(first, "\n"); i > 0 {
		first = first[:i]
	}
	return fmt.Errorf("error %q is not one of the reachable failures with its response path: %v", first, descr)
}

func copyVals(m map[string]interface{}) map[string]interface{} {
	b, _ := json.Marshal(m)
	var out map[string]interface{}
	json.Unmarshal(b, &out)
	if out == nil {
		out = map[string]interface{}{}
	}
	return out
}

func checkDirect(c Case, ri refInfo) (string, error) {
	b, err := world.Bind(c.Spec, c.Modes)
	if err != nil {
		return "harness-bind", fmt.Errorf("harness: %v", err)
	}
	b.Env.Fault = c.thunderFault()
	res, err := b.Run(context.Background(), c.Text, copyVals(c.Query.Values), sched.New(c.Sched, 3), c.InRerunner)
	if len(ri.failures) == 0 {
		if err != nil {
			return "spurious-error", fmt.Errorf("no failing resolver is reachable but Execute failed: %v\n%s", err, c.Text)
		}
		if got := jv.Canon(res); got != ri.want {
			return "mismatch", fmt.Errorf("no failure reachable; result differs from reference:\n got  %s\n want %s\n%s", got, ri.want, c.Text)
		}
		return "", nil
	}
	if err == nil {
		return "partial-data", fmt.Errorf("%d failing resolvers are reachable but Execute returned data: %s\n%s", len(ri.failures), jv.Canon(res), c.Text)
	}
	if res != nil {
		return "partial-data", fmt.Errorf("Execute returned both an error and data %s", jv.Canon(res))
	}
	if strings.HasPrefix(err.Error(), "PANIC escaped") {
		return "panic-escaped", err
	}
	if strings.HasPrefix(err.Error(), "parse:") || strings.HasPrefix(err.Error(), "prepare:") {
		return "harness-query", fmt.Errorf("harness: %v\n%s", err, c.Text)
	}
	if merr := c.matchDirect(err, ri); merr != nil {
		return "wrong-error", fmt.Errorf("%v\nquery:\n%s", merr, c.Text)
	}
	return "", nil
}

// ---------- websocket leg ----------

type subLogger struct {
	mu     sync.Mutex
	events []string
}

func (l *subLogger) Subscribe(ctx context.Context, id string, tags map[string]string) {
	l.mu.Lock()
	l.events = append(l.events, "S:"+id)
	l.mu.Unlock()
}
func (l *subLogger) Unsubscribe(ctx context.Context, id string) {
	l.mu.Lock()
	l.events = append(l.events, "U:"+id)
	l.mu.Unlock()
}
func (l *subLogger) has(ev string) bool {
	l.mu.Lock()
	defer l.mu.Unlock()
	for _, e := range l.events {
		if e == ev {
			return true
		}
	}
	return false
}

func checkSocket(c Case, ri refInfo) (string, error) {
	b, err := world.Bind(c.Spec, c.Modes)
	if err != nil {
		return "harness-bind", fmt.Errorf("harness: %v", err)
	}
	b.Env.Fault = c.thunderFault()
	sock := fakesock.New()
	lg := &subLogger{}
	ctx, cancel := context.WithCancel(context.Background())
	defer cancel()
	conn := graphql.CreateConnection(ctx, sock, b.Schema, graphql.WithMinRerunInterval(time.Millisecond),
		graphql.WithSubscriptionLogger(lg), graphql.WithExecutor(graphql.NewExecutor(sched.New(c.Sched, 5))))
	done := make(chan struct{})
	go func() { conn.ServeJSONSocket(); close(done) }()
	defer func() { sock.Close(); <-done }()

	sock.SendEnvelope("s1", "subscribe", map[string]interface{}{"query": c.Text, "variables": copyVals(c.Query.Values)})
	// a healthy second subscription on the same connection
	sock.SendEnvelope("ok", "subscribe", map[string]interface{}{"query": "{ __typename }", "variables": map[string]interface{}{}})
	got := sock.WaitFor(10*time.Second, func(outs []fakesock.Out) bool {
		a, b := false, false
		for _, o := range outs {
			if o.ID == "s1" && (o.Type == "update" || o.Type == "error") {
				a = true
			}
			if o.ID == "ok" && o.Type == "update" {
				b = true
			}
		}
		return a && b
	})
	if !got {
		return "no-answer", fmt.Errorf("no update/error for the subscription and the healthy subscription within 10s; written: %s", dump(sock.Outs()))
	}
	if !sock.Echo("e1", 10*time.Second) {
		return "no-echo", fmt.Errorf("connection does not answer an echo after the failing subscription")
	}
	time.Sleep(2 * time.Millisecond)
	outs := sock.Outs()
	for _, o := range outs {
		if strings.Contains(string(o.Raw), c.Secret) {
			return "secret-leak", fmt.Errorf("envelope leaks unsafe error text: %s", o.Raw)
		}
	}
	var mine []fakesock.Out
	for _, o := range outs {
		if o.ID == "s1" {
			mine = append(mine, o)
		}
	}
	if len(ri.failures) == 0 {
		if len(mine) != 1 || mine[0].Type != "update" {
			return "socket-spurious", fmt.Errorf("no failure reachable but envelopes for s1 are %s", dump(mine))
		}
		cl := fakesock.NewClient()
		if err := cl.Apply(mine[0]); err != nil {
			return "socket-update", fmt.Errorf("first update not a full value: %v: %s", err, mine[0].Raw)
		}
		return "", nil
	}
	if len(mine) != 1 || mine[0].Type != "error" {
		return "socket-not-once", fmt.Errorf("initially failing subscription must be reported by exactly one error envelope; got %s", dump(mine))
	}
	msg, _ := mine[0].Msg.(string)
	okMsg := msg == "Internal server error"
	for _, f := range ri.failures {
		k, m := kindOf(f.Err)
		if (k == "client" || k == "safe" || k == "wrapped") && msg == m {
			okMsg = true
		}
	}
	if !okMsg {
		return "socket-message", fmt.Errorf("error envelope message %q is neither a client-safe message of a reachable failure nor the generic message", msg)
	}
	// the id becomes free again once the subscription was closed
	freed := false
	for i := 0; i < 2000; i++ {
		if lg.has("U:s1") {
			freed = true
			break
		}
		time.Sleep(time.Millisecond)
	}
	if !freed {
		return "socket-not-closed", fmt.Errorf("failing subscription was never closed (no Unsubscribe logged within 2s)")
	}
	n0 := sock.NOut()
	sock.SendEnvelope("s1", "subscribe", map[string]interface{}{"query": "{ __typename }", "variables": map[string]interface{}{}})
	if !sock.WaitFor(10*time.Second, func(outs []fakesock.Out) bool {
		for _, o := range outs[n0:] {
			if o.ID == "s1" {
				return true
			}
		}
		return false
	}) {
		return "socket-id-stuck", fmt.Errorf("no answer to re-subscribing the freed id")
	}
	for _, o := range sock.Outs()[n0:] {
		if o.ID == "s1" && o.Type != "update" {
			return "socket-id-stuck", fmt.Errorf("re-subscribe of the freed id answered %s", o.Raw)
		}
	}
	// mutation leg: the same selection set cannot be a mutation; use a failing-free check only
	return "", nil
}

func dump(outs []fakesock.Out) string {
	var parts []string
	for _, o := range outs {
		parts = append(parts, string(o.Raw))
	}
	return "[" + strings.Join(parts, " ") + "]"
}

// ---------- generation ----------

func genCase(t *rapid.T) (Case, world.Features) {
	s := world.GenSpec(t)
	// in half of the cases every list of object pointers may hold null entries (response
	// indices then differ from the indices among the objects that are resolved)
	nils := rapid.Bool().Draw(t, "nilentries")
	for i := range s.Objects {
		for j := range s.Objects[i].Fields {
			if rapid.IntRange(0, 3).Draw(t, "forceerr") > 0 {
				s.Objects[i].Fields[j].HasErr = true
			}
			if nils && s.Objects[i].Fields[j].Ret == "listpobj" {
				s.Objects[i].Fields[j].NilElem = true
			}
		}
	}
	q, feat := world.GenQuery(t, s, world.GenOpts{})
	m := world.Modes{}
	var candidates [][2]string
	for _, o := range s.Objects {
		for _, f := range o.Fields {
			kinds := []string{"plain", "expensive", "batch", "batch"}
			if o.Type == "Query" {
				kinds = []string{"plain", "expensive"}
			}
			m[o.Type+"."+f.Name] = world.Mode{Kind: rapid.SampledFrom(kinds).Draw(t, "mode"), Ctx: rapid.Bool().Draw(t, "ctx"), K: rapid.SampledFrom([]int{-100, 2, 1000}).Draw(t, "k")}
		}
	}
	// fault candidates: fields actually selected somewhere in the query
	seen := map[string]bool{}
	var walk func(typ string, ss []world.Sel)
	fragSeen := map[string]bool{}
	walk = func(typ string, ss []world.Sel) {
		for _, sl := range ss {
			switch sl.Kind {
			case "field":
				tf := s.FieldOf(typ, sl.Name)
				if tf == nil {
					continue
				}
				if tf.Spec != nil && !seen[typ+"."+sl.Name] {
					seen[typ+"."+sl.Name] = true
					candidates = append(candidates, [2]string{typ, sl.Name})
				}
				if comp, isU := world.Composite(tf.GoType); comp != "" {
					if isU {
						for _, mname := range world.UnionMembers[comp] {
							walk(mname, sl.Sub)
						}
					} else {
						walk(comp, sl.Sub)
					}
				}
			case "inline":
				if sl.On == typ {
					walk(typ, sl.Sub)
				} else if _, ok := world.UnionTypes[sl.On]; ok {
					walk(typ, sl.Sub)
				}
			case "spread":
				if f := q.Frag(sl.Frag); f != nil && f.On == typ && !fragSeen[typ+sl.Frag] {
					fragSeen[typ+sl.Frag] = true
					walk(typ, f.Sels)
				}
			}
		}
	}
	walk("Query", q.Sels)
	c := Case{Spec: s, Query: q, Modes: m, Sched: rapid.SampledFrom(sched.Names).Draw(t, "sched"), Text: q.Text(),
		Secret: fmt.Sprintf("SECRET%04d", rapid.IntRange(0, 9999).Draw(t, "secret")), InRerunner: rapid.Bool().Draw(t, "rerunner")}
	nf := rapid.IntRange(0, 6).Draw(t, "nfaults")
	if nf == 0 && rapid.IntRange(0, 3).Draw(t, "nofault") > 0 {
		nf = 2 // cases without any failing resolver are kept, but rarely
	}
	for i := 0; i < nf && len(candidates) > 0; i++ {
		cd := candidates[rapid.IntRange(0, len(candidates)-1).Draw(t, "which")]
		mod := rapid.IntRange(1, 2).Draw(t, "mod")
		c.Faults = append(c.Faults, FaultRule{Typ: cd[0], Field: cd[1], Mod: mod, Rem: rapid.IntRange(0, mod-1).Draw(t, "rem"),
			Kind: rapid.SampledFrom([]string{"plain", "plain", "client", "safe", "wrapped", "panic", "hidden", "wrapcancel"}).Draw(t, "kind")})
	}
	return c, feat
}

func run(t interface{ Fatalf(string, ...interface{}) }, test string, c Case, socket bool) {
	ri := c.reference()
	sig, err := checkDirect(c, ri)
	if err == nil && socket {
		sig, err = checkSocket(c, ri)
	}
	if err != nil {
		p := rec.Violate(test, c, sig+": "+err.Error())
		t.Fatalf("%s: %v (replay %s)", sig, err, p)
	}
	underList, batchOrExp := false, false
	kinds := map[string]bool{}
	for _, f := range ri.failures {
		for _, p := range f.Path {
			if numRe.MatchString(p) {
				underList = true
			}
		}
		if k := c.Modes[f.Typ+"."+f.F.Name].Kind; k != "plain" {
			batchOrExp = true
		}
		k, _ := kindOf(f.Err)
		kinds[k] = true
	}
	nt := len(ri.failures) >= 2 && underList && batchOrExp
	labels := []string{fmt.Sprintf("failures=%d", min(len(ri.failures), 3))}
	for k := range kinds {
		labels = append(labels, "kind:"+k)
	}
	if socket {
		labels = append(labels, "socket")
	}
	sort.Strings(labels)
	sb, _ := json.Marshal(c.Spec)
	fb, _ := json.Marshal(c.Faults)
	rec.Case(string(sb)+c.Text+string(fb), nt, labels...)
	if nt {
		var fl []string
		for _, f := range ri.failures {
			k, m := kindOf(f.Err)
			fl = append(fl, fmt.Sprintf("%s@%s(%s)", m, strings.Join(f.Path, "."), k))
		}
		if len(fl) > 6 {
			fl = fl[:6]
		}
		rec.Sample(strings.Join(labels, "+"), map[string]interface{}{"query": c.Text, "faults": c.Faults, "reachable_failures": fl})
	}
}

func min(a, b int) int {
	if a < b {
		return a
	}
	return b
}

func TestDirect(t *testing.T) {
	rapid.Check(t, func(t *rapid.T) { c, _ := genCase(t); run(t, "TestDirect", c, false) })
}

func TestSocket(t *testing.T) {
	rapid.Check(t, func(t *rapid.T) { c, _ := genCase(t); run(t, "TestSocket", c, true) })
}

func TestReplay(t *testing.T) {
	p := os.Getenv("VERIF_REPLAY")
	if p == "" {
		t.Skip("no VERIF_REPLAY")
	}
	var mc mutCase
	if _, err := ev.LoadReplay(p, &mc); err == nil && len(mc.Order) > 0 {
		if sig, err := checkMutations(mc); err != nil {
			rec.Violate("TestReplay", mc, sig+": "+err.Error())
			t.Fatalf("%s: %v", sig, err)
		}
		return
	}
	var pw struct {
		Paginated *PgCase `json:"paginated"`
	}
	if _, err := ev.LoadReplay(p, &pw); err == nil && pw.Paginated != nil {
		for i := 0; i < 20; i++ {
			runPaginated(t, "TestReplay", *pw.Paginated)
		}
		return
	}
	var c Case
	if _, err := ev.LoadReplay(p, &c); err != nil {
		t.Fatalf("harness: cannot load replay: %v", err)
	}
	for i := 0; i < 5; i++ {
		run(t, "TestReplay", c, true)
	}
}
