package c10

import (
	"context"
	"database/sql"
	"fmt"
	"os"
	"reflect"
	"sort"
	"strings"
	"sync"
	"sync/atomic"
	"testing"
	"time"

	"github.com/samsarahq/thunder/batch"
	"github.com/samsarahq/thunder/sqlgen"
	"pgregory.net/rapid"

	"verifharness/ev"
	"verifharness/fakesql"
	sw "verifharness/sqlworld"
)

var rec = ev.New("C10",
	"cases: generated table contents (<=12 rows over three table structs) and 2-10 concurrent Query/QueryRow/FullScanQuery calls (a quarter with SelectOptions: LIMIT, ORDER BY, extra WHERE, FOR UPDATE, hint only) with filters over 0-3 columns taken from existing rows or fresh values, in several Go representations (exact field type, int/int64/int32 variants, named types, pointers, nil, typed nil pointers); each call runs alone without batching and concurrently under one batch.WithBatching context against the same model database; results (rows as multiset, or the QueryRow error class) must be identical (LIMIT without ORDER BY: as many rows, all matching); non-trivial = >=2 calls with different filters were served by one SELECT; distinct = hash of (rows, calls)",
	"the model database defines 'the rows the database returns' (DESIGN 3.4); only same-type comparisons are generated")

func TestMain(m *testing.M) { code := m.Run(); rec.Flush(); os.Exit(code) }

type call struct {
	row    bool // QueryRow
	filter sqlgen.Filter
	descr  string
	// options (nil for most calls): LIMIT, ORDER BY, an extra WHERE clause, FOR UPDATE, or
	// only the AllowNoIndex hint (FullScanQuery)
	options  *sqlgen.SelectOptions
	fullScan bool
}

func (c call) opts() *sqlgen.SelectOptions {
	if c.options == nil {
		return nil
	}
	cp := *c.options
	cp.Values = append([]interface{}(nil), c.options.Values...)
	return &cp
}

type outcome struct {
	rows []string
	err  string
}

func (o outcome) String() string { return fmt.Sprintf("rows=%v err=%q", o.rows, o.err) }

func classify(err error) string {
	switch {
	case err == nil:
		return ""
	case err == sql.ErrNoRows:
		return "no-rows"
	case strings.Contains(err.Error(), "expected no more than 1 result"):
		return "more-than-one"
	case strings.Contains(err.Error(), "harness:"):
		return "HARNESS " + err.Error()
	}
	return "error: " + err.Error()
}

func runCall(ctx context.Context, db *sqlgen.DB, table string, c call) outcome {
	typ := sw.Types[table]
	if c.row {
		res := reflect.New(reflect.PtrTo(typ))
		err := db.QueryRow(ctx, res.Interface(), c.filter, c.opts())
		if err != nil {
			return outcome{err: classify(err)}
		}
		return outcome{rows: []string{sw.Describe(res.Elem().Interface())}}
	}
	res := reflect.New(reflect.SliceOf(reflect.PtrTo(typ)))
	var err error
	if c.fullScan {
		err = db.FullScanQuery(ctx, res.Interface(), c.filter, c.opts())
	} else {
		err = db.Query(ctx, res.Interface(), c.filter, c.opts())
	}
	if err != nil {
		return outcome{err: classify(err)}
	}
	var out []string
	for i := 0; i < res.Elem().Len(); i++ {
		out = append(out, sw.Describe(res.Elem().Index(i).Interface()))
	}
	if c.options == nil || c.options.OrderBy == "" {
		sort.Strings(out)
	}
	return outcome{rows: out}
}

// alternative Go representations of a filter value that denote the same column value
func variants(t *rapid.T, v reflect.Value) interface{} {
	if !v.IsValid() {
		return nil
	}
	if v.Kind() == reflect.Ptr {
		if v.IsNil() {
			if rapid.Bool().Draw(t, "typednil") {
				return v.Interface() // typed nil pointer
			}
			return nil
		}
		if rapid.Bool().Draw(t, "deref") {
			return variants(t, v.Elem())
		}
		return v.Interface()
	}
	choice := rapid.IntRange(0, 5).Draw(t, "variant")
	switch v.Kind() {
	case reflect.Int8, reflect.Int16, reflect.Int32, reflect.Int64, reflect.Int:
		x := v.Int()
		switch choice {
		case 1:
			return int(x)
		case 2:
			return x
		case 3:
			if x >= -1<<31 && x < 1<<31 {
				return int32(x)
			}
		case 4:
			p := reflect.New(v.Type())
			p.Elem().Set(v)
			return p.Interface()
		case 5:
			// a pointer to an integer of another width
			if v.Kind() != reflect.Int {
				p := int(x)
				return &p
			}
			p := x
			return &p
		}
	case reflect.Uint8, reflect.Uint16, reflect.Uint32, reflect.Uint64:
		x := v.Uint()
		switch choice {
		case 1:
			return int64(x)
		case 2:
			return uint64(x)
		case 3:
			return int(x)
		case 4:
			p := reflect.New(v.Type())
			p.Elem().Set(v)
			return p.Interface()
		case 5:
			if x <= 1<<62 {
				p := int64(x)
				return &p
			}
		}
	case reflect.String:
		switch choice {
		case 1:
			return v.String()
		case 2:
			return sw.Named(v.String())
		case 4:
			p := reflect.New(v.Type())
			p.Elem().Set(v)
			return p.Interface()
		}
	case reflect.Float64, reflect.Float32, reflect.Bool, reflect.Struct, reflect.Slice, reflect.Map:
		// (no pointer variant for struct-typed tagged columns: the Valuer of a non-pointer
		// tagged column panics on a pointer value, alone and batched alike - not a C10 matter)
		if choice == 4 && v.Kind() != reflect.Slice && v.Kind() != reflect.Map && (v.Kind() != reflect.Struct || v.Type() == reflect.TypeOf(time.Time{})) {
			p := reflect.New(v.Type())
			p.Elem().Set(v)
			return p.Interface()
		}
	}
	return v.Interface()
}

// Strings that collide with others once tuples of values are printed and joined (with ';',
// ',' or a blank), and the text fmt prints for a nil: a batch that keys its filters by such a
// rendering merges calls that differ (kept change C10k).
func init() { sw.AddStrings("a;b", "a;", ";b", "b;", ";", "<nil>", "a,b", "a b", " b", "a ") }

var filterCols = map[string][]string{
	"row_a": {"id", "shard", "i8", "i16", "i32", "i", "u8", "u16", "u32", "u64", "b", "s", "n", "ni", "by", "t", "MixedCol"},
	"row_b": {"id", "shard", "p_i", "p_i32", "p_u16", "p_b", "p_s", "p_n", "p_t", "by"},
	"row_c": {"key", "shard", "tx", "p_tx", "bin", "i_n_s", "ini", "i_n_b", "sc", "p_sc", "bin_o", "j_mar"},
}

type built struct {
	table string
	rows  []interface{}
	calls []call
	// contexts: the calls are spread over this many batching contexts (requests) that run at
	// the same time; slowSelectUs keeps every SELECT in flight for a while so that batches of
	// different contexts overlap
	contexts     int
	slowSelectUs int
	// abandoned: before the calls run, this many earlier calls on the same batching contexts
	// were made with a context that is already cancelled (a request part that was given up);
	// what they return does not matter, the calls that follow must not notice them
	abandoned int
}

// collisionPool: a small family of strings of which many pairs of tuples print alike when the
// values are joined with ';' (("a;b","") and ("a","b;"), ("a;","b") and ("a",";b")), plus the
// text fmt prints for nil. collisionCols: the text columns of each table.
var collisionPool = []string{"a", "b", "", "a;b", "b;", "a;", ";b", "<nil>"}
var collisionCols = map[string][]string{"row_a": {"s", "n"}, "row_b": {"p_s", "p_n"}, "row_c": {"i_n_s", "tx", "sc", "p_tx", "p_sc"}}

func gen(t *rapid.T) built {
	collide := rapid.IntRange(0, 4).Draw(t, "collide") == 0
	if collide {
		defer sw.WithStrings(collisionPool)()
	}
	b := built{table: rapid.SampledFrom(sw.Tables).Draw(t, "table"), contexts: rapid.SampledFrom([]int{1, 1, 2, 3}).Draw(t, "contexts"), slowSelectUs: rapid.SampledFrom([]int{0, 0, 300, 1500}).Draw(t, "slowselect"), abandoned: rapid.SampledFrom([]int{0, 0, 0, 1, 3}).Draw(t, "abandoned")}
	n := rapid.IntRange(0, 12).Draw(t, "nrows")
	for i := 0; i < n; i++ {
		b.rows = append(b.rows, sw.GenRow(t, b.table, i+1))
	}
	tbl := schema.ByName[b.table]
	nc := rapid.IntRange(2, 10).Draw(t, "ncalls")
	for i := 0; i < nc; i++ {
		c := call{row: rapid.IntRange(0, 3).Draw(t, "isrow") == 0, filter: sqlgen.Filter{}}
		if i > 0 && rapid.IntRange(0, 4).Draw(t, "repeat") == 0 {
			// an equal filter repeated
			prev := b.calls[rapid.IntRange(0, i-1).Draw(t, "prev")]
			c.filter, c.descr = prev.filter, prev.descr
			if c.row == prev.row {
				c.options, c.fullScan = prev.options, prev.fullScan
			} else if i := strings.Index(c.descr, "+opts{"); i >= 0 {
				c.descr = strings.TrimPrefix(c.descr[:i], "FullScan")
			}
			b.calls = append(b.calls, c)
			continue
		}
		k := rapid.IntRange(0, 3).Draw(t, "ncols")
		cols := rapid.SliceOfNDistinct(rapid.SampledFrom(filterCols[b.table]), k, k, rapid.ID[string]).Draw(t, "cols")
		if collide && rapid.IntRange(0, 3).Draw(t, "textcols") > 0 {
			// the same one or two text columns in most calls of a collision case
			cc := collisionCols[b.table]
			k = rapid.IntRange(1, 2).Draw(t, "ntext")
			cols = append([]string(nil), cc[:k]...)
			if len(cc) > 2 && rapid.Bool().Draw(t, "othertext") {
				cols = rapid.SliceOfNDistinct(rapid.SampledFrom(cc), k, k, rapid.ID[string]).Draw(t, "textcolset")
			}
		}
		var src reflect.Value
		if len(b.rows) > 0 && rapid.IntRange(0, 4).Draw(t, "fromrow") > 0 {
			src = reflect.ValueOf(b.rows[rapid.IntRange(0, len(b.rows)-1).Draw(t, "srcrow")]).Elem()
		} else {
			src = reflect.ValueOf(sw.GenRow(t, b.table, rapid.IntRange(1, 14).Draw(t, "freshid"))).Elem()
		}
		var parts []string
		for _, cn := range cols {
			fv := src.FieldByIndex(tbl.ColumnsByName[cn].Index)
			val := variants(t, fv)
			c.filter[cn] = val
			parts = append(parts, fmt.Sprintf("%s=%T(%v)", cn, val, deref(val)))
		}
		sort.Strings(parts)
		c.descr = fmt.Sprintf("%s{%s}", map[bool]string{true: "QueryRow", false: "Query"}[c.row], strings.Join(parts, ","))
		if rapid.IntRange(0, 3).Draw(t, "hasopts") == 0 {
			pk := map[string]string{"row_a": "id", "row_b": "id", "row_c": "key"}[b.table]
			o := &sqlgen.SelectOptions{}
			switch rapid.IntRange(0, 5).Draw(t, "optkind") {
			case 0: // only a hint: the options carry nothing that changes the result
				if c.row {
					o.AllowNoIndex = true
				} else {
					c.fullScan = rapid.Bool().Draw(t, "fullscan")
					o.AllowNoIndex = true
					if c.fullScan && rapid.Bool().Draw(t, "niloptions") {
						o = nil
					}
				}
			case 1:
				o.Limit = rapid.IntRange(1, 3).Draw(t, "limit")
			case 2:
				o.Limit = rapid.IntRange(1, 3).Draw(t, "limit")
				o.OrderBy = pk + rapid.SampledFrom([]string{"", " DESC"}).Draw(t, "desc")
			case 3:
				o.OrderBy = pk + rapid.SampledFrom([]string{"", " DESC"}).Draw(t, "desc")
			case 4:
				// an extra clause of the caller
				o.Where = pk + " IN (?, ?)"
				if b.table == "row_c" {
					o.Values = []interface{}{"k1", fmt.Sprintf("k%d", rapid.IntRange(1, 6).Draw(t, "k"))}
				} else {
					o.Values = []interface{}{int64(1), int64(rapid.IntRange(1, 6).Draw(t, "k"))}
				}
			case 5:
				o.ForUpdate = true
			}
			c.options = o
			if o != nil {
				c.descr += fmt.Sprintf("+opts{where=%q values=%v orderby=%q limit=%d forupdate=%v noindex=%v}", o.Where, o.Values, o.OrderBy, o.Limit, o.ForUpdate, o.AllowNoIndex)
			}
			if c.fullScan {
				c.descr = "FullScan" + c.descr
			}
		}
		b.calls = append(b.calls, c)
	}
	return b
}

func deref(v interface{}) interface{} {
	rv := reflect.ValueOf(v)
	if rv.IsValid() && rv.Kind() == reflect.Ptr && !rv.IsNil() {
		return rv.Elem().Interface()
	}
	return v
}

var schema = sw.NewSchema()

func check(b built) (nt bool, labels []string, sig string, err error) {
	eng := fakesql.NewFromSchema(schema)
	conn := eng.Open()
	defer conn.Close()
	db := sqlgen.NewDB(conn, schema)
	ctx := context.Background()
	for _, r := range b.rows {
		var err error
		if b.table == "row_a" {
			_, err = db.InsertRow(ctx, r)
		} else {
			_, err = db.UpsertRow(ctx, r)
		}
		if err != nil {
			return false, nil, "harness-insert", fmt.Errorf("harness: cannot insert %s: %v", sw.Describe(r), err)
		}
	}
	// alone, without batching
	alone := make([]outcome, len(b.calls))
	for i, c := range b.calls {
		alone[i] = runCall(ctx, db, b.table, c)
		if strings.HasPrefix(alone[i].err, "HARNESS") {
			return false, nil, "harness", fmt.Errorf("harness: %s for %s", alone[i].err, c.descr)
		}
	}
	nBefore := len(eng.Statements())
	// together, under one batching context
	nctx := b.contexts
	if nctx < 1 {
		nctx = 1
	}
	bctxs := make([]context.Context, nctx)
	for i := range bctxs {
		bctxs[i] = batch.WithBatching(ctx)
	}
	if b.slowSelectUs > 0 {
		d := time.Duration(b.slowSelectUs) * time.Microsecond
		eng.SetSelectHooks(func() { time.Sleep(d) }, nil)
		defer eng.SetSelectHooks(nil, nil)
	}
	for k := 0; k < b.abandoned && len(b.calls) > 0; k++ {
		c := b.calls[k%len(b.calls)]
		if c.options != nil {
			continue
		}
		dead, cancel := context.WithCancel(bctxs[k%len(bctxs)])
		cancel()
		fin := make(chan struct{})
		go func() {
			defer close(fin)
			defer func() { recover() }()
			runCall(dead, db, b.table, c)
		}()
		select {
		case <-fin:
		case <-time.After(10 * time.Second):
			return false, nil, "hang", fmt.Errorf("a call on a cancelled context did not return within 10s")
		}
	}
	batched := make([]outcome, len(b.calls))
	var wg sync.WaitGroup
	start := make(chan struct{})
	for i, c := range b.calls {
		i, c := i, c
		wg.Add(1)
		go func() {
			defer wg.Done()
			defer func() {
				if r := recover(); r != nil {
					batched[i] = outcome{err: fmt.Sprintf("PANIC %v", r)}
				}
			}()
			<-start
			batched[i] = runCall(bctxs[i%len(bctxs)], db, b.table, c)
		}()
	}
	close(start)
	done := make(chan struct{})
	go func() { wg.Wait(); close(done) }()
	select {
	case <-done:
	case <-time.After(20 * time.Second):
		return false, nil, "hang", fmt.Errorf("batched calls did not return within 20s")
	}
	selects := 0
	for _, le := range eng.Statements()[nBefore:] {
		if le.Stmt != nil && le.Stmt.Kind == "select" {
			selects++
		}
	}
	if errs := eng.HarnessErrs(); len(errs) > 0 {
		// a statement outside the modelled dialect or with cross-type values. With batching
		// this can be caused by thunder sending raw filter values; report the first.
		for i := range b.calls {
			if alone[i].err == "" && strings.HasPrefix(batched[i].err, "HARNESS") {
				return false, nil, "batched-rejected", fmt.Errorf("call %s works alone but its batched SELECT was not executable: %s", b.calls[i].descr, batched[i].err)
			}
		}
		return false, nil, "harness", fmt.Errorf("harness: %v", errs[0])
	}
	distinctFilters := map[string]bool{}
	nullFilter, reprDiffers := false, false
	for i, c := range b.calls {
		distinctFilters[c.descr[strings.Index(c.descr, "{"):]] = true
		for _, v := range c.filter {
			rv := reflect.ValueOf(v)
			if !rv.IsValid() || (rv.Kind() == reflect.Ptr && rv.IsNil()) {
				nullFilter = true
			}
		}
		if c.options != nil && c.options.Limit > 0 && c.options.OrderBy == "" {
			// LIMIT without ORDER BY: which of the matching rows come back is the database's
			// choice; the batched call must return as many, all of them matching
			full := c
			o := *c.options
			o.Limit = 0
			full.options, full.row = &o, false
			all := runCall(ctx, db, b.table, full)
			in := map[string]int{}
			for _, r := range all.rows {
				in[r]++
			}
			ok := alone[i].err == batched[i].err && len(alone[i].rows) == len(batched[i].rows)
			for _, r := range batched[i].rows {
				in[r]--
				if in[r] < 0 {
					ok = false
				}
			}
			if !ok {
				return false, nil, "differs", fmt.Errorf("call %d %s on %s with %d rows:\n alone   %s\n batched %s\n all rows matching without the limit: %v\n all calls: %v", i, c.descr, b.table, len(b.rows), alone[i], batched[i], all.rows, descrs(b.calls))
			}
			continue
		}
		if alone[i].String() != batched[i].String() {
			return false, nil, "differs", fmt.Errorf("call %d %s on %s with %d rows:\n alone   %s\n batched %s\n all calls: %v", i, c.descr, b.table, len(b.rows), alone[i], batched[i], descrs(b.calls))
		}
	}
	plain := 0
	for _, c := range b.calls {
		if c.options == nil {
			plain++
		}
	}
	if nctx == 1 && plain >= 2 {
		atomic.AddInt64(&eligible, 1)
		if selects < len(b.calls) {
			atomic.AddInt64(&combined, 1)
		}
	}
	nt = selects < len(b.calls) && len(distinctFilters) >= 2
	_ = reprDiffers
	for k, v := range map[string]bool{"combined": selects < len(b.calls), "null-filter": nullFilter, "distinct-filters>=2": len(distinctFilters) >= 2, "table:" + b.table: true} {
		if v {
			labels = append(labels, k)
		}
	}
	sort.Strings(labels)
	return nt, labels, "", nil
}

func descrs(cs []call) []string {
	var out []string
	for _, c := range cs {
		out = append(out, c.descr)
	}
	return out
}

// eligible / combined: cases with >= 2 calls without options in one batching context, and
// how many of them were served by fewer SELECTs than calls
var eligible, combined int64

func TestBatchTransparent(t *testing.T) {
	defer func() {
		// "concurrent calls are combined into fewer SELECT statements": which calls share a
		// batch is a matter of timing, so a single case proves nothing, but over hundreds of
		// cases whose calls start together it has to happen
		e, c := atomic.LoadInt64(&eligible), atomic.LoadInt64(&combined)
		if e >= 200 && c == 0 && !t.Failed() {
			p := rec.Violate("TestBatchTransparent", map[string]interface{}{"eligible_cases": e, "combined_cases": c}, fmt.Sprintf("never-combined: in %d cases with several concurrent Query/QueryRow calls under one batching context not one SELECT served more than one call", e))
			t.Fatalf("batching never combined any calls in %d eligible cases (replay %s)", e, p)
		}
	}()
	rapid.Check(t, propBatchTransparent)
}

// FuzzBatchTransparent: the same property driven by the coverage-guided engine (thorough tier).
func FuzzBatchTransparent(f *testing.F) { f.Fuzz(rapid.MakeFuzz(propBatchTransparent)) }

func propBatchTransparent(t *rapid.T) {
	{
		b := gen(t)
		nt, labels, sig, err := check(b)
		var rows []string
		for _, r := range b.rows {
			rows = append(rows, sw.Describe(r))
		}
		cs := map[string]interface{}{"table": b.table, "rows": rows, "calls": descrs(b.calls)}
		if err != nil {
			p := rec.Violate("TestBatchTransparent", cs, sig+": "+err.Error())
			t.Fatalf("%s: %v (replay %s)", sig, err, p)
		}
		rec.Case(fmt.Sprint(cs), nt, labels...)
		if nt {
			rec.Sample(strings.Join(labels, "+"), cs)
		}
	}
}

func TestReplay(t *testing.T) {
	if os.Getenv("VERIF_REPLAY") == "" {
		t.Skip("no VERIF_REPLAY")
	}
	t.Skip("C10 replays are re-run by seed (filters hold typed Go values); the replay file lists rows and calls")
}
