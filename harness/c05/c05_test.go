package c05

import (
	"context"
	"encoding/json"
	"errors"
	"fmt"
	"os"
	"runtime"
	"strings"
	"sync"
	"sync/atomic"
	"testing"
	"time"

	"github.com/samsarahq/thunder/batch"
	cl "github.com/samsarahq/thunder/concurrencylimiter"
	"pgregory.net/rapid"

	"verifharness/ev"
)

var rec = ev.New("C05",
	"cases: 1..40 callers with unique args and arrival offsets, optional Shard, MaxSize, WaitInterval/MaxDuration, per-invocation outcome plan (ok/error/panic/short/long/slow), per-caller cancellation points, optional concurrency limiter, optional yield plan for the verif sites in Invoke; non-trivial = >=2 callers shared an invocation and one of: MaxSize roll-over into a second group of the same shard, >=2 shards, failing/panicking/short invocation, a cancellation; distinct = hash of the case",
	"which callers share a batch is timing dependent and not asserted",
	"a caller whose batch creator's context was cancelled may get the context error")

func TestMain(m *testing.M) { code := m.Run(); rec.Flush(); os.Exit(code) }

type Caller struct {
	OffsetUs int  `json:"off"`       // arrival offset in microseconds
	Cancel   int  `json:"cancel"`    // 0 none, 1 before arrival, 2 ~while waiting (after CancelUs), 3 shared ctx cancelled
	CancelUs int  `json:"cancel_us"` // delay after arrival
	OwnCtx   bool `json:"own_ctx"`   // derived context (else the shared one)
}

type Case struct {
	Callers         []Caller `json:"callers"`
	Shards          int      `json:"shards"` // 0 = no Shard func
	MixedShardTypes bool     `json:"mixed_shard_types,omitempty"`
	MaxSize         int      `json:"max_size"`
	WaitUs          int      `json:"wait_us"`
	MaxDurUs        int      `json:"maxdur_us"`
	Plan            []string `json:"plan"`
	Limit           int      `json:"limit"`            // 0 = no limiter
	SharedCancelUs  int      `json:"shared_cancel_us"` // 0 = never
	// CancelParent: the shared cancellation hits the context WithBatching was called on (a
	// request context that ends), not a context derived from the batching context
	CancelParent bool `json:"cancel_parent,omitempty"`
	// ShareHolder: with a limiter, callers are goroutines of one request: they share the
	// context of a single Acquire instead of acquiring a token each (all of them when the
	// limit is 1, the even-numbered ones otherwise - the others then compete for the rest)
	ShareHolder bool `json:"share_holder,omitempty"`
	// LimiterGapUs: pause at the limiter's re-acquire yield site
	LimiterGapUs int   `json:"limiter_gap_us,omitempty"`
	Yields       []int `json:"yields,omitempty"` // microseconds to sleep at the k-th yield site hit
}

type invocation struct {
	args    []int
	outcome string
}

var injected = errors.New("injected batch error")

var yieldState struct {
	mu     sync.Mutex
	plan   []int
	hits   int
	active bool
}

// limiterGapUs: pause (microseconds) at the limiter's yield site between a holder's token going
// back into the channel and its status saying "acquired" again (0 = none)
var limiterGapUs int64

func init() {
	cl.VerifYield = func(site string) {
		if d := atomic.LoadInt64(&limiterGapUs); d > 0 {
			time.Sleep(time.Duration(d) * time.Microsecond)
		}
	}
	batch.VerifYield = func(site string) {
		yieldState.mu.Lock()
		if !yieldState.active {
			yieldState.mu.Unlock()
			return
		}
		k := yieldState.hits
		yieldState.hits++
		d := 0
		if k < len(yieldState.plan) {
			d = yieldState.plan[k]
		}
		yieldState.mu.Unlock()
		if d == 1 {
			runtime.Gosched()
		} else if d > 1 {
			time.Sleep(time.Duration(d) * time.Microsecond)
		}
	}
}

type result struct {
	val        interface{}
	err        error
	start, end time.Time
	ownCtxErr  error // the caller's own context after Invoke returned
}

func runCase(c Case) (nt bool, classes []string, err error) {
	yieldState.mu.Lock()
	yieldState.plan, yieldState.hits, yieldState.active = c.Yields, 0, true
	yieldState.mu.Unlock()
	defer func() { yieldState.mu.Lock(); yieldState.active = false; yieldState.mu.Unlock() }()

	var mu sync.Mutex
	var invs []invocation
	f := &batch.Func{
		MaxSize:      c.MaxSize,
		WaitInterval: time.Duration(c.WaitUs) * time.Microsecond,
		MaxDuration:  time.Duration(c.MaxDurUs) * time.Microsecond,
	}
	if c.Shards > 0 {
		// shard values of several comparable types, some of which print alike (int64(1), "1",
		// struct{N int}{1}): they are different shards all the same
		f.Shard = func(arg interface{}) interface{} {
			sh := arg.(int) % c.Shards
			if !c.MixedShardTypes {
				return sh
			}
			switch sh % 3 {
			case 0:
				return int64(sh / 3)
			case 1:
				return fmt.Sprint(sh / 3)
			}
			return struct{ N int }{sh / 3}
		}
	}
	cancelAll := func() {}
	f.Many = func(ctx context.Context, args []interface{}) ([]interface{}, error) {
		mu.Lock()
		k := len(invs)
		outcome := "ok"
		if k < len(c.Plan) {
			outcome = c.Plan[k]
		}
		inv := invocation{outcome: outcome}
		for _, a := range args {
			inv.args = append(inv.args, a.(int))
		}
		invs = append(invs, inv)
		mu.Unlock()
		res := make([]interface{}, len(args))
		for i, a := range args {
			res[i] = [2]int{a.(int), k}
		}
		switch outcome {
		case "error":
			return nil, injected
		case "error-full":
			// the usual `return results, err` of a loop that gave up: results AND an error
			return res, injected
		case "error-partial":
			return res[:(len(res)+1)/2], injected
		case "panic":
			panic(fmt.Sprintf("boom-%d", k))
		case "panic-error":
			panic(fmt.Errorf("boom-%d", k))
		case "panic-struct":
			panic(struct{ What string }{fmt.Sprintf("boom-%d", k)})
		case "panic-int":
			panic(7000 + k)
		case "short", "short-cancelled":
			if outcome == "short-cancelled" {
				// the batch function gives up early because its context ended meanwhile
				cancelAll()
			}
			if len(res) > 0 {
				return res[:len(res)-1], nil
			}
			return []interface{}{nil}, nil
		case "long", "long-cancelled":
			if outcome == "long-cancelled" {
				cancelAll()
			}
			return append(res, nil), nil
		case "slow":
			time.Sleep(1500 * time.Microsecond)
		}
		return res, nil
	}

	base := context.Background()
	if c.Limit > 0 {
		base = cl.With(base, c.Limit)
	}
	var shared context.Context
	var cancelShared context.CancelFunc
	if c.CancelParent {
		var parent context.Context
		parent, cancelShared = context.WithCancel(base)
		shared = batch.WithBatching(parent)
	} else {
		shared, cancelShared = context.WithCancel(batch.WithBatching(base))
	}
	defer cancelShared()
	cancelAll = cancelShared
	anyCancel := c.SharedCancelUs > 0
	results := make([]result, len(c.Callers))
	var wg sync.WaitGroup
	atomic.StoreInt64(&limiterGapUs, int64(c.LimiterGapUs))
	defer atomic.StoreInt64(&limiterGapUs, 0)
	var sharedHolderCtx context.Context
	if c.Limit > 0 && c.ShareHolder {
		var rel cl.ReleaseFunc
		sharedHolderCtx, rel = cl.Acquire(shared)
		defer rel()
	}
	start := time.Now()
	if c.SharedCancelUs > 0 {
		go func() { time.Sleep(time.Duration(c.SharedCancelUs) * time.Microsecond); cancelShared() }()
	}
	for i, cr := range c.Callers {
		i, cr := i, cr
		if cr.Cancel != 0 {
			anyCancel = true
		}
		wg.Add(1)
		go func() {
			defer wg.Done()
			if d := time.Duration(cr.OffsetUs)*time.Microsecond - time.Since(start); d > 0 {
				time.Sleep(d)
			}
			ctx := shared
			sharesHolder := sharedHolderCtx != nil && (c.Limit == 1 || i%2 == 0)
			if sharesHolder {
				ctx = sharedHolderCtx
			}
			var cancel context.CancelFunc = func() {}
			if cr.OwnCtx || cr.Cancel == 1 || cr.Cancel == 2 {
				ctx, cancel = context.WithCancel(ctx)
			}
			defer cancel()
			switch cr.Cancel {
			case 1:
				cancel()
			case 2:
				go func() { time.Sleep(time.Duration(cr.CancelUs) * time.Microsecond); cancel() }()
			}
			var release cl.ReleaseFunc = func() {}
			if c.Limit > 0 && !sharesHolder {
				ctx, release = cl.Acquire(ctx)
			}
			func() {
				defer func() {
					if p := recover(); p != nil {
						results[i] = result{err: fmt.Errorf("ESCAPED PANIC: %v", p)}
					}
				}()
				t0 := time.Now()
				v, err := f.Invoke(ctx, i)
				results[i] = result{val: v, err: err, start: t0, end: time.Now(), ownCtxErr: ctx.Err()}
			}()
			release()
		}()
	}
	done := make(chan struct{})
	go func() { wg.Wait(); close(done) }()
	select {
	case <-done:
	case <-time.After(ev.Patience(10 * time.Second)):
		buf := make([]byte, 1<<16)
		n := runtime.Stack(buf, true)
		inInvoke := strings.Count(string(buf[:n]), "batch.(*Func).Invoke")
		cancelShared()
		return false, nil, fmt.Errorf("callers still blocked after 10s (timers are <= 10ms); %d goroutines inside Invoke", inInvoke)
	}

	// ---- oracle ----
	mu.Lock()
	defer mu.Unlock()
	where := map[int][]int{}
	shardsSeen := map[int]bool{}
	sharedInv, failing, rollover := false, false, false
	perShardInvs := map[int]int{}
	for k, inv := range invs {
		if c.MaxSize > 0 && len(inv.args) > c.MaxSize {
			return false, nil, fmt.Errorf("invocation %d has %d args, MaxSize %d", k, len(inv.args), c.MaxSize)
		}
		if len(inv.args) == 0 {
			return false, nil, fmt.Errorf("invocation %d has no args", k)
		}
		if len(inv.args) >= 2 {
			sharedInv = true
		}
		if inv.outcome != "ok" && inv.outcome != "slow" {
			failing = true
		}
		sh := 0
		for j, a := range inv.args {
			where[a] = append(where[a], k)
			if c.Shards > 0 {
				if j == 0 {
					sh = a % c.Shards
				} else if a%c.Shards != sh {
					return false, nil, fmt.Errorf("invocation %d mixes shards: args %v with %d shards", k, inv.args, c.Shards)
				}
			}
		}
		shardsSeen[sh] = true
		perShardInvs[sh]++
		if c.MaxSize > 0 && perShardInvs[sh] >= 2 {
			rollover = true
		}
	}
	for _, inv := range invs {
		if strings.HasSuffix(inv.outcome, "-cancelled") {
			anyCancel = true
		}
	}
	for i, r := range results {
		ks := where[i]
		if len(ks) > 1 {
			return false, nil, fmt.Errorf("arg %d was handed to the batch function %d times (invocations %v)", i, len(ks), ks)
		}
		if r.err != nil && strings.HasPrefix(r.err.Error(), "ESCAPED PANIC") {
			return false, nil, fmt.Errorf("caller %d: %v", i, r.err)
		}
		if r.err == nil {
			if len(ks) != 1 {
				return false, nil, fmt.Errorf("caller %d got a result %v but its arg was never handed to the batch function", i, r.val)
			}
			pair, ok := r.val.([2]int)
			if !ok || pair[0] != i || pair[1] != ks[0] {
				return false, nil, fmt.Errorf("caller %d got %v, want result for its own arg from invocation %d", i, r.val, ks[0])
			}
			if o := invs[ks[0]].outcome; o != "ok" && o != "slow" {
				return false, nil, fmt.Errorf("caller %d got a value although invocation %d had outcome %s", i, ks[0], o)
			}
			continue
		}
		// error result
		isCtx := errors.Is(r.err, context.Canceled)
		if len(ks) == 0 {
			if !isCtx {
				return false, nil, fmt.Errorf("caller %d: error %q but its arg was never handed to the batch function", i, r.err)
			}
			if !anyCancel {
				return false, nil, fmt.Errorf("caller %d: context error without any cancellation in the case", i)
			}
			if r.ownCtxErr == nil {
				// its own context is alive: the error must come from a batch it really shared
				// with a cancelled creator, i.e. some cancelled caller of the same shard was
				// still inside Invoke when this caller arrived
				shared := false
				for j, o := range results {
					if j == i || o.ownCtxErr == nil {
						continue
					}
					if c.Shards > 0 && i%c.Shards != j%c.Shards {
						continue
					}
					if o.end.After(r.start) {
						shared = true
					}
				}
				if !shared {
					return false, nil, fmt.Errorf("caller %d has a live context and arrived after every cancelled caller of its shard had returned, yet got %q and its argument was never handed to the batch function (stale error of a finished batch)", i, r.err)
				}
			}
			continue
		}
		inv := invs[ks[0]]
		switch inv.outcome {
		case "error", "error-full", "error-partial":
			if r.err != injected {
				return false, nil, fmt.Errorf("caller %d: got %q, want the injected error of invocation %d", i, r.err, ks[0])
			}
		case "panic", "panic-error", "panic-struct", "panic-int":
			want := fmt.Sprintf("boom-%d", ks[0])
			if inv.outcome == "panic-int" {
				want = fmt.Sprint(7000 + ks[0])
			}
			if !strings.Contains(r.err.Error(), want) {
				return false, nil, fmt.Errorf("caller %d: got %q, want the panic (%s) of invocation %d", i, r.err, want, ks[0])
			}
		case "short", "long":
			if !strings.Contains(r.err.Error(), "incorrect number of results") {
				return false, nil, fmt.Errorf("caller %d: got %q, want a wrong-result-count error", i, r.err)
			}
		case "short-cancelled", "long-cancelled":
			// every context is cancelled by then: the wrong count or the cancellation
			if !strings.Contains(r.err.Error(), "incorrect number of results") && !isCtx {
				return false, nil, fmt.Errorf("caller %d: got %q, want a wrong-result-count error or its context's error", i, r.err)
			}
		default:
			return false, nil, fmt.Errorf("caller %d: got error %q although invocation %d (args %v) succeeded", i, r.err, ks[0], inv.args)
		}
	}
	if !anyCancel {
		for i := range c.Callers {
			if len(where[i]) != 1 {
				return false, nil, fmt.Errorf("arg %d handed to the batch function %d times without any cancellation", i, len(where[i]))
			}
		}
	}
	nt = sharedInv && (rollover || len(shardsSeen) >= 2 || failing || anyCancel)
	for k, v := range map[string]bool{"shared": sharedInv, "rollover": rollover, "multi-shard": len(shardsSeen) >= 2, "failing": failing, "cancel": anyCancel, "limiter": c.Limit > 0, "yields": len(c.Yields) > 0} {
		if v {
			classes = append(classes, k)
		}
	}
	return nt, classes, nil
}

func genCase(t *rapid.T) Case {
	n := rapid.IntRange(1, 40).Draw(t, "n")
	c := Case{
		Shards:          rapid.SampledFrom([]int{0, 0, 1, 2, 3, 4, 6}).Draw(t, "shards"),
		MixedShardTypes: rapid.Bool().Draw(t, "mixedshards"),
		WaitUs:          rapid.SampledFrom([]int{200, 500, 1000, 2000}).Draw(t, "wait"),
		MaxDurUs:        rapid.SampledFrom([]int{1000, 3000, 10000}).Draw(t, "maxdur"),
		Limit:           rapid.SampledFrom([]int{0, 0, 1, 2, 5}).Draw(t, "limit"),
	}
	c.MaxSize = rapid.SampledFrom([]int{0, 0, 1, 2, 3, 5, n}).Draw(t, "maxsize")
	c.Plan = rapid.SliceOfN(rapid.SampledFrom([]string{"ok", "ok", "ok", "error", "error-full", "error-partial", "panic", "panic-error", "panic-struct", "panic-int", "short", "long", "slow", "short-cancelled", "long-cancelled"}), 0, 6).Draw(t, "plan")
	burst := rapid.Bool().Draw(t, "burst")
	cancels := rapid.IntRange(0, 3).Draw(t, "cancelrate")
	for i := 0; i < n; i++ {
		cr := Caller{OwnCtx: rapid.Bool().Draw(t, "own")}
		if !burst {
			cr.OffsetUs = rapid.IntRange(0, 3000).Draw(t, "off")
		} else {
			cr.OffsetUs = rapid.IntRange(0, 100).Draw(t, "off")
		}
		if cancels > 0 && rapid.IntRange(0, 9).Draw(t, "c") < cancels {
			cr.Cancel = rapid.IntRange(1, 2).Draw(t, "ck")
			cr.CancelUs = rapid.IntRange(0, 2500).Draw(t, "cus")
		}
		c.Callers = append(c.Callers, cr)
	}
	if rapid.IntRange(0, 9).Draw(t, "sharedcancel") == 0 {
		c.SharedCancelUs = rapid.IntRange(1, 3000).Draw(t, "scus")
		c.CancelParent = rapid.Bool().Draw(t, "cancelparent")
	}
	if c.Limit > 0 {
		c.ShareHolder = rapid.IntRange(0, 2).Draw(t, "shareholder") == 0
		c.LimiterGapUs = rapid.SampledFrom([]int{0, 0, 100, 500}).Draw(t, "limitergap")
	}
	if rapid.Bool().Draw(t, "useyields") {
		c.Yields = rapid.SliceOfN(rapid.SampledFrom([]int{0, 0, 1, 50, 300, 1200}), 0, 30).Draw(t, "yields")
	}
	return c
}

func checkAndRecord(t interface{ Fatalf(string, ...interface{}) }, test string, c Case) {
	nt, classes, err := runCase(c)
	if err != nil {
		p := rec.Violate(test, c, err.Error())
		t.Fatalf("%v (replay %s)", err, p)
	}
	b, _ := json.Marshal(c)
	rec.Case(string(b), nt, classes...)
	if nt {
		rec.Sample(strings.Join(classes, "+"), c)
	}
}

func TestBatch(t *testing.T) {
	rapid.Check(t, func(t *rapid.T) { checkAndRecord(t, "TestBatch", genCase(t)) })
}

func TestReplay(t *testing.T) {
	p := os.Getenv("VERIF_REPLAY")
	if p == "" {
		t.Skip("no VERIF_REPLAY")
	}
	var c Case
	if _, err := ev.LoadReplay(p, &c); err != nil {
		t.Fatalf("harness: cannot load replay: %v", err)
	}
	for i := 0; i < 30; i++ {
		checkAndRecord(t, "TestReplay", c)
	}
}
