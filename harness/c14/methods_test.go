package c14

import (
	"context"
	"fmt"
	"sync/atomic"
	"time"

	"github.com/samsarahq/thunder/batch"
	"github.com/samsarahq/thunder/graphql/schemabuilder"

	"verifharness/world"
)

// Method shapes: for every result type shape the builder accepts, the same value function is
// registered on Shapes as a plain field func, a field func with (ctx, error), an expensive
// field func, a batch field func that omits some indices and returns nil for others, a batch
// field func marked NonNullable (all indices, never nil) and a batch field func with a
// fallback. What the advertised type says about each of them (nullability, list-ness, scalar
// kind) must agree with what each of them emits.

// IPish is a slice-kind type that marshals as text (like net.IP).
type IPish []byte

func (p IPish) MarshalText() ([]byte, error) { return []byte(fmt.Sprintf("ip-%d", len(p))), nil }

var fallbackToggle int64

// addMethods registers the variants for one result type. mk(id) returns the value and whether
// a batch func reports the index at all; full(id) never returns a nil-like value.
func addMethods[R any](obj *schemabuilder.Object, name, kind string, mk func(id int64) (R, bool), full func(id int64) R) {
	obj.FieldFunc("f_"+name, func(s *Shapes) R { v, _ := mk(s.Id); return v })
	obj.FieldFunc("fe_"+name, func(ctx context.Context, s *Shapes) (R, error) { v, _ := mk(s.Id); return v, nil })
	obj.FieldFunc("fx_"+name, func(ctx context.Context, s *Shapes) (R, error) { v, _ := mk(s.Id); return v, nil }, schemabuilder.Expensive)
	obj.BatchFieldFunc("b_"+name, func(ctx context.Context, in map[batch.Index]*Shapes) (map[batch.Index]R, error) {
		out := map[batch.Index]R{}
		for i, s := range in {
			if v, ok := mk(s.Id); ok {
				out[i] = v
			}
		}
		return out, nil
	})
	obj.BatchFieldFunc("bn_"+name, func(in map[batch.Index]*Shapes) map[batch.Index]R {
		out := map[batch.Index]R{}
		for i, s := range in {
			out[i] = full(s.Id)
		}
		return out
	}, schemabuilder.NonNullable)
	if kind == "ptr" {
		// a batch func that promised NonNullable and breaks the promise for some objects (an
		// explicit typed nil under a key that is present): thunder has to fail the query; it
		// must not answer null under the NON_NULL type it advertises
		obj.BatchFieldFunc("bnn_"+name, func(in map[batch.Index]*Shapes) map[batch.Index]R {
			out := map[batch.Index]R{}
			for i, s := range in {
				v, _ := mk(s.Id) // nil for odd ids
				out[i] = v
			}
			return out
		}, schemabuilder.NonNullable)
	}
	// with a fallback the two advertised types must agree: value kinds need NonNullable for
	// that (and then report every index), pointers and lists do not
	var opts []schemabuilder.FieldFuncOption
	val := mk
	if kind == "val" {
		opts = append(opts, schemabuilder.NonNullable)
		val = func(id int64) (R, bool) { return full(id), true }
	}
	obj.BatchFieldFuncWithFallback("bf_"+name, func(ctx context.Context, in map[batch.Index]*Shapes) (map[batch.Index]R, error) {
		out := map[batch.Index]R{}
		for i, s := range in {
			if v, ok := val(s.Id); ok {
				out[i] = v
			}
		}
		return out, nil
	}, func(ctx context.Context, s *Shapes) (R, error) {
		v, _ := val(s.Id)
		return v, nil
	}, func(context.Context) bool { return atomic.AddInt64(&fallbackToggle, 1)%2 == 0 }, opts...)
}

func ptr[T any](v T) *T { return &v }

func methods(schema *schemabuilder.Schema) {
	obj := schema.Object("Shapes", Shapes{})
	present := func(id int64) bool { return id%4 != 3 }
	nonNil := func(id int64) bool { return id%2 == 0 }

	addMethods(obj, "i", "val", func(id int64) (int64, bool) { return id, present(id) }, func(id int64) int64 { return id })
	addMethods(obj, "s", "val", func(id int64) (string, bool) { return fmt.Sprint("s", id), present(id) }, func(id int64) string { return "s" })
	addMethods(obj, "b", "val", func(id int64) (bool, bool) { return id%2 == 0, present(id) }, func(id int64) bool { return true })
	addMethods(obj, "f32", "val", func(id int64) (float32, bool) { return float32(id) / 4, present(id) }, func(id int64) float32 { return 1.25 })
	addMethods(obj, "u16", "val", func(id int64) (uint16, bool) { return uint16(id) + 65000, present(id) }, func(id int64) uint16 { return 7 })
	addMethods(obj, "l", "val", func(id int64) (world.Label, bool) { return world.Label(fmt.Sprint("l", id)), present(id) }, func(id int64) world.Label { return "l" })
	addMethods(obj, "e", "val", func(id int64) (world.EnumA, bool) { return world.EnumA(id % 3), present(id) }, func(id int64) world.EnumA { return world.EnumA(1) })
	addMethods(obj, "tm", "val", func(id int64) (world.TextM, bool) { return world.TextM{V: id}, present(id) }, func(id int64) world.TextM { return world.TextM{V: 1} })
	addMethods(obj, "t", "val", func(id int64) (time.Time, bool) { return time.Unix(1600000000+id, 0).UTC(), present(id) }, func(id int64) time.Time { return time.Unix(1600000000, 0).UTC() })
	addMethods(obj, "in", "val", func(id int64) (ShInner, bool) { return ShInner{A: id}, present(id) }, func(id int64) ShInner { return ShInner{A: 1} })
	addMethods(obj, "by", "val", func(id int64) ([]byte, bool) {
		switch id % 3 {
		case 0:
			return nil, present(id)
		case 1:
			return []byte{}, present(id)
		}
		return []byte("ab"), present(id)
	}, func(id int64) []byte { return []byte("x") })
	addMethods(obj, "ip", "val", func(id int64) (IPish, bool) {
		if id%3 == 0 {
			return nil, present(id)
		}
		return IPish(make([]byte, id)), present(id)
	}, func(id int64) IPish { return IPish{1} })

	addMethods(obj, "vtm", "val", func(id int64) (PtrTM, bool) { return PtrTM{V: id}, present(id) }, func(id int64) PtrTM { return PtrTM{V: 1} })
	addMethods(obj, "pvtm", "ptr", func(id int64) (*PtrTM, bool) {
		if nonNil(id) {
			return &PtrTM{V: id}, present(id)
		}
		return nil, present(id)
	}, func(id int64) *PtrTM { return &PtrTM{V: 2} })
	addMethods(obj, "pi", "ptr", func(id int64) (*int64, bool) {
		if nonNil(id) {
			return ptr(id), present(id)
		}
		return nil, present(id)
	}, func(id int64) *int64 { return ptr(id) })
	addMethods(obj, "ps", "ptr", func(id int64) (*string, bool) {
		if nonNil(id) {
			return ptr("p"), present(id)
		}
		return nil, present(id)
	}, func(id int64) *string { return ptr("p") })
	addMethods(obj, "pe", "ptr", func(id int64) (*world.EnumA, bool) {
		if nonNil(id) {
			return ptr(world.EnumA(2)), present(id)
		}
		return nil, present(id)
	}, func(id int64) *world.EnumA { return ptr(world.EnumA(0)) })
	addMethods(obj, "ptm", "ptr", func(id int64) (*world.TextM, bool) {
		if nonNil(id) {
			return &world.TextM{V: id}, present(id)
		}
		return nil, present(id)
	}, func(id int64) *world.TextM { return &world.TextM{V: 3} })
	addMethods(obj, "pt", "ptr", func(id int64) (*time.Time, bool) {
		if nonNil(id) {
			return ptr(time.Unix(1600000000+id, 0).UTC()), present(id)
		}
		return nil, present(id)
	}, func(id int64) *time.Time { return ptr(time.Unix(1600000000, 0).UTC()) })
	addMethods(obj, "pin", "ptr", func(id int64) (*ShInner, bool) {
		if nonNil(id) {
			return &ShInner{A: id}, present(id)
		}
		return nil, present(id)
	}, func(id int64) *ShInner { return &ShInner{A: 2} })

	addMethods(obj, "ls", "list", func(id int64) ([]string, bool) {
		switch id % 3 {
		case 0:
			return nil, present(id)
		case 1:
			return []string{}, present(id)
		}
		return []string{"a", "b"}, present(id)
	}, func(id int64) []string { return []string{"z"} })
	addMethods(obj, "lps", "list", func(id int64) ([]*string, bool) {
		if id%3 == 0 {
			return nil, present(id)
		}
		return []*string{ptr("x"), nil}, present(id)
	}, func(id int64) []*string { return []*string{ptr("y")} })
	addMethods(obj, "lin", "list", func(id int64) ([]ShInner, bool) {
		if id%3 == 0 {
			return nil, present(id)
		}
		return []ShInner{{A: id}}, present(id)
	}, func(id int64) []ShInner { return []ShInner{{A: 1}} })
	addMethods(obj, "lpin", "list", func(id int64) ([]*ShInner, bool) {
		if id%3 == 0 {
			return nil, present(id)
		}
		return []*ShInner{{A: id}, nil}, present(id)
	}, func(id int64) []*ShInner { return []*ShInner{{A: 1}} })
	addMethods(obj, "le", "list", func(id int64) ([]world.EnumA, bool) {
		return []world.EnumA{world.EnumA(id % 3)}, present(id)
	}, func(id int64) []world.EnumA { return []world.EnumA{0, 1} })
	addMethods(obj, "ll", "list", func(id int64) ([][]int64, bool) {
		if id%3 == 0 {
			return nil, present(id)
		}
		return [][]int64{{1, 2}, nil, {}}, present(id)
	}, func(id int64) [][]int64 { return [][]int64{{1}} })
}

// shapesModel binds the fixed base spec plus the Shapes object and reads the advertised schema.
func shapesModel() (*world.Bound, *Model, error) {
	s := world.BaseSpec()
	b, err := world.BindWith(s, world.Modes{}, extra)
	if err != nil {
		return nil, nil, err
	}
	m, err := introspect(b.Schema)
	return b, m, err
}
