package c14

import (
	"context"
	"encoding/json"
	"fmt"
	"os"
	"sort"
	"strings"
	"testing"
	"time"

	"github.com/samsarahq/thunder/graphql"
	"github.com/samsarahq/thunder/graphql/introspection"
	"github.com/samsarahq/thunder/graphql/schemabuilder"
	"pgregory.net/rapid"

	"verifharness/ev"
	jv "verifharness/jsonval"
	"verifharness/world"
)

var rec = ev.New("C14",
	"cases: a generated schema (world spec over the pool of Go types with every field-func signature form, execution mode and option, plus a 'shapes' object with every struct-field shape: pointer scalars, nil/empty slices, slices of pointers with nil entries, nested and pointer structs, enums, text marshalers, bytes, time) whose advertised schema is read through the introspection query and decoded into the harness's own type model; from that model alone well-formed queries are generated (selections, fragments on union members and on the object's own type, __typename, arguments by advertised input type) and ill-formed variants by one mutation (unknown field, sub-selection on a scalar/enum, missing sub-selection on an object/union); oracles: ill-formed => PrepareQuery errors, well-formed => accepted, executes, and the response conforms to the advertised types; non-trivial = the response contains a null, an empty list and a union member, or the case is an ill-formed variant placed below a union or list; distinct = hash of (schema, query)",
	"resolvers never return nil where NonNullable was requested and never an unregistered enum value", "list entries are exempt from the null rule (thunder marks them non-null)")

func TestMain(m *testing.M) { code := m.Run(); rec.Flush(); os.Exit(code) }

// ---------- shapes: every struct-field shape ----------

type ShInner struct {
	A int64
	B *string
}

// PtrTM marshals as text through a pointer receiver: *PtrTM is a text scalar, PtrTM used by
// value is an ordinary object.
type PtrTM struct{ V int64 }

func (p *PtrTM) MarshalText() ([]byte, error) { return []byte(fmt.Sprintf("ptm-%d", p.V)), nil }

type Shapes struct {
	Vtm     PtrTM
	PVtm    *PtrTM
	Vtms    []PtrTM
	Id      int64
	PI      *int64
	PS      *string
	PB      *bool
	PF      *float64
	PT      *time.Time
	By      []byte
	Strs    []string
	PStrs   []*string
	Nested  ShInner
	PNested *ShInner
	Inners  []ShInner
	PInners []*ShInner
	E       world.EnumA
	PE      *world.EnumA
	Tm      world.TextM
	PTm     *world.TextM
	U8      uint8
	F32     float32
	L       world.Label
	T       time.Time
	I32s    []int32
}

func mkShapes(id int64) *Shapes {
	s := &Shapes{Vtm: PtrTM{V: id}, Vtms: []PtrTM{{V: id}, {V: id + 1}}, Id: id, E: world.EnumA(id % 3), Tm: world.TextM{V: id}, U8: uint8(id), F32: float32(id) / 2, L: world.Label(fmt.Sprint("l", id)), T: time.Unix(1600000000+id, 0).UTC(), Nested: ShInner{A: id}}
	if id%2 == 0 {
		i, str, b, f, t := id, "s", true, 1.5, time.Unix(1600000000, 0).UTC()
		e := world.EnumA(1)
		s.PI, s.PS, s.PB, s.PF, s.PT, s.PE = &i, &str, &b, &f, &t, &e
		s.PNested = &ShInner{A: 7, B: &str}
		s.PTm = &world.TextM{V: 9}
		s.PVtm = &PtrTM{V: 5}
	}
	switch id % 3 {
	case 0: // nil slices
	case 1:
		s.By, s.Strs, s.PStrs, s.Inners, s.PInners, s.I32s = []byte{}, []string{}, []*string{}, []ShInner{}, []*ShInner{}, []int32{}
	default:
		x := "x"
		s.By, s.Strs, s.PStrs, s.Inners, s.PInners, s.I32s = []byte("ab"), []string{"a", "b"}, []*string{&x, nil}, []ShInner{{A: 1}}, []*ShInner{{A: 2}, nil}, []int32{1, 2}
	}
	return s
}

func extra(schema *schemabuilder.Schema) {
	schema.Object("Shapes", Shapes{})
	schema.Object("ShInner", ShInner{})
	schema.Object("PtrTM", PtrTM{})
	q := schema.Query()
	q.FieldFunc("shapes", func() []*Shapes {
		var out []*Shapes
		for i := int64(0); i < 6; i++ {
			out = append(out, mkShapes(i))
		}
		return out
	})
	q.FieldFunc("shape", func(args struct{ Id int64 }) *Shapes {
		if args.Id < 0 {
			return nil
		}
		return mkShapes(args.Id)
	})
	methods(schema)
}

// ---------- advertised type model ----------

type TypeRef struct {
	Kind   string   `json:"kind"`
	Name   string   `json:"name"`
	OfType *TypeRef `json:"ofType"`
}

type InputValue struct {
	Name string  `json:"name"`
	Type TypeRef `json:"type"`
}

type FieldDef struct {
	Name string       `json:"name"`
	Args []InputValue `json:"args"`
	Type TypeRef      `json:"type"`
}

type TypeDef struct {
	Kind          string                  `json:"kind"`
	Name          string                  `json:"name"`
	Fields        []FieldDef              `json:"fields"`
	InputFields   []InputValue            `json:"inputFields"`
	EnumValues    []struct{ Name string } `json:"enumValues"`
	PossibleTypes []TypeRef               `json:"possibleTypes"`
}

type Model struct {
	Types map[string]*TypeDef
	Query string
}

func introspect(schema *graphql.Schema) (*Model, error) {
	introspection.AddIntrospectionToSchema(schema)
	b, err := introspection.RunIntrospectionQuery(schema)
	if err != nil {
		return nil, err
	}
	var doc struct {
		Schema struct {
			QueryType struct{ Name string } `json:"queryType"`
			Types     []*TypeDef            `json:"types"`
		} `json:"__schema"`
	}
	if err := json.Unmarshal(b, &doc); err != nil {
		return nil, err
	}
	m := &Model{Types: map[string]*TypeDef{}, Query: doc.Schema.QueryType.Name}
	for _, t := range doc.Schema.Types {
		m.Types[t.Name] = t
	}
	return m, nil
}

func (r TypeRef) named() TypeRef {
	for r.OfType != nil {
		r = *r.OfType
	}
	return r
}

// ---------- query generation from the advertised model ----------

type Node struct {
	Kind             string  `json:"kind"` // field inline
	Name             string  `json:"name,omitempty"`
	Key              string  `json:"key,omitempty"`
	Args             string  `json:"args,omitempty"`
	On               string  `json:"on,omitempty"`
	Sub              []*Node `json:"sub,omitempty"`
	HasSub           bool    `json:"has_sub,omitempty"`
	fd               *FieldDef
	underUnionOrList bool
}

func (m *Model) literal(t *rapid.T, r TypeRef, depth int) string {
	switch r.Kind {
	case "NON_NULL":
		return m.literal(t, *r.OfType, depth)
	case "LIST":
		if rapid.Bool().Draw(t, "emptylist") {
			return "[]"
		}
		return "[" + m.literal(t, *r.OfType, depth) + "]"
	case "ENUM":
		vs := m.Types[r.Name].EnumValues
		return vs[rapid.IntRange(0, len(vs)-1).Draw(t, "enumv")].Name
	case "INPUT_OBJECT":
		var parts []string
		for _, f := range m.Types[r.Name].InputFields {
			if f.Type.Kind == "NON_NULL" || rapid.Bool().Draw(t, "optin") {
				parts = append(parts, f.Name+": "+m.literal(t, f.Type, depth+1))
			}
		}
		return "{" + strings.Join(parts, ", ") + "}"
	}
	switch r.Name {
	case "bool":
		return "true"
	case "string":
		return rapid.SampledFrom([]string{`"p"`, `""`, `"q"`}).Draw(t, "strlit")
	case "float32", "float64":
		return "1.5"
	case "Time":
		return `"2020-01-01T00:00:00Z"`
	case "bytes":
		return `"YQ=="`
	}
	return fmt.Sprint(rapid.IntRange(0, 3).Draw(t, "intlit"))
}

var keyCounter int

func (m *Model) genSel(t *rapid.T, typeName string, depth int, under bool) []*Node {
	td := m.Types[typeName]
	var out []*Node
	seen := map[string]bool{}
	switch td.Kind {
	case "UNION":
		if rapid.Bool().Draw(t, "utypename") {
			out = append(out, &Node{Kind: "field", Name: "__typename", Key: typenameKey(t)})
		}
		for _, pt := range td.PossibleTypes {
			if rapid.IntRange(0, 4).Draw(t, "cover") > 0 {
				out = append(out, &Node{Kind: "inline", On: pt.Name, Sub: m.genSel(t, pt.Name, depth-1, true), underUnionOrList: true})
			}
		}
		if len(out) == 0 {
			out = append(out, &Node{Kind: "field", Name: "__typename", Key: "__typename"})
		}
		if rapid.IntRange(0, 3).Draw(t, "excluded") == 0 {
			// a fragment on the union itself that its directive excludes: it contributes nothing,
			// wherever it stands among the other selections
			ex := &Node{Kind: "excluded", On: typeName, Args: rapid.SampledFrom([]string{"@skip(if: true)", "@include(if: false)", "@include(if: true) @skip(if: true)"}).Draw(t, "exdir")}
			pos := rapid.IntRange(0, len(out)).Draw(t, "expos")
			out = append(out[:pos], append([]*Node{ex}, out[pos:]...)...)
		}
		return out
	case "OBJECT":
		var fields []FieldDef
		for _, f := range td.Fields {
			if strings.HasPrefix(f.Name, "__") || f.Name == "_federation" {
				continue
			}
			fields = append(fields, f)
		}
		n := rapid.IntRange(1, 5).Draw(t, "nsel")
		for i := 0; i < n; i++ {
			switch rapid.IntRange(0, 9).Draw(t, "kind") {
			case 0:
				if !seen["__typename"] {
					seen["__typename"] = true
					out = append(out, &Node{Kind: "field", Name: "__typename", Key: typenameKey(t)})
				}
			case 1:
				if depth > 0 {
					out = append(out, &Node{Kind: "inline", On: typeName, Sub: m.genSel(t, typeName, depth-1, under), underUnionOrList: under})
				}
			default:
				if len(fields) == 0 {
					continue
				}
				f := fields[rapid.IntRange(0, len(fields)-1).Draw(t, "field")]
				f2 := f
				nd := &Node{Kind: "field", Name: f.Name, fd: &f2, underUnionOrList: under}
				var args []string
				for _, a := range f.Args {
					if a.Type.Kind == "NON_NULL" || rapid.Bool().Draw(t, "optarg") {
						args = append(args, a.Name+": "+m.literal(t, a.Type, 0))
					}
				}
				if len(args) > 0 {
					nd.Args = "(" + strings.Join(args, ", ") + ")"
				}
				keyCounter++
				nd.Key = fmt.Sprintf("k%d_%s", keyCounter, f.Name)
				if len(args) == 0 && rapid.IntRange(0, 2).Draw(t, "plainkey") == 0 {
					// no alias: the same response key then turns up in many selection sets of the
					// query (and merges with itself where two of them meet)
					nd.Key = f.Name
				}
				named := f.Type.named()
				isList := strings.Contains(refString(f.Type), "[")
				if k := m.Types[named.Name].Kind; k == "OBJECT" || k == "UNION" {
					if depth <= 0 {
						continue
					}
					nd.HasSub = true
					nd.Sub = m.genSel(t, named.Name, depth-1, under || isList || k == "UNION")
					if k == "OBJECT" && rapid.IntRange(0, 3).Draw(t, "again") == 0 {
						// the same response key once more, this time selecting through a fragment:
						// the answer has the fields of both occurrences
						again := *nd
						again.Sub = []*Node{{Kind: "inline", On: named.Name, Sub: m.genSel(t, named.Name, depth-1, under || isList), underUnionOrList: under || isList}}
						out = append(out, nd)
						nd = &again
					}
				}
				out = append(out, nd)
			}
		}
		if len(out) == 0 {
			out = append(out, &Node{Kind: "field", Name: "__typename", Key: "__typename"})
		}
	}
	return out
}

// typenameKey: __typename is selected under its own name or, one time in three, under an alias
func typenameKey(t *rapid.T) string {
	if rapid.IntRange(0, 2).Draw(t, "typenamealias") == 0 {
		keyCounter++
		return fmt.Sprintf("k%d_kind", keyCounter)
	}
	return "__typename"
}

// addTwin selects one root field a second time under another response key, with the same
// response keys below it but thinned-out sub-selections: the same objects are then reached
// at two places of the query under the same response key with different sub-selections.
func addTwin(t *rapid.T, root []*Node) []*Node {
	var cands []int
	for i, n := range root {
		if n.Kind == "field" && n.HasSub && len(n.Sub) > 0 {
			cands = append(cands, i)
		}
	}
	if len(cands) == 0 {
		return root
	}
	orig := root[cands[rapid.IntRange(0, len(cands)-1).Draw(t, "twinof")]]
	var clone func(n *Node) *Node
	clone = func(n *Node) *Node {
		c := *n
		c.Sub = nil
		for _, s := range n.Sub {
			c.Sub = append(c.Sub, clone(s))
		}
		return &c
	}
	var thin func(n *Node, depth int)
	thin = func(n *Node, depth int) {
		if depth >= 1 && len(n.Sub) > 1 {
			var fields []int
			for i, s := range n.Sub {
				if s.Kind == "field" && s.Name != "__typename" {
					fields = append(fields, i)
				}
			}
			if len(fields) > 0 && rapid.Bool().Draw(t, "thin") {
				k := fields[rapid.IntRange(0, len(fields)-1).Draw(t, "thinwhich")]
				n.Sub = append(n.Sub[:k:k], n.Sub[k+1:]...)
			}
		}
		for _, s := range n.Sub {
			if s.Kind == "field" && s.HasSub {
				thin(s, depth+1)
			}
		}
	}
	tw := clone(orig)
	keyCounter++
	tw.Key = fmt.Sprintf("k%d_twin_%s", keyCounter, orig.Name)
	thin(tw, 0)
	return append(root, tw)
}

func refString(r TypeRef) string {
	switch r.Kind {
	case "NON_NULL":
		return refString(*r.OfType) + "!"
	case "LIST":
		return "[" + refString(*r.OfType) + "]"
	}
	return r.Name
}

func printNodes(b *strings.Builder, ns []*Node) {
	b.WriteString("{ ")
	for _, n := range ns {
		switch n.Kind {
		case "field":
			if n.Key != n.Name {
				b.WriteString(n.Key + ": ")
			}
			b.WriteString(n.Name + n.Args + " ")
			if n.Sub != nil {
				printNodes(b, n.Sub)
			}
		case "inline":
			b.WriteString("... on " + n.On + " ")
			printNodes(b, n.Sub)
		case "excluded":
			b.WriteString("... on " + n.On + " " + n.Args + " { __typename } ")
		}
	}
	b.WriteString("} ")
}

func text(ns []*Node) string { var b strings.Builder; printNodes(&b, ns); return b.String() }

// ---------- conformance of a response to the advertised types ----------

type confStats struct{ null, empty, union bool }

// mergeKey records a selected field under its response key; a key selected several times
// (same field, same arguments) selects the union of the sub-selections.
func mergeKey(out map[string]*Node, n *Node) {
	prev, ok := out[n.Key]
	if !ok {
		out[n.Key] = n
		return
	}
	merged := *prev
	merged.Sub = append(append([]*Node{}, prev.Sub...), n.Sub...)
	out[n.Key] = &merged
}

func (m *Model) collectKeys(typeName string, ns []*Node, out map[string]*Node) {
	for _, n := range ns {
		switch n.Kind {
		case "field":
			mergeKey(out, n)
		case "inline":
			if n.On == typeName {
				m.collectKeys(typeName, n.Sub, out)
			}
		}
	}
}

func (m *Model) conform(v interface{}, r TypeRef, sel []*Node, path string, st *confStats, listEntry bool) error {
	if r.Kind == "NON_NULL" {
		if v == nil && !listEntry {
			return fmt.Errorf("%s: null under non-null type %s", path, refString(r))
		}
		if v == nil {
			st.null = true
			return nil
		}
		return m.conform(v, *r.OfType, sel, path, st, false)
	}
	if v == nil {
		st.null = true
		return nil
	}
	switch r.Kind {
	case "LIST":
		a, ok := v.([]interface{})
		if !ok {
			return fmt.Errorf("%s: %T where a list %s is advertised", path, v, refString(r))
		}
		if len(a) == 0 {
			st.empty = true
		}
		for i, e := range a {
			if err := m.conform(e, *r.OfType, sel, fmt.Sprintf("%s.%d", path, i), st, true); err != nil {
				return err
			}
		}
		return nil
	case "ENUM":
		s, ok := v.(string)
		if !ok {
			return fmt.Errorf("%s: %T where enum %s is advertised", path, v, r.Name)
		}
		for _, ev := range m.Types[r.Name].EnumValues {
			if ev.Name == s {
				return nil
			}
		}
		return fmt.Errorf("%s: %q is not an advertised value of enum %s", path, s, r.Name)
	case "SCALAR":
		switch r.Name {
		case "bool":
			if _, ok := v.(bool); !ok {
				return fmt.Errorf("%s: %T where bool is advertised", path, v)
			}
		case "string", "bytes":
			if _, ok := v.(string); !ok {
				return fmt.Errorf("%s: %T where %s is advertised", path, v, r.Name)
			}
		case "Time":
			s, ok := v.(string)
			if !ok {
				return fmt.Errorf("%s: %T where Time is advertised", path, v)
			}
			if _, err := time.Parse(time.RFC3339Nano, s); err != nil {
				return fmt.Errorf("%s: %q is not an RFC 3339 time", path, s)
			}
		default:
			if _, ok := v.(json.Number); !ok {
				return fmt.Errorf("%s: %T where the numeric scalar %s is advertised", path, v, r.Name)
			}
		}
		return nil
	case "OBJECT", "UNION":
		obj, ok := v.(map[string]interface{})
		if !ok {
			return fmt.Errorf("%s: %T where %s %s is advertised", path, v, strings.ToLower(r.Kind), r.Name)
		}
		concrete := r.Name
		if r.Kind == "UNION" {
			st.union = true
			// the member is known through __typename if selected; otherwise try every member
			if tn, ok := obj["__typename"].(string); ok {
				concrete = tn
			} else {
				var lastErr error
				for _, pt := range m.Types[r.Name].PossibleTypes {
					if lastErr = m.conformObject(obj, pt.Name, r.Name, sel, path, st); lastErr == nil {
						return nil
					}
				}
				return lastErr
			}
			found := false
			for _, pt := range m.Types[r.Name].PossibleTypes {
				if pt.Name == concrete {
					found = true
				}
			}
			if !found {
				return fmt.Errorf("%s: __typename %q is not a member of union %s", path, concrete, r.Name)
			}
		}
		return m.conformObject(obj, concrete, r.Name, sel, path, st)
	}
	return fmt.Errorf("%s: unexpected advertised kind %s", path, r.Kind)
}

func (m *Model) conformObject(obj map[string]interface{}, concrete, declared string, sel []*Node, path string, st *confStats) error {
	want := map[string]*Node{}
	// under a union, top-level fields (__typename) apply to every member; fragments by member
	for _, n := range sel {
		if n.Kind == "field" {
			mergeKey(want, n)
		} else if n.On == concrete {
			m.collectKeys(concrete, n.Sub, want)
		}
	}
	for k := range obj {
		if k == "__key" {
			continue
		}
		if _, ok := want[k]; !ok {
			return fmt.Errorf("%s: response has field %q that was not selected", path, k)
		}
	}
	for k, n := range want {
		v, ok := obj[k]
		if !ok {
			return fmt.Errorf("%s: selected field %q is missing from the response", path, k)
		}
		if n.Name == "__typename" {
			if s, _ := v.(string); s != concrete {
				return fmt.Errorf("%s.__typename: %v, advertised type is %s", path, v, concrete)
			}
			continue
		}
		var fd *FieldDef
		for i := range m.Types[concrete].Fields {
			if m.Types[concrete].Fields[i].Name == n.Name {
				fd = &m.Types[concrete].Fields[i]
			}
		}
		if fd == nil {
			return fmt.Errorf("harness: field %s not advertised on %s", n.Name, concrete)
		}
		// merge sub-selections of all selections with this key
		if err := m.conform(v, fd.Type, n.Sub, path+"."+k, st, false); err != nil {
			return err
		}
	}
	return nil
}

// ---------- ill-formed variants ----------

func (m *Model) mutate(t *rapid.T, root []*Node) (string, string, bool) {
	var nodes []*Node
	var walk func([]*Node)
	walk = func(ns []*Node) {
		for _, n := range ns {
			if n.Kind == "field" && n.Name != "__typename" {
				nodes = append(nodes, n)
			}
			walk(n.Sub)
		}
	}
	walk(root)
	if len(nodes) == 0 {
		return "", "", false
	}
	n := nodes[rapid.IntRange(0, len(nodes)-1).Draw(t, "victim")]
	saveName, saveSub, saveKey := n.Name, n.Sub, n.Key
	defer func() { n.Name, n.Sub, n.Key = saveName, saveSub, saveKey }()
	kind := rapid.SampledFrom([]string{"unknown-field", "sub-on-leaf", "missing-sub"}).Draw(t, "illkind")
	switch kind {
	case "unknown-field":
		n.Name = "nope" + n.Name
	case "sub-on-leaf":
		if n.HasSub {
			return "", "", false
		}
		n.Sub = []*Node{{Kind: "field", Name: "__typename", Key: "__typename"}}
	case "missing-sub":
		if !n.HasSub {
			return "", "", false
		}
		n.Sub = nil
	}
	return text(root), kind, n.underUnionOrList
}

// illSharedFragment builds an ill-formed query around ONE named fragment that is spread at
// two positions of different object types: valid where it is visited first, naming a field
// the second type does not have (thunder applies a fragment under an object parent whatever
// its type condition says, so that part is applicable and must be rejected).
func (m *Model) illSharedFragment(t *rapid.T) (string, bool) {
	type root struct {
		fd  FieldDef
		typ string
	}
	var roots []root
	for _, f := range m.Types[m.Query].Fields {
		if strings.HasPrefix(f.Name, "__") || f.Name == "_federation" {
			continue
		}
		if n := f.Type.named(); m.Types[n.Name] != nil && m.Types[n.Name].Kind == "OBJECT" {
			roots = append(roots, root{f, n.Name})
		}
	}
	if len(roots) < 2 {
		return "", false
	}
	r1 := roots[rapid.IntRange(0, len(roots)-1).Draw(t, "sfr1")]
	var others []root
	for _, r := range roots {
		if r.typ != r1.typ {
			others = append(others, r)
		}
	}
	if len(others) == 0 {
		return "", false
	}
	r2 := others[rapid.IntRange(0, len(others)-1).Draw(t, "sfr2")]
	has2 := map[string]bool{}
	for _, f := range m.Types[r2.typ].Fields {
		has2[f.Name] = true
	}
	var only1 []FieldDef
	for _, f := range m.Types[r1.typ].Fields {
		if !has2[f.Name] && !strings.HasPrefix(f.Name, "__") {
			only1 = append(only1, f)
		}
	}
	if len(only1) == 0 {
		return "", false
	}
	x := only1[rapid.IntRange(0, len(only1)-1).Draw(t, "sfx")]
	call := func(f FieldDef) string {
		var args []string
		for _, a := range f.Args {
			if a.Type.Kind == "NON_NULL" {
				args = append(args, a.Name+": "+m.literal(t, a.Type, 0))
			}
		}
		if len(args) == 0 {
			return f.Name
		}
		return f.Name + "(" + strings.Join(args, ", ") + ")"
	}
	body := call(x)
	if k := m.Types[x.Type.named().Name].Kind; k == "OBJECT" || k == "UNION" {
		body += " { __typename }"
	}
	extra := ""
	if rapid.Bool().Draw(t, "sfextra") {
		extra = " __typename"
	}
	return fmt.Sprintf("{ k1: %s { ...SF%s } k2: %s {%s ...SF } } fragment SF on %s { %s }", call(r1.fd), extra, call(r2.fd), extra, r1.typ, body), true
}

type Case struct {
	Spec    *world.Spec `json:"spec"`
	Modes   world.Modes `json:"modes"`
	Query   string      `json:"query"`
	Sel     []*Node     `json:"sel,omitempty"`
	Ill     string      `json:"ill,omitempty"`
	IllKind string      `json:"ill_kind,omitempty"`
}

func genModes(t *rapid.T, s *world.Spec) world.Modes {
	m := world.Modes{}
	for _, o := range s.Objects {
		for _, f := range o.Fields {
			kinds := []string{"plain", "expensive", "batch", "batchfb"}
			if o.Type == "Query" {
				kinds = []string{"plain", "expensive"}
			}
			md := world.Mode{Kind: rapid.SampledFrom(kinds).Draw(t, "mode"), Ctx: rapid.Bool().Draw(t, "ctx"), K: rapid.SampledFrom([]int{-100, 2}).Draw(t, "k")}
			if md.Kind == "batchfb" {
				md.Ctx = true
			}
			m[o.Type+"."+f.Name] = md
		}
	}
	return m
}

// validate runs Parse and PrepareQuery only (ill-formed variants are never executed: a query
// that validation wrongly accepts may crash the executor's goroutines).
func validate(b *world.Bound, q string) (string, error) {
	pq, err := graphql.Parse(q, map[string]interface{}{})
	if err != nil {
		return "parse", err
	}
	if err := graphql.PrepareQuery(context.Background(), b.Schema.Query, pq.SelectionSet); err != nil {
		return "prepare", err
	}
	return "execute", nil
}

func exec(b *world.Bound, q string) (interface{}, string, error) {
	pq, err := graphql.Parse(q, map[string]interface{}{})
	if err != nil {
		return nil, "parse", err
	}
	if err := graphql.PrepareQuery(context.Background(), b.Schema.Query, pq.SelectionSet); err != nil {
		return nil, "prepare", err
	}
	res, err := graphql.NewExecutor(graphql.NewImmediateGoroutineScheduler()).Execute(context.Background(), b.Schema.Query, nil, pq)
	if err != nil {
		return nil, "execute", err
	}
	return res, "", nil
}

// wellformed runs the oracles for a query that is well-formed against the advertised schema:
// accepted, executes, and the response conforms to the advertised types.
func wellformed(b *world.Bound, model *Model, root []*Node, q string) (confStats, string, error) {
	var st confStats
	res, stage, err := exec(b, q)
	if err != nil {
		switch stage {
		case "parse":
			return st, "harness", fmt.Errorf("harness: generated query does not parse: %v\n%s", err, q)
		case "prepare":
			return st, "wellformed-rejected", fmt.Errorf("a query that is well-formed against the advertised schema was rejected: %v", err)
		default:
			if strings.Contains(q, "bnn_") {
				// a resolver that broke its NonNullable promise was selected: an error is the
				// right answer (not a type or shape failure of the schema)
				return st, "", nil
			}
			return st, "accepted-but-fails", fmt.Errorf("validation accepted the query but execution failed: %v", err)
		}
	}
	raw, _ := json.Marshal(res)
	dec := json.NewDecoder(strings.NewReader(string(raw)))
	dec.UseNumber()
	var tree interface{}
	dec.Decode(&tree)
	qt := TypeRef{Kind: "OBJECT", Name: model.Query}
	if err := model.conform(tree, qt, root, "", &st, false); err != nil {
		if strings.HasPrefix(err.Error(), "harness:") {
			return st, "harness", err
		}
		return st, "nonconforming", fmt.Errorf("response does not conform to the advertised schema: %v\nresponse: %s", err, jv.CanonBytes(raw))
	}
	// the same query as a live query runs it: inside a reactive rerunner with batching, where
	// results of Expensive fields go through the reactive cache
	res2, err := b.Run(context.Background(), q, map[string]interface{}{}, graphql.NewImmediateGoroutineScheduler(), true)
	if err != nil {
		if strings.Contains(q, "bnn_") {
			return st, "", nil
		}
		return st, "accepted-but-fails", fmt.Errorf("validation accepted the query but its execution inside a rerunner failed: %v", err)
	}
	raw2, _ := json.Marshal(res2)
	dec2 := json.NewDecoder(strings.NewReader(string(raw2)))
	dec2.UseNumber()
	var tree2 interface{}
	dec2.Decode(&tree2)
	var st2 confStats
	if err := model.conform(tree2, qt, root, "", &st2, false); err != nil {
		if strings.HasPrefix(err.Error(), "harness:") {
			return st, "harness", err
		}
		return st, "nonconforming", fmt.Errorf("response of the execution inside a rerunner does not conform to the advertised schema: %v\nresponse: %s", err, jv.CanonBytes(raw2))
	}
	return st, "", nil
}

func TestAdvertised(t *testing.T) {
	rapid.Check(t, func(t *rapid.T) {
		s := world.GenSpec(t)
		// one pointer per pool object: the same source then shows up at several places of a
		// response, which is what the reactive cache of Expensive fields keys on
		s.Intern = rapid.Bool().Draw(t, "intern")
		modes := genModes(t, s)
		b, err := world.BindWith(s, modes, extra)
		if err != nil {
			t.Fatalf("harness: %v", err)
		}
		model, err := introspect(b.Schema)
		if err != nil {
			p := rec.Violate("TestAdvertised", Case{Spec: s, Modes: modes}, "introspection failed: "+err.Error())
			t.Fatalf("introspection query failed: %v (replay %s)", err, p)
		}
		for qi := 0; qi < 4; qi++ {
			keyCounter = 0
			root := model.genSel(t, model.Query, rapid.IntRange(1, 4).Draw(t, "depth"), false)
			if rapid.IntRange(0, 2).Draw(t, "twin") == 0 {
				root = addTwin(t, root)
			}
			q := text(root)
			c := Case{Spec: s, Modes: modes, Query: q, Sel: root}
			fail := func(sig string, err error) {
				p := rec.Violate("TestAdvertised", c, sig+": "+err.Error())
				t.Fatalf("%s: %v\nquery: %s (replay %s)", sig, err, q, p)
			}
			st, sig, err := wellformed(b, model, root, q)
			if err != nil {
				if sig == "harness" {
					t.Fatalf("%v", err)
				}
				fail(sig, err)
			}
			nt := st.null && st.empty && st.union
			labels := []string{"wellformed"}
			for k, v := range map[string]bool{"null": st.null, "empty-list": st.empty, "union-member": st.union} {
				if v {
					labels = append(labels, k)
				}
			}
			sort.Strings(labels)
			sb, _ := json.Marshal(s)
			rec.Case(string(sb)+q, nt, labels...)
			if nt {
				rec.Sample("wellformed", map[string]interface{}{"query": q})
			}
			// one ill-formed variant
			ill, kind, under := model.mutate(t, root)
			if ill == "" {
				continue
			}
			c.Ill, c.IllKind = ill, kind
			stage, err := validate(b, ill)
			if err == nil || stage == "execute" {
				p := rec.Violate("TestAdvertised", c, fmt.Sprintf("illformed-accepted: %s variant passed validation (stage %q, err %v)", kind, stage, err))
				t.Fatalf("ill-formed query (%s) passed validation (stage %q, err %v):\n%s (replay %s)", kind, stage, err, ill, p)
			}
			rec.Case(string(sb)+ill, under, "illformed:"+kind)
			if under {
				rec.Sample("illformed-"+kind, map[string]interface{}{"query": ill})
			}
			if sf, ok := model.illSharedFragment(t); ok {
				c.Ill, c.IllKind = sf, "shared-fragment"
				stage, err := validate(b, sf)
				if stage == "parse" {
					t.Fatalf("harness: shared-fragment variant does not parse: %v\n%s", err, sf)
				}
				if err == nil || stage == "execute" {
					p := rec.Violate("TestAdvertised", c, fmt.Sprintf("illformed-accepted: shared-fragment variant passed validation (stage %q, err %v)", stage, err))
					t.Fatalf("ill-formed query (fragment valid at its first spread, unknown field at the second) passed validation (stage %q, err %v):\n%s (replay %s)", stage, err, sf, p)
				}
				rec.Case(string(sb)+sf, true, "illformed:shared-fragment")
			}
		}
	})
}

func TestReplay(t *testing.T) {
	p := os.Getenv("VERIF_REPLAY")
	if p == "" {
		t.Skip("no VERIF_REPLAY")
	}
	var c Case
	if _, err := ev.LoadReplay(p, &c); err != nil {
		t.Fatalf("harness: cannot load replay: %v", err)
	}
	b, err := world.BindWith(c.Spec, c.Modes, extra)
	if err != nil {
		t.Fatalf("harness: %v", err)
	}
	model, err := introspect(b.Schema)
	if err != nil {
		t.Fatalf("introspection failed: %v", err)
	}
	if c.Ill != "" {
		if stage, err := validate(b, c.Ill); err == nil || stage == "execute" {
			rec.Violate("TestReplay", c, "ill-formed query passed validation")
			t.Fatalf("ill-formed query passed validation: %s", c.Ill)
		}
		return
	}
	if c.Sel != nil {
		if _, sig, err := wellformed(b, model, c.Sel, c.Query); err != nil {
			rec.Violate("TestReplay", c, sig+": "+err.Error())
			t.Fatalf("%s: %v", sig, err)
		}
		return
	}
	if _, stage, err := exec(b, c.Query); err != nil {
		rec.Violate("TestReplay", c, stage+": "+err.Error())
		t.Fatalf("%s: %v", stage, err)
	}
}

// TestMethodShapes concentrates on the Shapes object: random selections over its struct
// fields and over every (result type x registration form) method, under the list field and
// under the nullable single-object field.
func TestMethodShapes(t *testing.T) {
	b, model, err := shapesModel()
	if err != nil {
		t.Fatalf("harness: %v", err)
	}
	rapid.Check(t, func(t *rapid.T) {
		keyCounter = 0
		var root []*Node
		for _, f := range model.Types[model.Query].Fields {
			f := f
			if f.Name != "shapes" && f.Name != "shape" {
				continue
			}
			if !rapid.Bool().Draw(t, "use-"+f.Name) && !(f.Name == "shape" && len(root) == 0) {
				continue
			}
			keyCounter++
			nd := &Node{Kind: "field", Name: f.Name, fd: &f, Key: fmt.Sprintf("k%d_%s", keyCounter, f.Name), HasSub: true}
			if f.Name == "shape" {
				nd.Args = fmt.Sprintf("(id: %d)", rapid.IntRange(-1, 7).Draw(t, "id"))
			}
			nd.Sub = model.genSel(t, "Shapes", rapid.IntRange(1, 2).Draw(t, "depth"), f.Name == "shapes")
			root = append(root, nd)
		}
		q := text(root)
		c := Case{Spec: world.BaseSpec(), Modes: world.Modes{}, Query: q, Sel: root}
		st, sig, err := wellformed(b, model, root, q)
		if err != nil {
			if sig == "harness" {
				t.Fatalf("%v", err)
			}
			p := rec.Violate("TestMethodShapes", c, sig+": "+err.Error())
			t.Fatalf("%s: %v\nquery: %s (replay %s)", sig, err, q, p)
		}
		var forms []string
		for _, pre := range []string{"b_", "bn_", "bf_", "fx_"} {
			if strings.Contains(q, " "+pre) || strings.Contains(q, "_"+pre) {
				forms = append(forms, "form:"+pre)
			}
		}
		nt := st.null && len(forms) > 0
		rec.Case("shapes"+q, nt, append(forms, "methodshapes")...)
		if nt {
			rec.Sample("methodshapes", map[string]interface{}{"query": q})
		}
	})
}

// TestPinned selects every field of Shapes on its own, under the list field (ids 0-5: every
// nil / empty / missing-index combination of mkShapes and methods) and under shape(id:).
func TestPinned(t *testing.T) {
	b, model, err := shapesModel()
	if err != nil {
		t.Fatalf("harness: %v", err)
	}
	minimal := func(fd FieldDef) []*Node {
		named := fd.Type.named()
		switch model.Types[named.Name].Kind {
		case "OBJECT":
			for _, sf := range model.Types[named.Name].Fields {
				sf := sf
				if k := model.Types[sf.Type.named().Name].Kind; k == "SCALAR" || k == "ENUM" {
					return []*Node{{Kind: "field", Name: sf.Name, Key: sf.Name, fd: &sf}}
				}
			}
			return []*Node{{Kind: "field", Name: "__typename", Key: "__typename"}}
		case "UNION":
			return []*Node{{Kind: "field", Name: "__typename", Key: "__typename"}}
		}
		return nil
	}
	var shapesFd, shapeFd FieldDef
	for _, f := range model.Types[model.Query].Fields {
		switch f.Name {
		case "shapes":
			shapesFd = f
		case "shape":
			shapeFd = f
		}
	}
	n := 0
	for _, f := range model.Types["Shapes"].Fields {
		f := f
		if strings.HasPrefix(f.Name, "__") {
			continue
		}
		leaf := &Node{Kind: "field", Name: f.Name, Key: f.Name, fd: &f, Sub: minimal(f)}
		leaf.HasSub = leaf.Sub != nil
		roots := [][]*Node{
			{{Kind: "field", Name: "shapes", Key: "shapes", fd: &shapesFd, HasSub: true, Sub: []*Node{leaf}}},
			{{Kind: "field", Name: "shape", Key: "shape", Args: "(id: 3)", fd: &shapeFd, HasSub: true, Sub: []*Node{leaf}}},
			{{Kind: "field", Name: "shape", Key: "shape", Args: "(id: -1)", fd: &shapeFd, HasSub: true, Sub: []*Node{leaf}}},
		}
		for _, root := range roots {
			q := text(root)
			st, sig, err := wellformed(b, model, root, q)
			if err != nil {
				if sig == "harness" {
					t.Fatalf("%v", err)
				}
				rec.Violate("TestPinned-"+f.Name, Case{Spec: world.BaseSpec(), Modes: world.Modes{}, Query: q, Sel: root}, sig+": "+err.Error())
				t.Errorf("%s: %v\nquery: %s", sig, err, q)
				continue
			}
			n++
			rec.Case("pinned"+q, st.null, "pinned-field")
		}
	}
	if n < 300 {
		t.Errorf("harness: only %d pinned single-field queries ran", n)
	}
}
