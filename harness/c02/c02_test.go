package c02

import (
	"encoding/json"
	"io"
	"log"
	"os"
	"strings"
	"testing"

	"pgregory.net/rapid"

	"verifharness/ev"
	"verifharness/srvm"
)

var rec = ev.New("C02",
	"histories on one websocket connection (fake JSONSocket, real graphql.CreateConnection) over a mutable generated world: subscribe (ids from a pool of 4, generated valid queries with keyed and key-less lists, unions, nullable objects), unsubscribe, data writes that re-seed all generated fields of an entity (scalars change, lists reorder/grow/shrink, unions switch member, pointers toggle nil) followed by invalidation, mutations, echo, pauses, writes fired from inside a resolver of a running recompute; a client model folds every update with the reference delta applier; oracles: first message full, updates only for subscribed ids, nothing after a confirmed unsubscribe, client state == reference result on the final data at quiescence; non-trivial = a write changed a live subscription's result and a write landed during a recompute or an unsubscribe / id reuse / mutation occurred; distinct = hash of the case",
	"convergence is demanded only at quiescence (5 s bound vs ms latencies)", "every client frame is followed by an echo barrier, so the written log is segmented by action")

func TestMain(m *testing.M) { log.SetOutput(io.Discard); code := m.Run(); rec.Flush(); os.Exit(code) }

func run(t interface{ Fatalf(string, ...interface{}) }, test string, c srvm.Case) {
	res, sig, err := srvm.Run(c)
	if err != nil {
		p := rec.Violate(test, c, sig+": "+err.Error())
		t.Fatalf("%s: %v (replay %s)", sig, err, p)
	}
	b, _ := json.Marshal(c)
	rec.Case(string(b), res.Nontrivial, res.Labels...)
	if res.Nontrivial {
		rec.Sample(strings.Join(res.Labels, "+"), map[string]interface{}{"queries": c.Texts, "actions": c.Actions, "triggers": c.Triggers})
	}
}

func TestConverge(t *testing.T) {
	rapid.Check(t, func(t *rapid.T) { run(t, "TestConverge", srvm.Gen(t, false)) })
}

func TestReplay(t *testing.T) {
	p := os.Getenv("VERIF_REPLAY")
	if p == "" {
		t.Skip("no VERIF_REPLAY")
	}
	var c srvm.Case
	if _, err := ev.LoadReplay(p, &c); err != nil {
		t.Fatalf("harness: cannot load replay: %v", err)
	}
	for i := 0; i < 10; i++ {
		run(t, "TestReplay", c)
	}
}
