// Package jsonval generates JSON-like value trees (in the typed Go forms thunder's
// executor emits), related pairs of them, and provides a reference implementation of the
// documented delta format of package diff.
package jsonval

import (
	"bytes"
	"encoding/json"
	"fmt"
	"sort"
	"strconv"

	"pgregory.net/rapid"
)

// V is a serialisable value tree. K is the kind.
type V struct {
	K string  `json:"k"` // null bool int int64 int32 uint8 float32 float64 string bytes arr obj
	B bool    `json:"b,omitempty"`
	I int64   `json:"i,omitempty"`
	F float64 `json:"f,omitempty"`
	S string  `json:"s,omitempty"`
	A []V     `json:"a,omitempty"`
	O []KV    `json:"o,omitempty"`
}

type KV struct {
	Key string `json:"key"`
	Val V      `json:"val"`
}

func Null() V           { return V{K: "null"} }
func Int(i int64) V     { return V{K: "int64", I: i} }
func Str(s string) V    { return V{K: "string", S: s} }
func Arr(a ...V) V      { return V{K: "arr", A: a} }
func Obj(kvs ...KV) V   { return V{K: "obj", O: kvs} }
func F(k string, v V) KV { return KV{k, v} }

// Go converts to the interface{} form Diff consumes. Every call builds fresh containers.
func (v V) Go() interface{} {
	switch v.K {
	case "null":
		return nil
	case "bool":
		return v.B
	case "int":
		return int(v.I)
	case "int64":
		return v.I
	case "int32":
		return int32(v.I)
	case "uint8":
		return uint8(v.I)
	case "float32":
		return float32(v.F)
	case "float64":
		return v.F
	case "string":
		return v.S
	case "bytes":
		return []byte(v.S)
	case "arr":
		out := make([]interface{}, len(v.A))
		for i, e := range v.A {
			out[i] = e.Go()
		}
		return out
	case "obj":
		out := make(map[string]interface{}, len(v.O))
		for _, kv := range v.O {
			out[kv.Key] = kv.Val.Go()
		}
		return out
	}
	panic("bad kind " + v.K)
}

func (v V) Get(k string) (V, bool) {
	for _, kv := range v.O {
		if kv.Key == k {
			return kv.Val, true
		}
	}
	return V{}, false
}

func (v V) with(k string, x V) V {
	out := V{K: "obj"}
	done := false
	for _, kv := range v.O {
		if kv.Key == k {
			out.O = append(out.O, KV{k, x})
			done = true
		} else {
			out.O = append(out.O, kv)
		}
	}
	if !done {
		out.O = append(out.O, KV{k, x})
	}
	return out
}

func (v V) without(k string) V {
	out := V{K: "obj"}
	for _, kv := range v.O {
		if kv.Key != k {
			out.O = append(out.O, kv)
		}
	}
	return out
}

func (v V) IsContainer() bool { return v.K == "arr" || v.K == "obj" }

// Canon returns canonical JSON text (sorted keys, numbers as Go's encoder prints them).
func Canon(x interface{}) string {
	b, err := json.Marshal(x)
	if err != nil {
		return "!marshal-error:" + err.Error()
	}
	return CanonBytes(b)
}

func CanonBytes(b []byte) string {
	dec := json.NewDecoder(bytes.NewReader(b))
	dec.UseNumber()
	var y interface{}
	if err := dec.Decode(&y); err != nil {
		return "!decode-error:" + err.Error()
	}
	var buf bytes.Buffer
	writeCanon(&buf, y)
	return buf.String()
}

func writeCanon(buf *bytes.Buffer, y interface{}) {
	switch y := y.(type) {
	case map[string]interface{}:
		keys := make([]string, 0, len(y))
		for k := range y {
			keys = append(keys, k)
		}
		sort.Strings(keys)
		buf.WriteByte('{')
		for i, k := range keys {
			if i > 0 {
				buf.WriteByte(',')
			}
			kb, _ := json.Marshal(k)
			buf.Write(kb)
			buf.WriteByte(':')
			writeCanon(buf, y[k])
		}
		buf.WriteByte('}')
	case []interface{}:
		buf.WriteByte('[')
		for i, e := range y {
			if i > 0 {
				buf.WriteByte(',')
			}
			writeCanon(buf, e)
		}
		buf.WriteByte(']')
	case json.Number:
		// normalise 1.0 / 1e0 forms through float64 when exact
		if f, err := y.Float64(); err == nil {
			buf.WriteString(strconv.FormatFloat(f, 'g', -1, 64))
		} else {
			buf.WriteString(y.String())
		}
	default:
		b, _ := json.Marshal(y)
		buf.Write(b)
	}
}

// RoundTrip marshals and decodes x the way a client receives it (float64 numbers).
func RoundTrip(x interface{}) (interface{}, error) {
	b, err := json.Marshal(x)
	if err != nil {
		return nil, err
	}
	var y interface{}
	if err := json.Unmarshal(b, &y); err != nil {
		return nil, err
	}
	return y, nil
}

// StripKeyRef removes "__key" entries recursively from a decoded JSON value
// (independent re-implementation; not thunder's StripKey).
func StripKeyRef(x interface{}) interface{} {
	switch x := x.(type) {
	case map[string]interface{}:
		out := map[string]interface{}{}
		for k, v := range x {
			if k != "__key" {
				out[k] = StripKeyRef(v)
			}
		}
		return out
	case []interface{}:
		out := make([]interface{}, len(x))
		for i, v := range x {
			out[i] = StripKeyRef(v)
		}
		return out
	}
	return x
}

// absent marks "no previous value" in RefApply.
type absentT struct{}

var Absent = absentT{}

// RefApply applies a delta in the documented format (package comment of diff/diff.go,
// cross-read with client/src/merge.ts) to a decoded JSON value:
//   - 1-element array: complex replacement by its element
//   - non-object, non-array: scalar replacement
//   - object on an array: optional "$" list of old indices (-1 = hole, [start,count] = run),
//     default identity; then numeric keys are deltas for the elements at those positions
//   - object on an object: per field, 0-element array removes, anything else recurses
//
// Anything else is a format error: in particular an object delta applied to something
// that is neither object nor array, a 0-element array anywhere but as an object field,
// and arrays with more than one element.
func RefApply(old interface{}, delta interface{}) (interface{}, error) {
	switch d := delta.(type) {
	case []interface{}:
		if len(d) != 1 {
			return nil, fmt.Errorf("format: replacement array of length %d", len(d))
		}
		return d[0], nil
	case map[string]interface{}:
		switch o := old.(type) {
		case []interface{}:
			var cur []interface{}
			if r, ok := d["$"]; ok {
				runs, ok := r.([]interface{})
				if !ok {
					return nil, fmt.Errorf("format: $ is not a list")
				}
				for _, x := range runs {
					switch x := x.(type) {
					case float64:
						if x == -1 {
							cur = append(cur, Absent)
						} else {
							i := int(x)
							if float64(i) != x || i < 0 || i >= len(o) {
								return nil, fmt.Errorf("format: index %v out of range", x)
							}
							cur = append(cur, o[i])
						}
					case []interface{}:
						if len(x) != 2 {
							return nil, fmt.Errorf("format: run of length %d", len(x))
						}
						s, ok1 := x[0].(float64)
						c, ok2 := x[1].(float64)
						if !ok1 || !ok2 || s < 0 || c < 0 || int(s)+int(c) > len(o) {
							return nil, fmt.Errorf("format: bad run %v", x)
						}
						for i := int(s); i < int(s)+int(c); i++ {
							cur = append(cur, o[i])
						}
					default:
						return nil, fmt.Errorf("format: bad $ entry %v", x)
					}
				}
			} else {
				cur = append(cur, o...)
			}
			for k, dv := range d {
				if k == "$" {
					continue
				}
				i, err := strconv.Atoi(k)
				if err != nil || i < 0 || i >= len(cur) || strconv.Itoa(i) != k {
					return nil, fmt.Errorf("format: bad array key %q (len %d)", k, len(cur))
				}
				nv, err := RefApply(cur[i], dv)
				if err != nil {
					return nil, fmt.Errorf("[%d]: %v", i, err)
				}
				cur[i] = nv
			}
			for i := range cur {
				if cur[i] == Absent {
					// a hole that no element delta filled: the new element is null
					// (Diff(nil, nil) is empty)
					cur[i] = nil
				}
			}
			if cur == nil {
				cur = []interface{}{}
			}
			return cur, nil
		case map[string]interface{}:
			out := map[string]interface{}{}
			for k, v := range o {
				out[k] = v
			}
			for k, dv := range d {
				if a, ok := dv.([]interface{}); ok && len(a) == 0 {
					if _, had := out[k]; !had {
						return nil, fmt.Errorf("format: removal of absent field %q", k)
					}
					delete(out, k)
					continue
				}
				var prev interface{} = Absent
				if p, ok := out[k]; ok {
					prev = p
				}
				nv, err := RefApply(prev, dv)
				if err != nil {
					return nil, fmt.Errorf("%s: %v", k, err)
				}
				out[k] = nv
			}
			return out, nil
		default:
			return nil, fmt.Errorf("format: object delta applied to %T", old)
		}
	case nil:
		// merge.ts treats a bare null as a scalar replacement; thunder's Diff always wraps
		// null, so this is only leniency of the reference.
		return nil, nil
	default:
		return d, nil
	}
}

// ---------- generators ----------

var fieldNames = []string{"a", "b", "c", "d", "e", "$", "0", "1"}

func genScalar(t *rapid.T, typed bool) V {
	kinds := []string{"null", "bool", "int64", "float64", "string", "string"}
	if typed {
		kinds = append(kinds, "int", "int32", "uint8", "float32", "bytes")
	}
	switch k := rapid.SampledFrom(kinds).Draw(t, "kind"); k {
	case "null":
		return Null()
	case "bool":
		return V{K: "bool", B: rapid.Bool().Draw(t, "b")}
	case "int", "int64":
		return V{K: k, I: rapid.Int64Range(-3, 6).Draw(t, "i")}
	case "int32":
		return V{K: k, I: int64(rapid.Int32Range(-3, 6).Draw(t, "i"))}
	case "uint8":
		return V{K: k, I: int64(rapid.IntRange(0, 6).Draw(t, "i"))}
	case "float32":
		return V{K: k, F: float64(rapid.SampledFrom([]float32{0, 0.5, 1, 1.25, -2, 3}).Draw(t, "f"))}
	case "float64":
		return V{K: k, F: rapid.SampledFrom([]float64{0, 0.5, 1, 1.25, -2, 3, 1e3}).Draw(t, "f")}
	case "string":
		return V{K: k, S: rapid.SampledFrom([]string{"", "x", "y", "z", "1", "-1", "$", "[]", "null"}).Draw(t, "s")}
	case "bytes":
		return V{K: k, S: rapid.SampledFrom([]string{"", "ab", "cd"}).Draw(t, "s")}
	}
	panic("unreachable")
}

func genKeyVal(t *rapid.T, keyKind string, i int) V {
	if keyKind == "string" {
		return Str("k" + strconv.Itoa(i))
	}
	return Int(int64(i))
}

// Gen draws a value tree. typed selects executor-style typed scalars.
func Gen(t *rapid.T, depth int, typed bool) V {
	c := 0
	if depth > 0 {
		c = rapid.IntRange(0, 9).Draw(t, "shape")
	}
	switch {
	case c <= 2:
		return genScalar(t, typed)
	case c <= 5:
		return genObj(t, depth, typed, false, "", 0)
	default:
		return genArr(t, depth, typed)
	}
}

func genObj(t *rapid.T, depth int, typed bool, keyed bool, keyKind string, key int) V {
	n := rapid.IntRange(0, 4).Draw(t, "nfields")
	names := rapid.SliceOfNDistinct(rapid.SampledFrom(fieldNames), n, n, rapid.ID[string]).Draw(t, "names")
	v := V{K: "obj"}
	if keyed {
		v.O = append(v.O, KV{"__key", genKeyVal(t, keyKind, key)})
	} else if depth > 0 && rapid.IntRange(0, 5).Draw(t, "haskey") == 0 {
		v.O = append(v.O, KV{"__key", genKeyVal(t, rapid.SampledFrom([]string{"int", "string"}).Draw(t, "kk"), rapid.IntRange(0, 3).Draw(t, "kv"))})
	}
	for _, nm := range names {
		v.O = append(v.O, KV{nm, Gen(t, depth-1, typed)})
	}
	return v
}

func genArr(t *rapid.T, depth int, typed bool) V {
	n := rapid.IntRange(0, 8).Draw(t, "len")
	v := V{K: "arr", A: []V{}}
	switch rapid.SampledFrom([]string{"scalars", "keyed", "keyless", "mixed"}).Draw(t, "arrkind") {
	case "scalars":
		// small alphabet: duplicates are frequent
		for i := 0; i < n; i++ {
			v.A = append(v.A, genScalar(t, typed))
		}
	case "keyed":
		kk := rapid.SampledFrom([]string{"int", "string"}).Draw(t, "kk")
		keys := rapid.Permutation(seq(10)).Draw(t, "keys")
		for i := 0; i < n; i++ {
			v.A = append(v.A, genObj(t, depth-1, typed, true, kk, keys[i]))
		}
	case "keyless":
		for i := 0; i < n; i++ {
			v.A = append(v.A, genObj(t, depth-1, typed, true, "", 0).without("__key"))
		}
	default:
		for i := 0; i < n; i++ {
			e := Gen(t, depth-1, typed)
			if e.K == "obj" {
				e = e.without("__key")
			}
			v.A = append(v.A, e)
		}
	}
	return v
}

func seq(n int) []int {
	s := make([]int, n)
	for i := range s {
		s[i] = i
	}
	return s
}

// usedKeys returns the __key values (canonical text) present among array elements.
func usedKeys(a []V) map[string]bool {
	m := map[string]bool{}
	for _, e := range a {
		if e.K == "obj" {
			if k, ok := e.Get("__key"); ok {
				m[k.K+":"+k.S+":"+strconv.FormatInt(k.I, 10)] = true
			}
		}
	}
	return m
}

// Edit applies one random edit somewhere in v and returns the new tree plus a label.
func Edit(t *rapid.T, v V, depth int, typed bool) (V, string) {
	// descend with some probability
	if v.IsContainer() && depth > 0 && rapid.IntRange(0, 2).Draw(t, "descend") > 0 {
		if v.K == "obj" && len(v.O) > 0 {
			idx := rapid.IntRange(0, len(v.O)-1).Draw(t, "field")
			if v.O[idx].Key != "__key" {
				nv, lbl := Edit(t, v.O[idx].Val, depth-1, typed)
				return v.with(v.O[idx].Key, nv), lbl
			}
		}
		if v.K == "arr" && len(v.A) > 0 {
			idx := rapid.IntRange(0, len(v.A)-1).Draw(t, "elem")
			nv, lbl := Edit(t, v.A[idx], depth-1, typed)
			// keep __key uniqueness: an edit below never changes the element's own key
			out := V{K: "arr", A: append([]V{}, v.A...)}
			out.A[idx] = nv
			return out, lbl
		}
	}
	switch v.K {
	case "obj":
		switch op := rapid.SampledFrom([]string{"addfield", "addcontainer", "rmfield", "chfield", "replace", "tonull"}).Draw(t, "objop"); op {
		case "addfield":
			return v.with(rapid.SampledFrom(fieldNames).Draw(t, "name"), genScalar(t, typed)), op
		case "addcontainer":
			nv := Gen(t, 2, typed)
			if !nv.IsContainer() {
				nv = Arr(genScalar(t, typed), genScalar(t, typed))
			}
			return v.with(rapid.SampledFrom(fieldNames).Draw(t, "name"), nv), op
		case "rmfield":
			if len(v.O) == 0 {
				return v, "noop"
			}
			k := v.O[rapid.IntRange(0, len(v.O)-1).Draw(t, "field")].Key
			if k == "__key" {
				return v, "noop"
			}
			return v.without(k), op
		case "chfield":
			if len(v.O) == 0 {
				return v, "noop"
			}
			k := v.O[rapid.IntRange(0, len(v.O)-1).Draw(t, "field")].Key
			if k == "__key" {
				return v, "noop"
			}
			return v.with(k, Gen(t, 1, typed)), op
		case "replace":
			// keep the key (if any) so arrays keep unique keys
			nv := genObj(t, 1, typed, false, "", 0).without("__key")
			if k, ok := v.Get("__key"); ok {
				nv.O = append([]KV{{"__key", k}}, nv.O...)
			}
			return nv, op
		default:
			if _, ok := v.Get("__key"); ok {
				return v, "noop" // element identity stays; nulling keyed elements is done by arr ops
			}
			return Null(), op
		}
	case "arr":
		a := append([]V{}, v.A...)
		n := len(a)
		switch op := rapid.SampledFrom([]string{"insert", "delete", "move", "dup", "truncate", "rotate", "reverse", "swap", "replace", "deleterange"}).Draw(t, "arrop"); op {
		case "insert":
			pos := rapid.IntRange(0, n).Draw(t, "pos")
			var e V
			if n > 0 && a[0].K == "obj" {
				if k, ok := a[0].Get("__key"); ok {
					// fresh key of the same kind
					used := usedKeys(a)
					for i := 10; i < 40; i++ {
						c := genKeyVal(nil, map[bool]string{true: "string", false: "int"}[k.K == "string"], i)
						if !used[c.K+":"+c.S+":"+strconv.FormatInt(c.I, 10)] {
							e = genObj(t, 1, typed, false, "", 0).without("__key")
							e.O = append([]KV{{"__key", c}}, e.O...)
							break
						}
					}
				} else {
					e = genObj(t, 1, typed, false, "", 0).without("__key")
				}
			} else {
				e = genScalar(t, typed)
			}
			a = append(a[:pos], append([]V{e}, a[pos:]...)...)
			return V{K: "arr", A: a}, op
		case "delete":
			if n == 0 {
				return v, "noop"
			}
			pos := rapid.IntRange(0, n-1).Draw(t, "pos")
			a = append(a[:pos], a[pos+1:]...)
			return V{K: "arr", A: a}, op
		case "deleterange":
			if n < 2 {
				return v, "noop"
			}
			lo := rapid.IntRange(0, n-1).Draw(t, "lo")
			hi := rapid.IntRange(lo, n).Draw(t, "hi")
			a = append(a[:lo], a[hi:]...)
			return V{K: "arr", A: a}, op
		case "move":
			if n < 2 {
				return v, "noop"
			}
			from := rapid.IntRange(0, n-1).Draw(t, "from")
			to := rapid.IntRange(0, n-1).Draw(t, "to")
			e := a[from]
			a = append(a[:from], a[from+1:]...)
			a = append(a[:to], append([]V{e}, a[to:]...)...)
			return V{K: "arr", A: a}, op
		case "dup":
			if n == 0 {
				return v, "noop"
			}
			pos := rapid.IntRange(0, n-1).Draw(t, "pos")
			if a[pos].K == "obj" {
				if _, ok := a[pos].Get("__key"); ok {
					return v, "noop"
				}
			}
			a = append(a, a[pos])
			return V{K: "arr", A: a}, op
		case "truncate":
			if n == 0 {
				return v, "noop"
			}
			return V{K: "arr", A: a[:rapid.IntRange(0, n-1).Draw(t, "keep")]}, op
		case "rotate":
			if n < 2 {
				return v, "noop"
			}
			k := rapid.IntRange(1, n-1).Draw(t, "by")
			return V{K: "arr", A: append(append([]V{}, a[k:]...), a[:k]...)}, op
		case "reverse":
			for i, j := 0, n-1; i < j; i, j = i+1, j-1 {
				a[i], a[j] = a[j], a[i]
			}
			return V{K: "arr", A: a}, op
		case "swap":
			if n < 2 {
				return v, "noop"
			}
			i := rapid.IntRange(0, n-1).Draw(t, "i")
			j := rapid.IntRange(0, n-1).Draw(t, "j")
			a[i], a[j] = a[j], a[i]
			return V{K: "arr", A: a}, op
		default:
			return Gen(t, 1, typed), "replace"
		}
	default:
		return Gen(t, 2, typed), "chscalar"
	}
}
