// Runs thunder's real client/src/merge.ts (types stripped) over a line protocol:
// each stdin line is {"orig":<json>,"update":<json>,"hasOrig":bool}; each stdout line is
// {"ok":true,"result":<json>} or {"ok":false,"error":"..."}.
const fs = require("fs");
const path = process.argv[2];
let src = fs.readFileSync(path, "utf8");
src = src.replace(/^export\s+/gm, "").replace(/:\s*any/g, "");
let merge;
try {
  merge = new Function(src + "\nreturn merge;")();
} catch (e) {
  console.log(JSON.stringify({ ready: false, error: String(e) }));
  process.exit(0);
}
console.log(JSON.stringify({ ready: true }));
const rl = require("readline").createInterface({ input: process.stdin, terminal: false });
rl.on("line", (line) => {
  let out;
  try {
    const c = JSON.parse(line);
    const r = merge(c.hasOrig ? c.orig : undefined, c.update);
    out = { ok: true, result: r === undefined ? null : r, undef: r === undefined };
  } catch (e) {
    out = { ok: false, error: String(e) };
  }
  console.log(JSON.stringify(out));
});
