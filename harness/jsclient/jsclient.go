// Package jsclient drives /repo/client/src/merge.ts under node.
package jsclient

import (
	"bufio"
	"encoding/json"
	"errors"
	"os"
	"os/exec"
	"path/filepath"
	"runtime"
	"sync"
)

type Runner struct {
	mu  sync.Mutex
	cmd *exec.Cmd
	in  *bufio.Writer
	out *bufio.Reader
}

func repoDir() string {
	if d := os.Getenv("VERIF_REPO"); d != "" {
		return d
	}
	return "/repo"
}

// Start returns a runner or an error when node / the type-strip is unavailable
// (that leg is then recorded as skipped; it is never a violation).
func Start() (*Runner, error) {
	node, err := exec.LookPath("node")
	if err != nil {
		return nil, err
	}
	_, self, _, _ := runtime.Caller(0)
	js := filepath.Join(filepath.Dir(self), "merge_runner.js")
	cmd := exec.Command(node, js, filepath.Join(repoDir(), "client/src/merge.ts"))
	stdin, _ := cmd.StdinPipe()
	stdout, _ := cmd.StdoutPipe()
	cmd.Stderr = os.Stderr
	if err := cmd.Start(); err != nil {
		return nil, err
	}
	r := &Runner{cmd: cmd, in: bufio.NewWriter(stdin), out: bufio.NewReaderSize(stdout, 1<<20)}
	line, err := r.out.ReadBytes('\n')
	if err != nil {
		return nil, err
	}
	var rd struct {
		Ready bool
		Error string
	}
	if json.Unmarshal(line, &rd) != nil || !rd.Ready {
		cmd.Process.Kill()
		return nil, errors.New("merge.ts did not load: " + rd.Error)
	}
	return r, nil
}

// Merge runs merge(orig, update); hasOrig=false passes undefined.
func (r *Runner) Merge(orig interface{}, hasOrig bool, update interface{}) (interface{}, error) {
	r.mu.Lock()
	defer r.mu.Unlock()
	b, err := json.Marshal(map[string]interface{}{"orig": orig, "hasOrig": hasOrig, "update": update})
	if err != nil {
		return nil, err
	}
	r.in.Write(b)
	r.in.WriteByte('\n')
	if err := r.in.Flush(); err != nil {
		return nil, err
	}
	line, err := r.out.ReadBytes('\n')
	if err != nil {
		return nil, err
	}
	var res struct {
		Ok     bool
		Result interface{}
		Error  string
	}
	if err := json.Unmarshal(line, &res); err != nil {
		return nil, err
	}
	if !res.Ok {
		return nil, errors.New("js: " + res.Error)
	}
	return res.Result, nil
}

func (r *Runner) Close() {
	if r != nil && r.cmd != nil {
		r.cmd.Process.Kill()
		r.cmd.Wait()
	}
}
