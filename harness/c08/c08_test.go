package c08

import (
	"encoding/json"
	"os"
	"strings"
	"testing"

	"pgregory.net/rapid"

	"verifharness/ev"
	"verifharness/rx"
)

var rec = ev.New("C08",
	"the C04 machine with generated trees of reactive.Cache sub-computations (key DAG of depth <= 5, keys shared between branches, slots shared between children), PurgeCache from inside a run, InvalidateAfter timers, yield-site sleeps in Cache (hit / before set), release and invalidate; every resource has a Cleanup counter; oracles: at quiescence every version embedded in a rerunner's final output (read directly or through cached children) is current, and after all rerunners stop every resource a computation registered was cleaned up exactly once (others never); non-trivial = a cached child was reused by a later run while another child was recomputed, or a write landed during a run, or a purge / expiry happened; distinct = hash of the case",
	"gap: whether the timer behind InvalidateAfter is stopped is not observable from outside the package; its resource goes through the same release path as the harness resources")

func TestMain(m *testing.M) { code := m.Run(); rec.Flush(); os.Exit(code) }

func run(t interface{ Fatalf(string, ...interface{}) }, test string, c rx.Case) {
	res, sig, err := rx.Run(c, true)
	if err != nil {
		p := rec.Violate(test, c, sig+": "+err.Error())
		t.Fatalf("%s: %v (replay %s)", sig, err, p)
	}
	h := res.Hits
	nt := (h.CacheReuse > 0 && h.ChildRecomputed > 0) || h.WriteDuringRunAfterDep > 0 || h.WriteMid > 0 || h.Purge > 0 || h.Expire > 0
	b, _ := json.Marshal(c)
	rec.Case(string(b), nt, res.Labels...)
	if nt {
		rec.Sample(strings.Join(res.Labels, "+"), c)
	}
}

func TestCache(t *testing.T) {
	rapid.Check(t, func(t *rapid.T) { run(t, "TestCache", rx.Gen(t, 3, true)) })
}

func TestReplay(t *testing.T) {
	p := os.Getenv("VERIF_REPLAY")
	if p == "" {
		t.Skip("no VERIF_REPLAY")
	}
	var c rx.Case
	if _, err := ev.LoadReplay(p, &c); err != nil {
		t.Fatalf("harness: cannot load replay: %v", err)
	}
	for i := 0; i < 30; i++ {
		run(t, "TestReplay", c)
	}
}

// TestPinned: the release race repaired by 6fec84d (see rx.ReleaseRaceProbe).
func TestPinned(t *testing.T) {
	hit := 0
	for i := 0; i < 40; i++ {
		reg, released, cleaned := rx.ReleaseRaceProbe(2000)
		if reg == 0 {
			t.Fatalf("harness: the retry never ran")
		}
		if released > reg {
			c := map[string]interface{}{"history": "run 1 registers R and fails with the retry sentinel; its release goroutine pauses at release.decided; run 2 registers R", "registered_at": reg, "released_at": released, "cleanup_ran": cleaned}
			p := rec.Violate("TestPinned", c, "a resource was released (cleanup ran: "+map[bool]string{true: "yes", false: "not yet"}[cleaned]+") after the current computation of a live rerunner had registered it")
			t.Fatalf("resource released at event %d after run 2 registered it at event %d while run 2's computation is current (replay %s)", released, reg, p)
		}
		if released == 0 {
			hit++ // the registration landed in the gap and the resource stayed
		}
	}
	rec.Case("pinned-release-race", hit > 0, "pinned")
}
