package c18

import (
	"context"
	"encoding/base64"
	"encoding/json"
	"fmt"
	"os"
	"reflect"
	"sort"
	"strconv"
	"strings"
	"sync"
	"testing"
	"time"

	"github.com/samsarahq/thunder/graphql"
	"github.com/samsarahq/thunder/graphql/schemabuilder"
	"pgregory.net/rapid"

	"verifharness/ev"
)

var rec = ev.New("C18",
	"cases: one of three argument structs (all scalar widths, named scalar, enum, bytes, time, text-unmarshaler; pointers and optional tags; nested input objects and lists of scalars, pointers, structs, lists, enums) with a drawn value per field and a drawn transport per field (literal / variable / variable with default absent / explicit null with default / overridden default / omitted) plus negative cases (required field omitted, wrong JSON kind); non-trivial = the struct has a nested struct or list and >=2 different transports in the same call; distinct = hash of (struct, values, transports)",
	"integers within the field width and +-2^53; float32 values exactly representable; times in UTC", "null is only sent through variables (the vendored parser has no null literal)")

func TestMain(m *testing.M) { code := m.Run(); rec.Flush(); os.Exit(code) }

type Label string
type EnumA int32

var enumAMap = map[string]EnumA{"RED": 0, "GREEN": 1, "BLUE": 2}

type TextU struct{ V string }

func (t *TextU) UnmarshalText(b []byte) error { t.V = "tu:" + string(b); return nil }

type Nested struct {
	A int64
	B *string
	C []int32
}

// AllOpt is an input object all of whose own fields may be left out; as a non-pointer field
// (or list element) the object itself is still required.
type AllOpt struct {
	P *int64
	O string `graphql:",optional"`
}

type ArgScalars struct {
	I8  int8
	I16 int16
	I32 int32
	I64 int64
	I   int
	U8  uint8
	U16 uint16
	U32 uint32
	U64 uint64
	U   uint
	F32 float32
	F64 float64
	B   bool
	S   string
	L   Label
	E   EnumA
	By  []byte
	T   time.Time
	TU  TextU
}

type ArgPtrs struct {
	PI   *int64
	PS   *string
	PB   *bool
	PE   *EnumA
	PF   *float64
	PT   *time.Time
	PU8  *uint8
	PN   *Nested
	OptI int64  `graphql:",optional"`
	OptS string `graphql:"optS,optional"`
	OptN Nested `graphql:",optional"`
	// a pointer that also carries the optional tag: a zero value sent for it arrives as a pointer to zero
	OPI *int64   `graphql:",optional"`
	OPS *string  `graphql:",optional"`
	OPB *bool    `graphql:",optional"`
	OPF *float64 `graphql:",optional"`
	Req int32
}

type ArgLists struct {
	LI []int64
	LS []string
	LP []*int64
	LN []Nested
	LL [][]int64
	N  Nested
	PN *Nested
	LE []EnumA
	PL *[]string
	RO AllOpt
	LO []AllOpt
	// lists of byte-wide named types (a []byte is the base64 "bytes" scalar; these are lists)
	LU8 []Level8
	LE8 []EnumU8
	LB  [][]byte
}

type Level8 uint8
type EnumU8 uint8

var enumU8Map = map[string]EnumU8{"LOW": 1, "MID": 2, "HIGH": 250}

// Tree is an input object that refers to itself (through a list of pointers and through a
// pointer), with fields declared before and after the self-references.
type Tree struct {
	Name string
	Kids []*Tree
	Next *Tree
	Tag  *string
	Req  int32
	Opt  int64 `graphql:",optional"`
}

type ArgTree struct {
	Root   Tree
	Forest []Tree
	PRoot  *Tree
}

// ArgPaged: the own arguments of a paginated field (next to first/after/... that thunder adds)
type ArgPaged struct {
	PI   *int64
	PS   *string
	OptI int64 `graphql:",optional"`
	Req  int32
	PN   *Nested
	LS   []string
}

type PagedItem struct{ Id int64 }

var sink struct {
	mu    sync.Mutex
	calls []interface{}
}

func record(v interface{}) {
	sink.mu.Lock()
	sink.calls = append(sink.calls, v)
	sink.mu.Unlock()
}

var schema *graphql.Schema

func init() {
	s := schemabuilder.NewSchema()
	s.Enum(EnumA(0), enumAMap)
	s.Enum(EnumU8(0), enumU8Map)
	q := s.Query()
	q.FieldFunc("scalars", func(a ArgScalars) bool { record(a); return true })
	q.FieldFunc("ptrs", func(ctx context.Context, a ArgPtrs) bool { record(a); return true })
	q.FieldFunc("lists", func(a ArgLists) (bool, error) { record(a); return true, nil })
	q.FieldFunc("tree", func(a ArgTree) bool { record(a); return true })
	pi := s.Object("PagedItem", PagedItem{})
	pi.Key("id")
	q.FieldFunc("paged", func(a ArgPaged) []PagedItem { record(a); return []PagedItem{{Id: 1}, {Id: 2}} }, schemabuilder.Paginated)
	schema = s.MustBuild()
}

// ---- value model: a JSON-like tree annotated with how to print it as a GraphQL literal ----

type Val struct {
	Kind  string          `json:"kind"` // int float string enum bool list object null
	Raw   json.RawMessage `json:"raw,omitempty"`
	Items []Val           `json:"items,omitempty"`
	Keys  []string        `json:"keys,omitempty"`
	Var   string          `json:"var,omitempty"` // nested variable transport
}

func (v Val) JSON() interface{} {
	switch v.Kind {
	case "list":
		out := make([]interface{}, len(v.Items))
		for i, it := range v.Items {
			out[i] = it.JSON()
		}
		return out
	case "object":
		out := map[string]interface{}{}
		for i, k := range v.Keys {
			out[k] = v.Items[i].JSON()
		}
		return out
	case "null":
		return nil
	}
	var x interface{}
	json.Unmarshal(v.Raw, &x)
	return x
}

func (v Val) Literal(vars map[string]interface{}, defs *[]string) string {
	if v.Var != "" {
		vars[v.Var] = v.JSON()
		*defs = append(*defs, "$"+v.Var+": T")
		return "$" + v.Var
	}
	switch v.Kind {
	case "list":
		var parts []string
		for _, it := range v.Items {
			parts = append(parts, it.Literal(vars, defs))
		}
		return "[" + strings.Join(parts, ", ") + "]"
	case "object":
		var parts []string
		for i, k := range v.Keys {
			parts = append(parts, k+": "+v.Items[i].Literal(vars, defs))
		}
		return "{" + strings.Join(parts, ", ") + "}"
	case "enum":
		var s string
		json.Unmarshal(v.Raw, &s)
		return s
	}
	return string(v.Raw)
}

func raw(x interface{}) json.RawMessage { b, _ := json.Marshal(x); return b }

type FieldCase struct {
	Name      string `json:"name"`
	Transport string `json:"transport"` // literal var default-absent default-null default-override omitted
	Val       Val    `json:"val"`
	Alt       *Val   `json:"alt,omitempty"` // the default that must NOT win (override) / the value not sent
}

type Case struct {
	Struct string      `json:"struct"`
	Fields []FieldCase `json:"fields"`
	Neg    string      `json:"neg,omitempty"` // "" | "missing:<field>" | "kind:<field>"
}

// ---- generators producing (Go value, Val) pairs by reflection over the struct type ----

var strs = []string{"", "a", "héllo", "q\"uote", "back\\slash", "line\nbreak", "tab\t", "\u0001ctl", "😀 non-BMP", "</script>&", " sep", "null", "$x", "{}"}

func genFor(t *rapid.T, typ reflect.Type, depth int, allowVar bool, allowNull bool) (reflect.Value, Val) {
	gv := reflect.New(typ).Elem()
	mk := func(v Val) Val {
		if allowVar && depth > 0 && rapid.IntRange(0, 5).Draw(t, "nestedvar") == 0 {
			varCounter++
			v.Var = "n" + strconv.Itoa(varCounter)
		}
		return v
	}
	switch typ {
	case reflect.TypeOf(EnumA(0)):
		name := rapid.SampledFrom([]string{"RED", "GREEN", "BLUE"}).Draw(t, "enum")
		gv.Set(reflect.ValueOf(enumAMap[name]))
		return gv, mk(Val{Kind: "enum", Raw: raw(name)})
	case reflect.TypeOf(EnumU8(0)):
		name := rapid.SampledFrom([]string{"LOW", "MID", "HIGH"}).Draw(t, "enumu8")
		gv.Set(reflect.ValueOf(enumU8Map[name]))
		return gv, mk(Val{Kind: "enum", Raw: raw(name)})
	case reflect.TypeOf([]byte(nil)):
		b := []byte(rapid.SampledFrom([]string{"", "x", "hello", "\x00\xff"}).Draw(t, "bytes"))
		gv.SetBytes(append([]byte{}, b...))
		return gv, mk(Val{Kind: "string", Raw: raw(base64.StdEncoding.EncodeToString(b))})
	case reflect.TypeOf(time.Time{}):
		tm := time.Date(2000+rapid.IntRange(0, 40).Draw(t, "y"), time.Month(rapid.IntRange(1, 12).Draw(t, "mo")), rapid.IntRange(1, 28).Draw(t, "d"),
			rapid.IntRange(0, 23).Draw(t, "h"), rapid.IntRange(0, 59).Draw(t, "mi"), rapid.IntRange(0, 59).Draw(t, "s"), rapid.SampledFrom([]int{0, 0, 500000000, 123456789}).Draw(t, "ns"), time.UTC)
		gv.Set(reflect.ValueOf(tm))
		return gv, mk(Val{Kind: "string", Raw: raw(tm.Format(time.RFC3339Nano))})
	case reflect.TypeOf(TextU{}):
		s := rapid.SampledFrom(strs).Draw(t, "tu")
		gv.Set(reflect.ValueOf(TextU{V: "tu:" + s}))
		return gv, mk(Val{Kind: "string", Raw: raw(s)})
	}
	switch typ.Kind() {
	case reflect.Int8, reflect.Int16, reflect.Int32, reflect.Int64, reflect.Int:
		bits := typ.Bits()
		if bits > 54 {
			bits = 54
		}
		lim := int64(1)<<(bits-1) - 1
		x := rapid.OneOf(rapid.Int64Range(-lim-1, lim), rapid.SampledFrom([]int64{0, 1, -1, lim, -lim - 1})).Draw(t, "int")
		gv.SetInt(x)
		return gv, mk(Val{Kind: "int", Raw: raw(x)})
	case reflect.Uint8, reflect.Uint16, reflect.Uint32, reflect.Uint64, reflect.Uint:
		bits := typ.Bits()
		if bits > 53 {
			bits = 53
		}
		lim := uint64(1)<<bits - 1
		x := rapid.OneOf(rapid.Uint64Range(0, lim), rapid.SampledFrom([]uint64{0, 1, lim})).Draw(t, "uint")
		gv.SetUint(x)
		return gv, mk(Val{Kind: "int", Raw: raw(x)})
	case reflect.Float32:
		x := float32(rapid.IntRange(-4000, 4000).Draw(t, "f32")) / 8
		gv.SetFloat(float64(x))
		return gv, mk(Val{Kind: "float", Raw: json.RawMessage(strconv.FormatFloat(float64(x), 'f', -1, 32))})
	case reflect.Float64:
		x := rapid.OneOf(rapid.Float64Range(-1e6, 1e6), rapid.SampledFrom([]float64{0, 1, -1.5, 1e21, 1e-7, 123456789.125})).Draw(t, "f64")
		gv.SetFloat(x)
		f := strconv.FormatFloat(x, rapid.SampledFrom([]byte{'g', 'e', 'f'}).Draw(t, "ffmt"), -1, 64)
		if !strings.ContainsAny(f, ".eE") {
			// ints are legal for float fields too
			if x > -(1<<53) && x < (1<<53) && rapid.Bool().Draw(t, "asint") {
				return gv, mk(Val{Kind: "int", Raw: json.RawMessage(f)})
			}
			f += ".0"
		}
		return gv, mk(Val{Kind: "float", Raw: json.RawMessage(f)})
	case reflect.Bool:
		b := rapid.Bool().Draw(t, "bool")
		gv.SetBool(b)
		return gv, mk(Val{Kind: "bool", Raw: raw(b)})
	case reflect.String:
		s := rapid.OneOf(rapid.SampledFrom(strs), rapid.String()).Draw(t, "str")
		if !isValidUTF8(s) {
			s = "fallback"
		}
		gv.SetString(s)
		return gv, mk(Val{Kind: "string", Raw: raw(s)})
	case reflect.Ptr:
		ev, v := genFor(t, typ.Elem(), depth, allowVar, allowNull)
		p := reflect.New(typ.Elem())
		p.Elem().Set(ev)
		return p, v
	case reflect.Slice:
		n := rapid.IntRange(0, 3).Draw(t, "len")
		sl := reflect.MakeSlice(typ, 0, n)
		v := Val{Kind: "list"}
		for i := 0; i < n; i++ {
			if allowNull && typ.Elem().Kind() == reflect.Ptr && rapid.IntRange(0, 3).Draw(t, "nilelem") == 0 {
				// a null list entry can only travel inside a variable
				sl = reflect.Append(sl, reflect.Zero(typ.Elem()))
				varCounter++
				v.Items = append(v.Items, Val{Kind: "null", Var: "z" + strconv.Itoa(varCounter)})
				continue
			}
			ev, iv := genFor(t, typ.Elem(), depth+1, allowVar, allowNull)
			sl = reflect.Append(sl, ev)
			v.Items = append(v.Items, iv)
		}
		return sl, mk(v)
	case reflect.Struct:
		v := Val{Kind: "object"}
		for i := 0; i < typ.NumField(); i++ {
			sf := typ.Field(i)
			name := gqlName(sf)
			if sf.Type.Kind() == reflect.Ptr && rapid.IntRange(0, 2).Draw(t, "omitnested") == 0 {
				continue // stays nil
			}
			if isOptional(sf) && rapid.IntRange(0, 2).Draw(t, "omitoptional") == 0 && typ == treeType {
				continue // stays zero
			}
			if typ == treeType && depth >= 3 && (sf.Type == reflect.PtrTo(treeType) || sf.Type == reflect.SliceOf(reflect.PtrTo(treeType))) {
				// the self-reference ends here: no child, an empty list of children
				if sf.Type.Kind() == reflect.Slice {
					gv.Field(i).Set(reflect.MakeSlice(sf.Type, 0, 0))
					v.Keys = append(v.Keys, name)
					v.Items = append(v.Items, Val{Kind: "list"})
				}
				continue
			}
			ev, fv := genFor(t, sf.Type, depth+1, allowVar, allowNull)
			gv.Field(i).Set(ev)
			v.Keys = append(v.Keys, name)
			v.Items = append(v.Items, fv)
		}
		return gv, mk(v)
	}
	panic("genFor: " + typ.String())
}

func isValidUTF8(s string) bool {
	for _, r := range s {
		if r == 0xFFFD {
			return false
		}
	}
	return true
}

func gqlName(sf reflect.StructField) string {
	tag := strings.Split(sf.Tag.Get("graphql"), ",")[0]
	if tag != "" {
		return tag
	}
	return strings.ToLower(sf.Name[:1]) + sf.Name[1:]
}

func isOptional(sf reflect.StructField) bool {
	return sf.Type.Kind() == reflect.Ptr || strings.Contains(sf.Tag.Get("graphql"), "optional")
}

var structs = map[string]reflect.Type{"scalars": reflect.TypeOf(ArgScalars{}), "ptrs": reflect.TypeOf(ArgPtrs{}), "lists": reflect.TypeOf(ArgLists{}), "tree": reflect.TypeOf(ArgTree{}), "paged": reflect.TypeOf(ArgPaged{})}

var treeType = reflect.TypeOf(Tree{})

type built struct {
	c        Case
	expected reflect.Value
}

var varCounter int

func genCase(t *rapid.T, forceTransport string) built {
	varCounter = 0
	name := rapid.SampledFrom([]string{"scalars", "ptrs", "lists", "tree", "paged", "paged"}).Draw(t, "struct")
	typ := structs[name]
	exp := reflect.New(typ).Elem()
	c := Case{Struct: name}
	for i := 0; i < typ.NumField(); i++ {
		sf := typ.Field(i)
		transports := []string{"literal", "literal", "var", "var", "default-absent", "default-null", "default-override"}
		if isOptional(sf) {
			transports = append(transports, "omitted", "omitted")
		}
		tr := rapid.SampledFrom(transports).Draw(t, "transport")
		if forceTransport != "" && tr != "omitted" {
			tr = forceTransport
		}
		fc := FieldCase{Name: gqlName(sf), Transport: tr}
		if tr == "omitted" {
			c.Fields = append(c.Fields, fc)
			continue
		}
		// nested variables are only used when the value is written as a literal in the query
		gv, v := genFor(t, sf.Type, 0, tr == "literal", tr == "literal" || tr == "var")
		exp.Field(i).Set(gv)
		fc.Val = v
		if tr == "default-override" {
			_, alt := genFor(t, sf.Type, 0, false, false)
			fc.Alt = &alt
		}
		c.Fields = append(c.Fields, fc)
	}
	return built{c, exp}
}

// render produces query text and variables for a case.
func render(c Case) (string, map[string]interface{}) {
	vars := map[string]interface{}{}
	var defs, args []string
	for i, f := range c.Fields {
		vn := fmt.Sprintf("v%d", i)
		switch f.Transport {
		case "omitted":
		case "literal":
			args = append(args, f.Name+": "+f.Val.Literal(vars, &defs))
		case "var":
			vars[vn] = f.Val.JSON()
			defs = append(defs, "$"+vn+": T")
			args = append(args, f.Name+": $"+vn)
		case "default-absent", "default-null":
			var nd []string
			defs = append(defs, "$"+vn+": T = "+f.Val.Literal(map[string]interface{}{}, &nd))
			if f.Transport == "default-null" {
				vars[vn] = nil
			}
			args = append(args, f.Name+": $"+vn)
		case "default-override":
			var nd []string
			defs = append(defs, "$"+vn+": T = "+f.Alt.Literal(map[string]interface{}{}, &nd))
			vars[vn] = f.Val.JSON()
			args = append(args, f.Name+": $"+vn)
		}
	}
	q := "query Q"
	if len(defs) > 0 {
		q += "(" + strings.Join(defs, ", ") + ")"
	}
	q += " { " + c.Struct
	if c.Struct == "paged" && rapid_first(c) {
		args = append(args, "first: 1")
	}
	if len(args) > 0 {
		q += "(" + strings.Join(args, ", ") + ")"
	}
	if c.Struct == "paged" {
		q += " { totalCount }"
	}
	q += " }"
	// variables travel as JSON
	b, _ := json.Marshal(vars)
	var jv map[string]interface{}
	json.Unmarshal(b, &jv)
	if jv == nil {
		jv = map[string]interface{}{}
	}
	return q, jv
}

// rapid_first: whether the paged field also gets one of thunder's own pagination arguments
// (decided by the case, not drawn here: render must stay a pure function of the case)
func rapid_first(c Case) bool {
	return len(c.Fields)%2 == 0 || len(c.Fields) > 0 && c.Fields[0].Transport != "omitted"
}

func equalish(a, b reflect.Value) bool {
	if a.Type() != b.Type() {
		return false
	}
	if a.Type() == reflect.TypeOf(time.Time{}) {
		return a.Interface().(time.Time).Equal(b.Interface().(time.Time))
	}
	switch a.Kind() {
	case reflect.Ptr:
		if a.IsNil() || b.IsNil() {
			return a.IsNil() == b.IsNil()
		}
		return equalish(a.Elem(), b.Elem())
	case reflect.Slice:
		if a.Type().Elem().Kind() == reflect.Uint8 {
			return string(a.Bytes()) == string(b.Bytes())
		}
		if a.Len() != b.Len() {
			return false
		}
		for i := 0; i < a.Len(); i++ {
			if !equalish(a.Index(i), b.Index(i)) {
				return false
			}
		}
		return true
	case reflect.Struct:
		for i := 0; i < a.NumField(); i++ {
			if !equalish(a.Field(i), b.Field(i)) {
				return false
			}
		}
		return true
	}
	return reflect.DeepEqual(a.Interface(), b.Interface())
}

func execute(q string, vars map[string]interface{}) (calls []interface{}, stage string, err error) {
	defer func() {
		if r := recover(); r != nil {
			stage, err = "panic", fmt.Errorf("panic: %v", r)
		}
	}()
	sink.mu.Lock()
	sink.calls = nil
	sink.mu.Unlock()
	query, err := graphql.Parse(q, vars)
	if err != nil {
		return nil, "parse", err
	}
	if err := graphql.PrepareQuery(context.Background(), schema.Query, query.SelectionSet); err != nil {
		return nil, "prepare", err
	}
	_, err = graphql.NewExecutor(graphql.NewImmediateGoroutineScheduler()).Execute(context.Background(), schema.Query, nil, query)
	sink.mu.Lock()
	calls = sink.calls
	sink.mu.Unlock()
	if err != nil {
		return calls, "execute", err
	}
	return calls, "", nil
}

func checkPositive(b built) (string, error) {
	q, vars := render(b.c)
	calls, stage, err := execute(q, vars)
	if err != nil {
		return "rejected-" + stage, fmt.Errorf("valid arguments rejected at %s: %v\nquery: %s\nvars: %s", stage, err, q, mustJSON(vars))
	}
	if len(calls) != 1 {
		return "calls", fmt.Errorf("resolver ran %d times", len(calls))
	}
	got := reflect.ValueOf(calls[0])
	if !equalish(got, b.expected) {
		return "value-mismatch", fmt.Errorf("resolver received\n  %+v\nwant\n  %+v\nquery: %s\nvars: %s", describe(got), describe(b.expected), q, mustJSON(vars))
	}
	return "", nil
}

func describe(v reflect.Value) string { b, _ := json.Marshal(v.Interface()); return string(b) }
func mustJSON(v interface{}) string   { b, _ := json.Marshal(v); return string(b) }

// negative: mutate one field of a positive case so that it must be rejected.
func checkNegative(t *rapid.T, b built) (string, string, error) {
	typ := structs[b.c.Struct]
	c := b.c
	c.Fields = append([]FieldCase{}, b.c.Fields...)
	var required, any []int
	for i, f := range c.Fields {
		sf, _ := typ.FieldByNameFunc(func(n string) bool { f2, _ := typ.FieldByName(n); return gqlName(f2) == f.Name })
		if !isOptional(sf) {
			required = append(required, i)
		}
		if f.Transport != "omitted" {
			any = append(any, i)
		}
	}
	kind := rapid.SampledFrom([]string{"missing", "missing", "kind", "kind", "bare"}).Draw(t, "negkind")
	if kind == "bare" && len(required) > 0 {
		// the field selected without any argument at all
		for i := range c.Fields {
			c.Fields[i].Transport = "omitted"
		}
		c.Neg = "missing:all:bare"
		q, vars := render(c)
		return c.Neg, "", expectRejected(q, vars)
	}
	if kind == "missing" && len(required) > 0 {
		i := required[rapid.IntRange(0, len(required)-1).Draw(t, "negfield")]
		mode := rapid.SampledFrom([]string{"omitted", "null-var", "absent-var"}).Draw(t, "missmode")
		c.Neg = "missing:" + c.Fields[i].Name + ":" + mode
		switch mode {
		case "omitted":
			c.Fields[i].Transport = "omitted"
		default:
			c.Fields[i].Transport = "var"
			c.Fields[i].Val = Val{Kind: "null"}
		}
		q, vars := render(c)
		if mode == "absent-var" {
			delete(vars, fmt.Sprintf("v%d", i))
		}
		return c.Neg, "", expectRejected(q, vars)
	}
	if len(any) == 0 {
		return "", "", nil
	}
	i := any[rapid.IntRange(0, len(any)-1).Draw(t, "negfield")]
	f := c.Fields[i]
	var wrong interface{}
	switch f.Val.Kind {
	case "int", "float":
		wrong = rapid.SampledFrom([]interface{}{"12", true, []interface{}{1.0}, map[string]interface{}{"a": 1.0}, "", false}).Draw(t, "wrong")
	case "string", "enum":
		wrong = rapid.SampledFrom([]interface{}{12.0, true, []interface{}{"x"}, map[string]interface{}{"a": "x"}, 0.0, false}).Draw(t, "wrong")
	case "bool":
		wrong = rapid.SampledFrom([]interface{}{"true", 1.0, []interface{}{true}, "", 0.0}).Draw(t, "wrong")
	case "list":
		wrong = rapid.SampledFrom([]interface{}{map[string]interface{}{"a": 1.0}, "x", 3.0, true, "", 0.0, false}).Draw(t, "wrong")
	case "object":
		wrong = rapid.SampledFrom([]interface{}{[]interface{}{1.0}, "x", 3.0, true, "", 0.0, false}).Draw(t, "wrong")
	default:
		return "", "", nil
	}
	c.Neg = "kind:" + f.Name
	c.Fields[i].Transport = "var"
	q, vars := render(c)
	vars[fmt.Sprintf("v%d", i)] = wrong
	return c.Neg, mustJSON(wrong), expectRejected(q, vars)
}

func expectRejected(q string, vars map[string]interface{}) error {
	calls, stage, err := execute(q, vars)
	if err == nil {
		return fmt.Errorf("invalid arguments accepted (resolver ran %d times)\nquery: %s\nvars: %s", len(calls), q, mustJSON(vars))
	}
	if stage == "panic" {
		return fmt.Errorf("%v\nquery: %s\nvars: %s", err, q, mustJSON(vars))
	}
	if len(calls) != 0 {
		return fmt.Errorf("a resolver ran although arguments were rejected: %v", err)
	}
	if stage == "execute" {
		return fmt.Errorf("invalid arguments were rejected only during execution: %v\nquery: %s\nvars: %s", err, q, mustJSON(vars))
	}
	if _, ok := err.(graphql.SanitizedError); !ok {
		return fmt.Errorf("rejection is not a client error: %T %v", err, err)
	}
	return nil
}

func stats(c Case) (nt bool, labels []string) {
	tr := map[string]bool{}
	for _, f := range c.Fields {
		tr[f.Transport] = true
	}
	nested := c.Struct != "scalars"
	for k := range tr {
		labels = append(labels, "t:"+k)
	}
	labels = append(labels, "struct:"+c.Struct)
	sort.Strings(labels)
	return nested && len(tr) >= 2, labels
}

func TestArgs(t *testing.T) { rapid.Check(t, propArgs) }

func propArgs(t *rapid.T) {
	{
		b := genCase(t, "")
		if sig, err := checkPositive(b); err != nil {
			p := rec.Violate("TestArgs", b.c, sig+": "+err.Error())
			t.Fatalf("%s: %v (replay %s)", sig, err, p)
		}
		// the same values, all by literal and all by variable, must arrive identically
		for _, forced := range []string{"literal", "var"} {
			c2 := b.c
			c2.Fields = append([]FieldCase{}, b.c.Fields...)
			for i := range c2.Fields {
				if c2.Fields[i].Transport != "omitted" {
					c2.Fields[i].Transport = forced
				}
			}
			if sig, err := checkPositive(built{c2, b.expected}); err != nil {
				p := rec.Violate("TestArgs", c2, sig+"("+forced+"): "+err.Error())
				t.Fatalf("%s (%s only): %v (replay %s)", sig, forced, err, p)
			}
		}
		nt, labels := stats(b.c)
		cb, _ := json.Marshal(b.c)
		rec.Case(string(cb), nt, labels...)
		if nt {
			q, vars := render(b.c)
			rec.Sample(b.c.Struct, map[string]interface{}{"query": q, "vars": vars})
		}
	}
}

func TestArgsNegative(t *testing.T) { rapid.Check(t, propArgsNegative) }

func propArgsNegative(t *rapid.T) {
	{
		b := genCase(t, "")
		neg, wrong, err := checkNegative(t, b)
		if err != nil {
			p := rec.Violate("TestArgsNegative", map[string]interface{}{"case": b.c, "neg": neg, "wrong": wrong}, err.Error())
			t.Fatalf("%s: %v (replay %s)", neg, err, p)
		}
		if neg == "" {
			return
		}
		cb, _ := json.Marshal(b.c)
		parts := strings.Split(neg, ":")
		rec.Case(string(cb)+neg+wrong, b.c.Struct != "scalars", "neg:"+parts[0])
	}
}

func TestReplay(t *testing.T) {
	p := os.Getenv("VERIF_REPLAY")
	if p == "" {
		t.Skip("no VERIF_REPLAY")
	}
	t.Skip("C18 replays are re-run by seed (expected Go values are not serialised); see the message in the replay file")
}
