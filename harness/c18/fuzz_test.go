package c18

import (
	"testing"

	"pgregory.net/rapid"
)

// Coverage-guided legs (thorough tier): the fuzzing engine mutates the byte stream the rapid
// generators draw from, so the same properties are searched with coverage feedback from
// thunder's parser and argument parsers.
func FuzzArgs(f *testing.F)         { f.Fuzz(rapid.MakeFuzz(propArgs)) }
func FuzzArgsNegative(f *testing.F) { f.Fuzz(rapid.MakeFuzz(propArgsNegative)) }
