package c07

import (
	"context"
	"database/sql"
	"fmt"
	"io"
	"log"
	"os"
	"reflect"
	"sort"
	"strings"
	"sync"
	"sync/atomic"
	"testing"
	"time"

	"github.com/samsarahq/thunder/batch"
	"github.com/samsarahq/thunder/livesql"
	"github.com/samsarahq/thunder/reactive"
	"github.com/samsarahq/thunder/sqlgen"
	"pgregory.net/rapid"

	"verifharness/ev"
	"verifharness/fakebinlog"
	"verifharness/fakesql"
	sw "verifharness/sqlworld"
)

var rec = ev.New("C07",
	"histories of 6-30 actions over a LiveDB on the model database with the real Binlog.RunPollLoop fed in process: start live query (Query / FullScanQuery / QueryRow / hand-declared AddDependency with 0-3 filter columns in several Go representations, NULLs, pointer and tagged columns; nil, empty or ORDER BY+LIMIT options; optionally a second query of the same shape in the same computation), insert/update/delete/upsert through sqlgen, deliver n queued change events (delivery lags commits arbitrarily), a write executed inside a live query's SELECT, ALTER TABLE ADD COLUMN (older row images then have a stale column count), a corrupted row image (type mismatch), stop query; at the end everything is delivered and each live query must hold exactly the rows a fresh query returns; non-trivial = a committed write changed the result of a live query registered before the write was delivered; distinct = hash of the history",
	"the model database defines 'the rows the database returns'", "all queued events are eventually delivered", "times are whole seconds (the vendored binlog decoder drops DATETIME fractions)")

var schema = sw.NewSchema()

func TestMain(m *testing.M) {
	log.SetOutput(io.Discard)
	reactive.WriteThenReadDelay = 0
	code := m.Run()
	rec.Flush()
	os.Exit(code)
}

type nopLogger struct{}

func (nopLogger) Debug(string, ...interface{}) {}
func (nopLogger) Info(string, ...interface{})  {}
func (nopLogger) Warn(string, ...interface{})  {}
func (nopLogger) Error(string, ...interface{}) {}

type action struct {
	Kind    string `json:"kind"` // live write deliver alter corrupt stop writeInSelect
	Descr   string `json:"descr"`
	filter  sqlgen.Filter
	filter2 sqlgen.Filter // a second live query of the same shape made by the same computation
	entry   string        // Query (""), FullScanQuery, QueryRow, AddDependency (by hand + plain read)
	optKind int           // 0 nil options, 1 empty options, 2 ORDER BY primary key LIMIT 2
	batched bool
	wkind   string // insert update delete upsert
	row     interface{}
	n       int
	idx     int
}

type liveQuery struct {
	filter          sqlgen.Filter
	filter2         sqlgen.Filter
	rows2           []string
	entry           string
	optKind         int
	descr           string
	rr              *reactive.Rerunner
	mu              sync.Mutex
	rows            []string
	runs            int
	err             error
	stopped         bool
	startedAtCommit int // number of commits when registered
}

var filterCols = map[string][]string{
	"row_a": {"id", "shard", "i8", "u8", "u16", "b", "s", "n", "by", "t", "MixedCol"},
	"row_b": {"id", "shard", "p_i", "p_i32", "p_u16", "p_b", "p_s", "p_t"},
	"row_c": {"key", "shard", "tx", "p_tx", "bin", "i_n_s", "ini", "sc", "p_sc", "bin_o"},
}

// two adjacent text columns per table (for the twin live queries)
var twinCols = map[string][2]string{"row_a": {"n", "s"}, "row_b": {"p_n", "p_s"}, "row_c": {"key", "shard"}}

// querier is what *sqlgen.DB and *livesql.LiveDB have in common.
type querier interface {
	Query(ctx context.Context, result interface{}, filter sqlgen.Filter, options *sqlgen.SelectOptions) error
	FullScanQuery(ctx context.Context, result interface{}, filter sqlgen.Filter, options *sqlgen.SelectOptions) error
	QueryRow(ctx context.Context, result interface{}, filter sqlgen.Filter, options *sqlgen.SelectOptions) error
}

// runQ asks q through the chosen entry point; QueryRow's "none" / "more than one" outcomes are
// results, not failures.
func runQ(ctx context.Context, q querier, table string, entry string, optKind int, f sqlgen.Filter) ([]string, error) {
	typ := sw.Types[table]
	var opts *sqlgen.SelectOptions
	switch optKind {
	case 1:
		opts = &sqlgen.SelectOptions{}
	case 2:
		opts = &sqlgen.SelectOptions{OrderBy: map[string]string{"row_a": "id", "row_b": "id", "row_c": "key"}[table], Limit: 2}
	}
	if entry == "QueryRow" {
		res := reflect.New(reflect.PtrTo(typ))
		err := q.QueryRow(ctx, res.Interface(), f, opts)
		switch {
		case err == nil:
			one := reflect.MakeSlice(reflect.SliceOf(reflect.PtrTo(typ)), 0, 1)
			return describeRows(reflect.Append(one, res.Elem())), nil
		case err == sql.ErrNoRows:
			return []string{"<no rows>"}, nil
		case strings.Contains(err.Error(), "expected no more than 1 result"):
			return []string{"<more than one row>"}, nil
		}
		return nil, err
	}
	res := reflect.New(reflect.SliceOf(reflect.PtrTo(typ)))
	var err error
	if entry == "AddDependency" {
		// the dependency is declared by hand and the rows are read without the live layer
		if ldb, ok := q.(*livesql.LiveDB); ok {
			if err := ldb.AddDependency(ctx, livesql.QueryDependency{Table: table, Filter: f}); err != nil {
				return nil, err
			}
			q = ldb.DB
		}
		err = q.Query(ctx, res.Interface(), f, opts)
	} else if entry == "FullScanQuery" {
		err = q.FullScanQuery(ctx, res.Interface(), f, opts)
	} else {
		err = q.Query(ctx, res.Interface(), f, opts)
	}
	if err != nil {
		return nil, err
	}
	return describeRows(res.Elem()), nil
}

func variant(t *rapid.T, v reflect.Value) interface{} {
	if v.Kind() == reflect.Ptr {
		if v.IsNil() {
			if rapid.Bool().Draw(t, "typednil") {
				return v.Interface()
			}
			return nil
		}
		if rapid.Bool().Draw(t, "deref") {
			return v.Elem().Interface()
		}
		return v.Interface()
	}
	switch v.Kind() {
	case reflect.Int8, reflect.Int16, reflect.Int32, reflect.Int64:
		if rapid.Bool().Draw(t, "asint") {
			return int(v.Int())
		}
	case reflect.Uint8, reflect.Uint16:
		if rapid.Bool().Draw(t, "asint64") {
			return int64(v.Uint())
		}
	}
	return v.Interface()
}

type world struct {
	table   string
	seed    []interface{}
	actions []action
	// multiRow: consecutive queued changes of one kind are delivered as one rows event
	multiRow bool
}

var multiRowEvents int32

func gen(t *rapid.T) world {
	w := world{table: rapid.SampledFrom(sw.Tables).Draw(t, "table"), multiRow: rapid.Bool().Draw(t, "multirow")}
	nseed := rapid.IntRange(0, 6).Draw(t, "nseed")
	ids := nseed
	for i := 0; i < nseed; i++ {
		w.seed = append(w.seed, sw.TruncSeconds(sw.GenRow(t, w.table, i+1)))
	}
	tbl := schema.ByName[w.table]
	n := rapid.IntRange(6, 30).Draw(t, "nactions")
	for i := 0; i < n; i++ {
		kinds := []string{"live", "live", "write", "write", "write", "write", "deliver", "deliver", "deliver", "writeInSelect", "writeAfterSelect", "alter", "corrupt", "corrupt", "stop", "badconn"}
		a := action{Kind: rapid.SampledFrom(kinds).Draw(t, "kind")}
		if i == 0 {
			a.Kind = "live"
		}
		if i > 0 && w.actions[len(w.actions)-1].Kind == "corrupt" && rapid.IntRange(0, 2).Draw(t, "writenext") > 0 {
			a.Kind = "write" // the event that cannot be decoded is a write, more often than not
		}
		switch a.Kind {
		case "live":
			k := rapid.IntRange(0, 3).Draw(t, "ncols")
			cols := rapid.SliceOfNDistinct(rapid.SampledFrom(filterCols[w.table]), k, k, rapid.ID[string]).Draw(t, "cols")
			src := reflect.ValueOf(sw.TruncSeconds(sw.GenRow(t, w.table, rapid.IntRange(1, 8).Draw(t, "srcid")))).Elem()
			if len(w.seed) > 0 && rapid.Bool().Draw(t, "fromseed") {
				src = reflect.ValueOf(w.seed[rapid.IntRange(0, len(w.seed)-1).Draw(t, "seedrow")]).Elem()
			}
			a.filter = sqlgen.Filter{}
			var parts []string
			for _, c := range cols {
				val := variant(t, src.FieldByIndex(tbl.ColumnsByName[c].Index))
				a.filter[c] = val
				parts = append(parts, fmt.Sprintf("%s=%T(%v)", c, val, deref(val)))
			}
			sort.Strings(parts)
			a.batched = rapid.Bool().Draw(t, "batched")
			a.entry = rapid.SampledFrom([]string{"", "", "", "", "FullScanQuery", "QueryRow", "AddDependency"}).Draw(t, "entry")
			a.optKind = rapid.SampledFrom([]int{0, 0, 0, 1, 2}).Draw(t, "optkind")
			a.Descr = "live{" + strings.Join(parts, ",") + "}"
			if a.entry != "" || a.optKind != 0 {
				a.Descr = fmt.Sprintf("%s[opts%d]%s", a.entry, a.optKind, a.Descr)
			}
			if len(cols) > 0 && rapid.IntRange(0, 2).Draw(t, "second") == 0 {
				// the same computation asks a second question of the same shape (same columns,
				// other values)
				src2 := reflect.ValueOf(sw.TruncSeconds(sw.GenRow(t, w.table, rapid.IntRange(1, 8).Draw(t, "srcid2")))).Elem()
				a.filter2 = sqlgen.Filter{}
				var parts2 []string
				for _, c := range cols {
					val := variant(t, src2.FieldByIndex(tbl.ColumnsByName[c].Index))
					a.filter2[c] = val
					parts2 = append(parts2, fmt.Sprintf("%s=%T(%v)", c, val, deref(val)))
				}
				sort.Strings(parts2)
				a.Descr += "+live{" + strings.Join(parts2, ",") + "}"
			} else if pair := twinCols[w.table]; rapid.IntRange(0, 5).Draw(t, "twin") == 0 {
				// two questions over the same two text columns whose values are different
				// splits of one string: ("a","b") and ("ab","")
				x := rapid.SampledFrom([]string{"a", "b", "ab", "ab"}).Draw(t, "twinx")
				i := rapid.IntRange(0, len(x)).Draw(t, "spliti")
				j := rapid.IntRange(0, len(x)-1).Draw(t, "splitj")
				if j >= i {
					j++
				}
				mk := func(k int) sqlgen.Filter {
					f := sqlgen.Filter{}
					for n, c := range pair {
						str := x[:k]
						if n == 1 {
							str = x[k:]
						}
						ft := tbl.Type.FieldByIndex(tbl.ColumnsByName[c].Index).Type
						v := reflect.New(ft).Elem()
						if ft.Kind() == reflect.Ptr {
							v.Set(reflect.New(ft.Elem()))
							v.Elem().SetString(str)
						} else {
							v.SetString(str)
						}
						f[c] = v.Interface()
					}
					return f
				}
				a.filter, a.filter2 = mk(i), mk(j)
				a.Descr = fmt.Sprintf("live{%s=%q,%s=%q}+live{%s=%q,%s=%q}", pair[0], x[:i], pair[1], x[i:], pair[0], x[:j], pair[1], x[j:])
			}
		case "write", "writeInSelect", "writeAfterSelect":
			a.wkind = rapid.SampledFrom([]string{"insert", "update", "update", "delete", "upsert"}).Draw(t, "wkind")
			if w.table == "row_a" && a.wkind == "upsert" {
				a.wkind = "update"
			}
			id := rapid.IntRange(1, 8).Draw(t, "id")
			if a.wkind == "insert" {
				ids++
				id = 20 + ids
			}
			a.row = sw.TruncSeconds(sw.GenRow(t, w.table, id))
			// make rows resemble each other so that filters match several rows
			a.Descr = a.Kind + ":" + a.wkind + " " + sw.Describe(a.row)
		case "deliver":
			a.n = rapid.IntRange(1, 4).Draw(t, "n")
			a.Descr = fmt.Sprintf("deliver %d", a.n)
		case "stop":
			a.idx = rapid.IntRange(0, 5).Draw(t, "which")
			a.Descr = fmt.Sprintf("stop %d", a.idx)
		case "corrupt":
			// 0: a value of the wrong type; p > 0: one value too many, shifted from position p on
			a.n = rapid.SampledFrom([]int{0, 0, 1, 2, 3, 5, 8}).Draw(t, "corruptkind")
			a.Descr = fmt.Sprintf("corrupt %d", a.n)
		default:
			a.Descr = a.Kind
		}
		w.actions = append(w.actions, a)
	}
	return w
}

func deref(v interface{}) interface{} {
	rv := reflect.ValueOf(v)
	if rv.IsValid() && rv.Kind() == reflect.Ptr && !rv.IsNil() {
		return rv.Elem().Interface()
	}
	return v
}

func describeRows(res reflect.Value) []string {
	var out []string
	for i := 0; i < res.Len(); i++ {
		out = append(out, sw.Describe(res.Index(i).Interface()))
	}
	sort.Strings(out)
	return out
}

func check(w world) (nt bool, labels []string, sig string, err error) {
	eng := fakesql.NewFromSchema(schema)
	conn := eng.Open()
	defer conn.Close()
	db := sqlgen.NewDB(conn, schema)
	ldb := livesql.NewLiveDB(db)
	bl := livesql.NewVerifBinlog(ldb, "testdb")
	bl.SetLogger(nopLogger{})
	loopDone := make(chan error, 1)
	go func() { loopDone <- bl.RunPollLoop() }()
	defer func() { bl.Stop(); <-loopDone }()
	ctx := context.Background()
	def := eng.Def(w.table)

	var queue []fakebinlog.Queued
	tableID := uint64(100)
	commits := 0
	pendingCorrupt := ""
	var qmu sync.Mutex
	enqueue := func() {
		for _, c := range eng.TakeChanges() {
			q := fakebinlog.Queued{Change: c, NCols: eng.NCols(w.table), TableID: tableID}
			if pendingCorrupt != "" {
				q.Corrupt = pendingCorrupt
				pendingCorrupt = ""
			}
			queue = append(queue, q)
			commits++
		}
	}
	doWrite := func(a action) error {
		var e error
		switch a.wkind {
		case "insert":
			if w.table == "row_a" {
				_, e = db.InsertRow(ctx, a.row)
			} else {
				_, e = db.UpsertRow(ctx, a.row)
			}
		case "upsert":
			_, e = db.UpsertRow(ctx, a.row)
		case "update":
			e = db.UpdateRow(ctx, a.row)
		case "delete":
			e = db.DeleteRow(ctx, a.row)
		}
		qmu.Lock()
		enqueue()
		qmu.Unlock()
		return e
	}
	deliver := func(n int) error {
		qmu.Lock()
		defer qmu.Unlock()
		for i := 0; i < n && len(queue) > 0; i++ {
			// several consecutive changes of one kind may travel as one multi-row event
			k := 1
			if w.multiRow {
				for k < len(queue) && k < 4 && fakebinlog.SameEvent(queue[0], queue[k]) {
					k++
				}
			}
			evs, err := fakebinlog.EventsMulti("testdb", def, queue[:k])
			if err != nil {
				return fmt.Errorf("harness: %v", err)
			}
			if k > 1 {
				atomic.AddInt32(&multiRowEvents, 1)
			}
			queue = queue[k:]
			for _, e := range evs {
				bl.Inject(e)
			}
		}
		return nil
	}
	for _, r := range w.seed {
		if e := doWrite(action{wkind: "insert", row: r}); e != nil {
			return false, nil, "harness-seed", fmt.Errorf("harness: seed: %v", e)
		}
	}
	if e := deliver(1 << 20); e != nil {
		return false, nil, "harness", e
	}

	var lives []*liveQuery
	var inSelect *action
	var inSelMu sync.Mutex
	beforeSelect := func() {
		inSelMu.Lock()
		a := inSelect
		inSelect = nil
		inSelMu.Unlock()
		if a != nil {
			doWrite(*a)
			deliver(1 << 20)
		}
	}
	var afterSelect *action
	afterSelectHook := func() {
		inSelMu.Lock()
		a := afterSelect
		afterSelect = nil
		inSelMu.Unlock()
		if a != nil {
			doWrite(*a)
			deliver(1 << 20)
			time.Sleep(time.Millisecond) // let RunPollLoop process it while the query is still returning
		}
	}
	eng.SetSelectHooks(beforeSelect, afterSelectHook)
	startLive := func(a action) {
		qmu.Lock()
		startCommits := commits
		qmu.Unlock()
		lq := &liveQuery{filter: a.filter, filter2: a.filter2, entry: a.entry, optKind: a.optKind, descr: a.Descr, startedAtCommit: startCommits}
		lq.rr = reactive.NewRerunner(ctx, func(ctx context.Context) (interface{}, error) {
			if a.batched {
				ctx = batch.WithBatching(ctx)
			}
			rows, err := runQ(ctx, ldb, w.table, lq.entry, lq.optKind, lq.filter)
			lq.mu.Lock()
			defer lq.mu.Unlock()
			lq.runs++
			if err != nil {
				lq.err = err
				return nil, err
			}
			var rows2 []string
			if lq.filter2 != nil {
				if rows2, err = runQ(ctx, ldb, w.table, lq.entry, lq.optKind, lq.filter2); err != nil {
					lq.err = err
					return nil, err
				}
			}
			lq.rows, lq.rows2 = rows, rows2
			return nil, nil
		}, 0, false)
		lives = append(lives, lq)
	}
	freshAs := func(lq *liveQuery, f sqlgen.Filter) ([]string, error) {
		return runQ(ctx, db, w.table, lq.entry, lq.optKind, f)
	}
	// Stop waits for a run in flight (milliseconds here). A rerunner that is wedged never lets
	// Stop return: the clean-up must not wedge with it.
	stopWithin := func(lq *liveQuery, d time.Duration) bool {
		done := make(chan struct{})
		go func() { lq.rr.Stop(); close(done) }()
		select {
		case <-done:
			return true
		case <-time.After(d):
			return false
		}
	}
	defer func() {
		for _, lq := range lives {
			stopWithin(lq, 200*time.Millisecond)
		}
	}()

	changedLive, undecodable, altered, writeInSel := false, false, false, false
	snapshot := func() map[*liveQuery]string {
		m := map[*liveQuery]string{}
		for _, lq := range lives {
			if !lq.stopped {
				r, _ := freshAs(lq, lq.filter)
				m[lq] = strings.Join(r, "|")
			}
		}
		return m
	}
	for _, a := range w.actions {
		a := a
		switch a.Kind {
		case "live":
			startLive(a)
			time.Sleep(300 * time.Microsecond)
		case "write":
			before := snapshot()
			if e := doWrite(a); e != nil && strings.Contains(e.Error(), "harness:") {
				return false, nil, "harness", e
			}
			after := snapshot()
			for lq, b := range before {
				if after[lq] != b {
					changedLive = true
				}
			}
		case "writeInSelect":
			inSelMu.Lock()
			inSelect = &a
			inSelMu.Unlock()
			writeInSel = true
			// it fires inside the next SELECT (a rerun or a new live query)
		case "writeAfterSelect":
			inSelMu.Lock()
			afterSelect = &a
			inSelMu.Unlock()
			writeInSel = true
		case "deliver":
			if e := deliver(a.n); e != nil {
				return false, nil, "harness", e
			}
			time.Sleep(200 * time.Microsecond)
		case "badconn":
			// the next read of the table's column list (done for the first change event of a
			// table and after its table id changed) fails on every connection database/sql
			// tries: that event cannot be decoded
			eng.FailColumns(3)
			undecodable = true
		case "alter":
			eng.AddColumn(w.table)
			qmu.Lock()
			tableID++
			queued := len(queue)
			qmu.Unlock()
			altered = true
			if queued > 0 {
				undecodable = true
			}
		case "corrupt":
			qmu.Lock()
			pendingCorrupt = "type"
			if a.n > 0 {
				pendingCorrupt = fmt.Sprintf("wide:%d", a.n)
			}
			qmu.Unlock()
			undecodable = true
		case "stop":
			if len(lives) > 0 {
				lq := lives[a.idx%len(lives)]
				if !stopWithin(lq, ev.Patience(10*time.Second)) {
					return false, nil, "wedged", fmt.Errorf("live query %d %s: Stop of its rerunner does not return within 10s (no run takes more than milliseconds): the rerunner is wedged and the query will never run again", a.idx%len(lives), lq.descr)
				}
				lq.stopped = true
			}
		}
	}
	// a pending in-select write that never fired is executed now
	inSelMu.Lock()
	a := inSelect
	inSelect = nil
	inSelMu.Unlock()
	if a != nil {
		doWrite(*a)
	}
	inSelMu.Lock()
	a = afterSelect
	afterSelect = nil
	inSelMu.Unlock()
	if a != nil {
		doWrite(*a)
	}
	if e := deliver(1 << 20); e != nil {
		return false, nil, "harness", e
	}
	// quiescence: poll until every live query holds what a fresh query returns
	deadline := time.Now().Add(5 * time.Second)
	var lastErr error
	for {
		lastErr = nil
		for i, lq := range lives {
			if lq.stopped {
				continue
			}
			want, err := freshAs(lq, lq.filter)
			if err != nil {
				return false, nil, "harness", fmt.Errorf("harness: fresh query failed: %v", err)
			}
			lq.mu.Lock()
			got, got2, qerr, runs := lq.rows, lq.rows2, lq.err, lq.runs
			lq.mu.Unlock()
			if qerr != nil {
				if strings.Contains(qerr.Error(), "harness:") {
					return false, nil, "harness", qerr
				}
				return false, nil, "live-query-error", fmt.Errorf("live query %d %s failed: %v", i, lq.descr, qerr)
			}
			if strings.Join(got, "|") != strings.Join(want, "|") {
				lastErr = fmt.Errorf("live query %d %s (ran %d times) holds\n  %v\nbut the database now returns\n  %v", i, lq.descr, runs, got, want)
			}
			if lq.filter2 != nil && qerr == nil {
				want2, err := freshAs(lq, lq.filter2)
				if err != nil {
					return false, nil, "harness", fmt.Errorf("harness: fresh query failed: %v", err)
				}
				if strings.Join(got2, "|") != strings.Join(want2, "|") {
					lastErr = fmt.Errorf("second query of live computation %d %s (ran %d times) holds\n  %v\nbut the database now returns\n  %v", i, lq.descr, runs, got2, want2)
				}
			}
		}
		if lastErr == nil || time.Now().After(deadline) {
			break
		}
		time.Sleep(time.Millisecond)
	}
	if hs := eng.HarnessErrs(); len(hs) > 0 {
		return false, nil, "harness", fmt.Errorf("harness: %v", hs[0])
	}
	if lastErr != nil {
		sig := "stale"
		if undecodable {
			sig = "stale-after-undecodable"
		}
		return false, nil, sig, fmt.Errorf("%v\n(undecodable event in history: %v, alter: %v)", lastErr, undecodable, altered)
	}
	// release: after stopping everything no dependency stays registered
	for i, lq := range lives {
		if !stopWithin(lq, ev.Patience(10*time.Second)) {
			return false, nil, "wedged", fmt.Errorf("live query %d %s: Stop of its rerunner does not return within 10s: the rerunner is wedged", i, lq.descr)
		}
	}
	ok := false
	for i := 0; i < 3000; i++ {
		if livesql.VerifTrackedResources(ldb) == 0 {
			ok = true
			break
		}
		time.Sleep(time.Millisecond)
	}
	if !ok {
		return false, nil, "leak", fmt.Errorf("%d live-query dependencies are still registered 3s after all queries were stopped", livesql.VerifTrackedResources(ldb))
	}
	for k, v := range map[string]bool{"write-changed-live": changedLive, "undecodable": undecodable, "alter": altered, "write-in-select": writeInSel, "table:" + w.table: true} {
		if v {
			labels = append(labels, k)
		}
	}
	sort.Strings(labels)
	return changedLive, labels, "", nil
}

func TestLiveSQL(t *testing.T) {
	rapid.Check(t, func(t *rapid.T) {
		w := gen(t)
		nt, labels, sig, err := check(w)
		var acts []string
		for _, a := range w.actions {
			acts = append(acts, a.Descr)
		}
		var seed []string
		for _, r := range w.seed {
			seed = append(seed, sw.Describe(r))
		}
		cs := map[string]interface{}{"table": w.table, "seed": seed, "actions": acts}
		if err != nil {
			p := rec.Violate("TestLiveSQL", cs, sig+": "+err.Error())
			t.Fatalf("%s: %v (replay %s)", sig, err, p)
		}
		rec.Case(fmt.Sprint(cs), nt, labels...)
		if nt {
			rec.Sample(strings.Join(labels, "+"), cs)
		}
	})
}

func TestReplay(t *testing.T) {
	if os.Getenv("VERIF_REPLAY") == "" {
		t.Skip("no VERIF_REPLAY")
	}
	t.Skip("C07 replays are re-run by seed (rows and filters hold typed Go values); the replay file lists the history")
}
