// Package introm decodes an introspection result into a type model and generates
// well-formed queries from that model alone.
package introm

import (
	"encoding/json"
	"fmt"
	"strings"

	"pgregory.net/rapid"
)

// ---------- advertised type model ----------

type TypeRef struct {
	Kind   string   `json:"kind"`
	Name   string   `json:"name"`
	OfType *TypeRef `json:"ofType"`
}

type InputValue struct {
	Name string  `json:"name"`
	Type TypeRef `json:"type"`
}

type FieldDef struct {
	Name string       `json:"name"`
	Args []InputValue `json:"args"`
	Type TypeRef      `json:"type"`
}

type TypeDef struct {
	Kind          string                  `json:"kind"`
	Name          string                  `json:"name"`
	Fields        []FieldDef              `json:"fields"`
	InputFields   []InputValue            `json:"inputFields"`
	EnumValues    []struct{ Name string } `json:"enumValues"`
	PossibleTypes []TypeRef               `json:"possibleTypes"`
}

type Model struct {
	Types map[string]*TypeDef
	Query string
}

// FromJSON decodes the JSON result of the standard introspection query.
func FromJSON(b []byte) (*Model, error) {
	var doc struct {
		Schema struct {
			QueryType struct{ Name string } `json:"queryType"`
			Types     []*TypeDef            `json:"types"`
		} `json:"__schema"`
	}
	if err := json.Unmarshal(b, &doc); err != nil {
		return nil, err
	}
	m := &Model{Types: map[string]*TypeDef{}, Query: doc.Schema.QueryType.Name}
	for _, t := range doc.Schema.Types {
		m.Types[t.Name] = t
	}
	if m.Query == "" {
		m.Query = "Query"
	}
	return m, nil
}

func (r TypeRef) named() TypeRef {
	for r.OfType != nil {
		r = *r.OfType
	}
	return r
}

// ---------- query generation from the advertised model ----------

type Node struct {
	Kind             string  `json:"kind"` // field inline
	Name             string  `json:"name,omitempty"`
	Key              string  `json:"key,omitempty"`
	Args             string  `json:"args,omitempty"`
	On               string  `json:"on,omitempty"`
	Sub              []*Node `json:"sub,omitempty"`
	HasSub           bool    `json:"has_sub,omitempty"`
	fd               *FieldDef
	underUnionOrList bool
}

func (m *Model) literal(t *rapid.T, r TypeRef, depth int) string {
	switch r.Kind {
	case "NON_NULL":
		return m.literal(t, *r.OfType, depth)
	case "LIST":
		if rapid.Bool().Draw(t, "emptylist") {
			return "[]"
		}
		return "[" + m.literal(t, *r.OfType, depth) + "]"
	case "ENUM":
		vs := m.Types[r.Name].EnumValues
		return vs[rapid.IntRange(0, len(vs)-1).Draw(t, "enumv")].Name
	case "INPUT_OBJECT":
		var parts []string
		for _, f := range m.Types[r.Name].InputFields {
			if f.Type.Kind == "NON_NULL" || rapid.Bool().Draw(t, "optin") {
				parts = append(parts, f.Name+": "+m.literal(t, f.Type, depth+1))
			}
		}
		return "{" + strings.Join(parts, ", ") + "}"
	}
	switch r.Name {
	case "bool":
		return "true"
	case "string":
		return rapid.SampledFrom([]string{`"p"`, `""`, `"q"`}).Draw(t, "strlit")
	case "float32", "float64":
		return "1.5"
	case "Time":
		return `"2020-01-01T00:00:00Z"`
	case "bytes":
		return `"YQ=="`
	}
	return fmt.Sprint(rapid.IntRange(0, 3).Draw(t, "intlit"))
}

var KeyCounter int

func (m *Model) GenSel(t *rapid.T, typeName string, depth int, under bool) []*Node {
	td := m.Types[typeName]
	var out []*Node
	seen := map[string]bool{}
	switch td.Kind {
	case "UNION":
		if rapid.Bool().Draw(t, "utypename") {
			out = append(out, &Node{Kind: "field", Name: "__typename", Key: "__typename"})
		}
		for _, pt := range td.PossibleTypes {
			if rapid.IntRange(0, 4).Draw(t, "cover") > 0 {
				out = append(out, &Node{Kind: "inline", On: pt.Name, Sub: m.GenSel(t, pt.Name, depth-1, true), underUnionOrList: true})
			}
		}
		if len(out) == 0 {
			out = append(out, &Node{Kind: "field", Name: "__typename", Key: "__typename"})
		}
		return out
	case "OBJECT":
		var fields []FieldDef
		for _, f := range td.Fields {
			if strings.HasPrefix(f.Name, "__") || f.Name == "_federation" {
				continue
			}
			fields = append(fields, f)
		}
		n := rapid.IntRange(1, 5).Draw(t, "nsel")
		for i := 0; i < n; i++ {
			switch rapid.IntRange(0, 9).Draw(t, "kind") {
			case 0:
				if !seen["__typename"] {
					seen["__typename"] = true
					out = append(out, &Node{Kind: "field", Name: "__typename", Key: "__typename"})
				}
			case 1:
				if depth > 0 {
					out = append(out, &Node{Kind: "inline", On: typeName, Sub: m.GenSel(t, typeName, depth-1, under), underUnionOrList: under})
				}
			default:
				if len(fields) == 0 {
					continue
				}
				f := fields[rapid.IntRange(0, len(fields)-1).Draw(t, "field")]
				f2 := f
				nd := &Node{Kind: "field", Name: f.Name, fd: &f2, underUnionOrList: under}
				var args []string
				for _, a := range f.Args {
					if a.Type.Kind == "NON_NULL" || rapid.Bool().Draw(t, "optarg") {
						args = append(args, a.Name+": "+m.literal(t, a.Type, 0))
					}
				}
				if len(args) > 0 {
					nd.Args = "(" + strings.Join(args, ", ") + ")"
				}
				KeyCounter++
				nd.Key = fmt.Sprintf("k%d_%s", KeyCounter, f.Name)
				named := f.Type.named()
				isList := strings.Contains(refString(f.Type), "[")
				if k := m.Types[named.Name].Kind; k == "OBJECT" || k == "UNION" {
					if depth <= 0 {
						continue
					}
					nd.HasSub = true
					nd.Sub = m.GenSel(t, named.Name, depth-1, under || isList || k == "UNION")
				}
				out = append(out, nd)
			}
		}
		if len(out) == 0 {
			out = append(out, &Node{Kind: "field", Name: "__typename", Key: "__typename"})
		}
	}
	return out
}

func refString(r TypeRef) string {
	switch r.Kind {
	case "NON_NULL":
		return refString(*r.OfType) + "!"
	case "LIST":
		return "[" + refString(*r.OfType) + "]"
	}
	return r.Name
}

func printNodes(b *strings.Builder, ns []*Node) {
	b.WriteString("{ ")
	for _, n := range ns {
		switch n.Kind {
		case "field":
			if n.Key != n.Name {
				b.WriteString(n.Key + ": ")
			}
			b.WriteString(n.Name + n.Args + " ")
			if n.Sub != nil {
				printNodes(b, n.Sub)
			}
		case "inline":
			b.WriteString("... on " + n.On + " ")
			printNodes(b, n.Sub)
		}
	}
	b.WriteString("} ")
}

func Text(ns []*Node) string { var b strings.Builder; printNodes(&b, ns); return b.String() }
