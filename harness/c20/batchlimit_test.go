package c20

import (
	"context"
	"encoding/json"
	"fmt"
	"sync"
	"sync/atomic"
	"testing"
	"time"

	"github.com/samsarahq/thunder/batch"
	cl "github.com/samsarahq/thunder/concurrencylimiter"
	"pgregory.net/rapid"

	"verifharness/ev"
)

// The limiter's one in-tree client: batch.Func.Invoke gives a joiner's token up while it waits
// for its group (TemporarilyRelease). Callers acquire a token, do a little work, call Invoke,
// do a little work again and release; some of their contexts are cancelled while they wait.
// Outside Invoke a caller that acquired on a live context holds a token, so at no time may
// more than n such callers be at work outside Invoke; and afterwards all n tokens are back.

type BCaller struct {
	OffsetUs int `json:"offset_us"`
	WorkUs   int `json:"work_us"`
	CancelUs int `json:"cancel_us,omitempty"` // own context cancelled this long after the caller started (0 = never)
	Shard    int `json:"shard"`
}

type BCase struct {
	Limit   int       `json:"limit"`
	ManyUs  int       `json:"many_us"` // the batch function takes this long
	WaitUs  int       `json:"wait_us"`
	MaxSize int       `json:"max_size"`
	Callers []BCaller `json:"callers"`
}

func runBatchLimit(c BCase) (nt bool, err error) {
	f := &batch.Func{
		Many: func(ctx context.Context, args []interface{}) ([]interface{}, error) {
			time.Sleep(time.Duration(c.ManyUs) * time.Microsecond)
			return args, nil
		},
		Shard:        func(arg interface{}) interface{} { return arg.(int) % 2 },
		WaitInterval: time.Duration(c.WaitUs) * time.Microsecond,
		MaxDuration:  20 * time.Millisecond,
		MaxSize:      c.MaxSize,
	}
	base := batch.WithBatching(cl.With(context.Background(), c.Limit))
	var atWork, maxAtWork, cancelledWhileWaiting int32
	var excess atomic.Value
	work := func(i int, where string, d time.Duration) {
		n := atomic.AddInt32(&atWork, 1)
		for {
			m := atomic.LoadInt32(&maxAtWork)
			if n <= m || atomic.CompareAndSwapInt32(&maxAtWork, m, n) {
				break
			}
		}
		if int(n) > c.Limit && excess.Load() == nil {
			excess.Store(fmt.Sprintf("%d callers are at work outside Invoke, each between an Acquire on a live context and its release, with a limiter of size %d (caller %d %s)", n, c.Limit, i, where))
		}
		time.Sleep(d)
		atomic.AddInt32(&atWork, -1)
	}
	var wg sync.WaitGroup
	start := time.Now()
	for i, cr := range c.Callers {
		i, cr := i, cr
		wg.Add(1)
		go func() {
			defer wg.Done()
			if d := time.Duration(cr.OffsetUs)*time.Microsecond - time.Since(start); d > 0 {
				time.Sleep(d)
			}
			ctx, cancel := context.WithCancel(base)
			defer cancel()
			if cr.CancelUs > 0 {
				tm := time.AfterFunc(time.Duration(cr.CancelUs)*time.Microsecond, cancel)
				defer tm.Stop()
			}
			hctx, release := cl.Acquire(ctx)
			// Acquire returns without a token on a cancelled context: only a caller whose
			// context is still live after Acquire returned is known to hold one
			holds := ctx.Err() == nil
			d := time.Duration(cr.WorkUs) * time.Microsecond
			if holds {
				work(i, "before Invoke", d/2)
			}
			t0 := time.Now()
			func() {
				defer func() { recover() }()
				f.Invoke(hctx, i*2+cr.Shard%2)
			}()
			if ctx.Err() != nil && time.Since(t0) > 100*time.Microsecond {
				atomic.AddInt32(&cancelledWhileWaiting, 1)
			}
			if holds {
				work(i, "after Invoke", d)
			}
			release()
		}()
	}
	done := make(chan struct{})
	go func() { wg.Wait(); close(done) }()
	select {
	case <-done:
	case <-time.After(ev.Patience(10 * time.Second)):
		return false, fmt.Errorf("callers still blocked after 10s (timers are <= 20ms)")
	}
	if e := excess.Load(); e != nil {
		return true, fmt.Errorf("%s", e.(string))
	}
	// all tokens are back
	var rels []cl.ReleaseFunc
	for k := 0; k < c.Limit; k++ {
		_, rel, ok := tryAcquire(base, true)
		if !ok {
			return true, fmt.Errorf("after every caller released only %d of %d tokens can be acquired", k, c.Limit)
		}
		rels = append(rels, rel)
	}
	if _, rel, ok := tryAcquire(base, false); ok {
		rel()
		return true, fmt.Errorf("after every caller released %d tokens could be acquired with a limiter of size %d", c.Limit+1, c.Limit)
	}
	for _, r := range rels {
		r()
	}
	return atomic.LoadInt32(&cancelledWhileWaiting) > 0 && int(atomic.LoadInt32(&maxAtWork)) == c.Limit, nil
}

func genBatchLimit(t *rapid.T) BCase {
	c := BCase{Limit: rapid.IntRange(1, 3).Draw(t, "limit"), ManyUs: rapid.SampledFrom([]int{200, 1000, 3000}).Draw(t, "manyus"), WaitUs: rapid.SampledFrom([]int{300, 1000}).Draw(t, "waitus"), MaxSize: rapid.SampledFrom([]int{0, 0, 2, 4}).Draw(t, "maxsize")}
	n := rapid.IntRange(3, 10).Draw(t, "ncallers")
	for i := 0; i < n; i++ {
		cr := BCaller{OffsetUs: rapid.IntRange(0, 1500).Draw(t, "offset"), WorkUs: rapid.SampledFrom([]int{200, 600, 1500}).Draw(t, "work"), Shard: rapid.IntRange(0, 1).Draw(t, "shard")}
		if rapid.IntRange(0, 2).Draw(t, "cancels") == 0 {
			cr.CancelUs = rapid.IntRange(100, 4000).Draw(t, "cancelus")
		}
		c.Callers = append(c.Callers, cr)
	}
	return c
}

func checkBatchLimit(t interface{ Fatalf(string, ...interface{}) }, test string, c BCase) {
	nt, err := runBatchLimit(c)
	if err != nil {
		p := rec.Violate(test, map[string]interface{}{"batchlimit": c}, err.Error())
		t.Fatalf("%v (replay %s)", err, p)
	}
	b, _ := json.Marshal(c)
	rec.Case("batchlimit"+string(b), nt, "batch-joiners", fmt.Sprintf("n=%d", c.Limit))
	if nt {
		rec.Sample(fmt.Sprintf("batch-joiners,n=%d", c.Limit), c)
	}
}

func TestBatchJoiners(t *testing.T) {
	rapid.Check(t, func(t *rapid.T) { checkBatchLimit(t, "TestBatchJoiners", genBatchLimit(t)) })
}
