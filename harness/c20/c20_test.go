package c20

import (
	"context"
	"encoding/json"
	"fmt"
	"os"
	"sync"
	"testing"
	"time"

	cl "github.com/samsarahq/thunder/concurrencylimiter"
	"pgregory.net/rapid"

	"verifharness/ev"
)

var rec = ev.New("C20",
	"programs: limit n in 1..4, 2..7 goroutines, a global order of steps (acq, rel, relAgain, tbegin/tend nested, relOther, tempNoHolder, acqCancelled, acqNoLimiter), optional pause plan for the verif yield site in holder.block; TestNestedWith: 2-3 limiters stacked on one context chain driven sequentially against a token count per limiter; non-trivial = a relOther or a release inside a temporary release happened while all n tokens were taken; distinct = hash of the program",
	"the harness's running-count undercounts true holders by construction (incremented after Acquire returned, decremented before any release call)",
	"a step that does not finish within 2ms is left in flight (this only shapes the schedule)")

func TestMain(m *testing.M) { code := m.Run(); rec.Flush(); os.Exit(code) }

type Step struct {
	G   int    `json:"g"`
	Op  string `json:"op"`
	Arg int    `json:"arg,omitempty"`
}

type Case struct {
	N      int    `json:"n"`
	G      int    `json:"g"`
	Steps  []Step `json:"steps"`
	Pauses []int  `json:"pauses,omitempty"` // for the k-th hit of the yield site: number of driver steps to wait (0 = none)
}

type hstate struct {
	id        int
	rel       cl.ReleaseFunc
	counted   bool
	released  bool // some release call has been started on it
	cancel    context.CancelFunc
	ctx       context.Context // what Acquire returned
	parent    bool            // some other Acquire used ctx as its parent
	cancelled bool
}

type world struct {
	mu        sync.Mutex
	n         int
	running   int
	maxRun    int
	holders   []*hstate
	excess    string
	ntSeen    bool
	nestedAcq int
	hookMu    sync.Mutex
	hookHits  int
	pauses    []int
	waiting   []*pausedHook
}

type pausedHook struct {
	left int
	ch   chan struct{}
}

func (w *world) count(h *hstate, what string) {
	w.mu.Lock()
	defer w.mu.Unlock()
	if h.released {
		return
	}
	h.counted = true
	w.running++
	if w.running > w.maxRun {
		w.maxRun = w.running
	}
	if w.running > w.n && w.excess == "" {
		w.excess = fmt.Sprintf("%d goroutines hold a token with limit %d (after %s of holder %d)", w.running, w.n, what, h.id)
	}
}

// uncount is called before any release call and before entering a temporary release.
func (w *world) uncount(h *hstate, release bool, inTempOrOther bool) {
	w.mu.Lock()
	defer w.mu.Unlock()
	if release && inTempOrOther && w.running >= w.n {
		w.ntSeen = true
	}
	if h.counted {
		h.counted = false
		w.running--
	}
	if release {
		h.released = true
	}
}

type worker struct {
	w      *world
	id     int
	base   context.Context
	cmd    chan Step
	done   chan string
	busy   bool
	hctx   context.Context
	h      *hstate
	lastH  *hstate
	depth  int // nesting of temp releases
	hDepth int // depth at which the current holder's outermost temp release started (0 = none)
	exited chan struct{}
}

func (wk *worker) loop(untilDepth int) {
	for st := range wk.cmd {
		if st.Op == "tend" && wk.depth > untilDepth-1 && untilDepth > 0 {
			return // leave innermost temp release; caller replies
		}
		if st.Op == "exit" {
			if untilDepth > 0 {
				// unwinding: re-deliver exit to outer loops
				go func() { wk.cmd <- st }()
				return
			}
			wk.exec(Step{Op: "rel"})
			wk.done <- "exit"
			return
		}
		wk.done <- wk.exec(st)
	}
}

func (wk *worker) exec(st Step) string {
	w := wk.w
	switch st.Op {
	case "acq":
		if wk.h != nil || wk.depth > 0 {
			return "skip"
		}
		// every holder gets a context of its own that a later step may cancel (while it runs, or
		// while it is inside a temporary release): cancellation after Acquire returned must not
		// change who holds a token
		// Sometimes the context handed to Acquire descends from the context another holder got
		// back from its own Acquire (work handed to a helper goroutine together with the
		// caller's context): that is a separate Acquire and needs a token of its own.
		base := wk.base
		nested := false
		if st.Arg%3 == 0 {
			w.mu.Lock()
			for i := len(w.holders) - 1; i >= 0; i-- {
				p := w.holders[i]
				if p.ctx != nil && !p.cancelled && p.ctx.Err() == nil {
					p.parent = true // never cancelled from now on (a cancelled parent would make this Acquire a no-op)
					base, nested = p.ctx, true
					break
				}
			}
			w.mu.Unlock()
		}
		hc, hcancel := context.WithCancel(base)
		ctx, rel := cl.Acquire(hc)
		if base.Err() != nil {
			hcancel()
			return "acq-cancelled"
		}
		w.mu.Lock()
		h := &hstate{id: len(w.holders), rel: rel, cancel: hcancel, ctx: ctx}
		w.holders = append(w.holders, h)
		if nested {
			w.nestedAcq++
		}
		w.mu.Unlock()
		wk.h, wk.hctx = h, ctx
		w.count(h, "Acquire")
		return "acq"
	case "rel":
		if wk.h == nil {
			return "skip"
		}
		w.uncount(wk.h, true, wk.depth > 0)
		wk.h.rel()
		wk.lastH = wk.h
		if wk.depth == 0 {
			wk.h = nil
		}
		return "rel"
	case "relAgain":
		if wk.lastH == nil {
			return "skip"
		}
		wk.lastH.rel()
		return "relAgain"
	case "relOther":
		w.mu.Lock()
		if len(w.holders) == 0 {
			w.mu.Unlock()
			return "skip"
		}
		h := w.holders[st.Arg%len(w.holders)]
		w.mu.Unlock()
		w.uncount(h, true, true)
		h.rel()
		return "relOther"
	case "cancelHolder":
		w.mu.Lock()
		if len(w.holders) == 0 {
			w.mu.Unlock()
			return "skip"
		}
		h := w.holders[st.Arg%len(w.holders)]
		if h.parent {
			w.mu.Unlock()
			return "skip"
		}
		h.cancelled = true
		w.mu.Unlock()
		h.cancel()
		return "cancelHolder"
	case "tbegin":
		if wk.h == nil {
			return "skip"
		}
		h := wk.h
		outer := wk.hDepth == 0
		if outer {
			w.uncount(h, false, false)
			wk.hDepth = wk.depth + 1
		}
		wk.depth++
		cl.TemporarilyRelease(wk.hctx, func() {
			wk.done <- "tbegin"
			wk.loop(wk.depth)
		})
		wk.depth--
		if outer {
			wk.hDepth = 0
			w.count(h, "TemporarilyRelease return") // no-op if a release was started on h
			w.mu.Lock()
			if h.released {
				wk.h = nil
			}
			w.mu.Unlock()
		}
		return "tend"
	case "tend":
		return "skip"
	case "tpanic":
		// f panics inside a temporary release and the panic is recovered further up: the
		// goroutine carries on as a holder, so it must have its token back
		if wk.h == nil || wk.hDepth != 0 {
			return "skip"
		}
		h := wk.h
		w.uncount(h, false, false)
		func() {
			defer func() { recover() }()
			cl.TemporarilyRelease(wk.hctx, func() { panic("f failed") })
		}()
		w.count(h, "TemporarilyRelease that panicked")
		return "tpanic"
	case "tempNoHolder":
		ran := false
		cl.TemporarilyRelease(wk.base, func() { ran = true })
		if !ran {
			return "violation: TemporarilyRelease on a context without holder did not run f"
		}
		return "tempNoHolder"
	case "acqCancelled":
		ctx, cancel := context.WithCancel(wk.base)
		cancel()
		fin := make(chan struct{})
		go func() { _, rel := cl.Acquire(ctx); rel(); rel(); close(fin) }()
		select {
		case <-fin:
			return "acqCancelled"
		case <-time.After(5 * time.Second):
			return "violation: Acquire on a cancelled context blocked"
		}
	case "acqNoLimiter":
		fin := make(chan struct{})
		go func() {
			ctx, rel := cl.Acquire(context.Background())
			cl.TemporarilyRelease(ctx, func() {})
			rel()
			rel()
			close(fin)
		}()
		select {
		case <-fin:
			return "acqNoLimiter"
		case <-time.After(5 * time.Second):
			return "violation: Acquire on a context without limiter blocked"
		}
	}
	return "skip"
}

var hookWorld struct {
	mu sync.Mutex
	w  *world
}

func init() {
	cl.VerifYield = func(site string) {
		hookWorld.mu.Lock()
		w := hookWorld.w
		hookWorld.mu.Unlock()
		if w == nil {
			return
		}
		w.hookMu.Lock()
		k := w.hookHits
		w.hookHits++
		var ph *pausedHook
		if k < len(w.pauses) && w.pauses[k] > 0 {
			ph = &pausedHook{left: w.pauses[k], ch: make(chan struct{})}
			w.waiting = append(w.waiting, ph)
		}
		w.hookMu.Unlock()
		if ph != nil {
			select {
			case <-ph.ch:
			case <-time.After(2 * time.Second):
			}
		}
	}
}

func (w *world) tickHooks(all bool) {
	w.hookMu.Lock()
	defer w.hookMu.Unlock()
	var keep []*pausedHook
	for _, ph := range w.waiting {
		ph.left--
		if ph.left <= 0 || all {
			close(ph.ch)
		} else {
			keep = append(keep, ph)
		}
	}
	w.waiting = keep
}

const stepWait = 2 * time.Millisecond

func runCase(c Case) (nontrivial bool, trace []string, err error) {
	w := &world{n: c.N, pauses: c.Pauses}
	hookWorld.mu.Lock()
	hookWorld.w = w
	hookWorld.mu.Unlock()
	defer func() {
		hookWorld.mu.Lock()
		hookWorld.w = nil
		hookWorld.mu.Unlock()
	}()
	base := cl.With(context.Background(), c.N)
	workers := make([]*worker, c.G)
	for i := range workers {
		wk := &worker{w: w, id: i, base: base, cmd: make(chan Step), done: make(chan string, 1024), exited: make(chan struct{})}
		workers[i] = wk
		go func() { wk.loop(0); close(wk.exited) }()
	}
	var viol string
	poll := func(wk *worker) {
		// drain completions of in-flight steps
		for wk.busy {
			select {
			case r := <-wk.done:
				wk.busy = false
				trace = append(trace, fmt.Sprintf("g%d:(late)%s", wk.id, r))
				if len(r) > 10 && r[:10] == "violation:" && viol == "" {
					viol = r
				}
			default:
				return
			}
		}
	}
	for _, st := range c.Steps {
		wk := workers[st.G%c.G]
		poll(wk)
		if wk.busy {
			trace = append(trace, fmt.Sprintf("g%d:%s=busy", wk.id, st.Op))
			w.tickHooks(false)
			continue
		}
		select {
		case wk.cmd <- st:
		case <-time.After(stepWait):
			trace = append(trace, fmt.Sprintf("g%d:%s=notready", wk.id, st.Op))
			w.tickHooks(false)
			continue
		}
		select {
		case r := <-wk.done:
			trace = append(trace, fmt.Sprintf("g%d:%s=%s", wk.id, st.Op, r))
			if len(r) > 10 && r[:10] == "violation:" && viol == "" {
				viol = r
			}
		case <-time.After(stepWait):
			wk.busy = true
			trace = append(trace, fmt.Sprintf("g%d:%s=inflight", wk.id, st.Op))
		}
		w.tickHooks(false)
		w.mu.Lock()
		ex := w.excess
		w.mu.Unlock()
		if ex != "" {
			break
		}
	}
	// wind down: resume hooks, make every worker leave its temp releases and release.
	w.tickHooks(true)
	deadline := time.After(10 * time.Second)
	stuck := false
	for _, wk := range workers {
		wk := wk
		go func() {
			for {
				select {
				case wk.cmd <- Step{Op: "exit"}:
					return
				case <-wk.exited:
					return
				case <-time.After(20 * time.Millisecond):
					w.tickHooks(true)
				}
			}
		}()
	}
	// Everybody releases: a worker that is blocked in Acquire gets its token once others exit.
	for _, wk := range workers {
		select {
		case <-wk.exited:
		case <-deadline:
			stuck = true
		}
		if stuck {
			break
		}
	}
	// holders released by "exit" of each worker; holders of workers that never ran rel: handled in exit.
	w.mu.Lock()
	ex, nt := w.excess, w.ntSeen
	w.mu.Unlock()
	if ex != "" {
		return nt, trace, fmt.Errorf("limit exceeded: %s", ex)
	}
	if viol != "" {
		return nt, trace, fmt.Errorf("%s", viol)
	}
	if stuck {
		return nt, trace, fmt.Errorf("a goroutine is still blocked 10s after every holder was released (token lost or deadlock)")
	}
	// quiescence: full capacity is back, and not more than that.
	var rels []cl.ReleaseFunc
	for i := 0; i < c.N; i++ {
		ctx, cancel := context.WithTimeout(base, 5*time.Second)
		_, rel := cl.Acquire(ctx)
		failed := ctx.Err() != nil
		cancel()
		rels = append(rels, rel)
		if failed {
			for _, r := range rels {
				r()
			}
			return nt, trace, fmt.Errorf("after all holders released only %d of %d tokens can be acquired (token lost)", i, c.N)
		}
	}
	ctx, cancel := context.WithTimeout(base, 10*time.Millisecond)
	start := time.Now()
	_, rel := cl.Acquire(ctx)
	gotExtra := ctx.Err() == nil
	cancel()
	rel()
	for _, r := range rels {
		r()
	}
	if gotExtra {
		return nt, trace, fmt.Errorf("after all holders released, %d tokens could be acquired with limit %d (extra capacity; returned after %v)", c.N+1, c.N, time.Since(start))
	}
	return nt, trace, nil
}

var ops = []string{"acq", "acq", "acq", "rel", "rel", "relAgain", "tbegin", "tbegin", "tend", "tend", "relOther", "relOther", "tempNoHolder", "acqCancelled", "acqNoLimiter", "cancelHolder", "cancelHolder", "tpanic"}

func genCase(t *rapid.T) Case {
	c := Case{N: rapid.IntRange(1, 4).Draw(t, "n"), G: rapid.IntRange(2, 7).Draw(t, "g")}
	n := rapid.IntRange(4, 40).Draw(t, "nsteps")
	for i := 0; i < n; i++ {
		c.Steps = append(c.Steps, Step{G: rapid.IntRange(0, c.G-1).Draw(t, "g"), Op: rapid.SampledFrom(ops).Draw(t, "op"), Arg: rapid.IntRange(0, 7).Draw(t, "arg")})
	}
	if rapid.Bool().Draw(t, "hooks") {
		c.Pauses = rapid.SliceOfN(rapid.IntRange(0, 5), 0, 6).Draw(t, "pauses")
	}
	return c
}

func checkAndRecord(t interface{ Fatalf(string, ...interface{}) }, test string, c Case) {
	nt, trace, err := runCase(c)
	if err != nil {
		p := rec.Violate(test, map[string]interface{}{"case": c, "trace": trace}, err.Error())
		t.Fatalf("%v (replay %s)\ntrace: %v", err, p, trace)
	}
	b, _ := json.Marshal(c)
	cls := []string{fmt.Sprintf("n=%d", c.N)}
	if len(c.Pauses) > 0 {
		cls = append(cls, "hook-armed")
	}
	rec.Case(string(b), nt, cls...)
	if nt {
		rec.Sample(fmt.Sprintf("n=%d,hooks=%v", c.N, len(c.Pauses) > 0), map[string]interface{}{"case": c, "trace": trace})
	}
}

func TestLimiter(t *testing.T) {
	rapid.Check(t, func(t *rapid.T) { checkAndRecord(t, "TestLimiter", genCase(t)) })
}

func TestReplay(t *testing.T) {
	p := os.Getenv("VERIF_REPLAY")
	if p == "" {
		t.Skip("no VERIF_REPLAY")
	}
	var wrap struct {
		Case   Case   `json:"case"`
		Nested *NCase `json:"nested"`
	}
	if _, err := ev.LoadReplay(p, &wrap); err != nil {
		t.Fatalf("harness: cannot load replay: %v", err)
	}
	if wrap.Nested != nil {
		checkNested(t, "TestReplay", *wrap.Nested)
		return
	}
	for i := 0; i < 20; i++ { // schedule-dependent: try several times
		checkAndRecord(t, "TestReplay", wrap.Case)
	}
}

// Pinned: the narrow re-acquire window (needs the verif yield hook).
func TestPinned(t *testing.T) {
	c := Case{N: 2, G: 5, Pauses: []int{4}, Steps: []Step{
		{G: 0, Op: "acq"}, {G: 1, Op: "acq"}, {G: 0, Op: "tbegin"}, {G: 0, Op: "tend"},
		{G: 2, Op: "relOther", Arg: 0}, {G: 3, Op: "acq"}, {G: 4, Op: "acq"},
	}}
	checkAndRecord(t, "TestPinned", c)
}
