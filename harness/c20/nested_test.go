package c20

import (
	"context"
	"encoding/json"
	"fmt"
	"testing"
	"time"

	cl "github.com/samsarahq/thunder/concurrencylimiter"
	"pgregory.net/rapid"
)

// Limiters stacked on one context chain: With attaches a NEW limiter, so a context carries the
// limiter of the innermost With above it, with that With's size, whatever limiters sit further
// out and whoever holds their tokens. The driver is sequential: it knows how many tokens of
// each limiter are out, so every Acquire is either expected to return at once or expected to
// block (then its context is cancelled to get it back).

type NStep struct {
	Op    string `json:"op"` // acq rel relAgain temp
	Depth int    `json:"depth,omitempty"`
	K     int    `json:"k,omitempty"`
}

type NCase struct {
	Limits []int   `json:"limits"`  // limits[d] = size of the limiter attached at depth d
	OnHeld bool    `json:"on_held"` // inner limiters are attached to the context an outer Acquire returned
	Steps  []NStep `json:"steps"`
}

type nholder struct {
	depth    int
	ctx      context.Context
	rel      cl.ReleaseFunc
	released bool
}

// tryAcquire: ok = Acquire returned a real token in time; blocked = it did not return until its
// context was cancelled.
func tryAcquire(ctx context.Context, expectFree bool) (hctx context.Context, rel cl.ReleaseFunc, returned bool) {
	c, cancel := context.WithCancel(ctx)
	type res struct {
		ctx context.Context
		rel cl.ReleaseFunc
	}
	ch := make(chan res, 1)
	go func() { hc, r := cl.Acquire(c); ch <- res{hc, r} }()
	wait := 5 * time.Millisecond
	if expectFree {
		wait = 3 * time.Second
	}
	select {
	case r := <-ch:
		_ = cancel // the holder keeps its context alive
		return r.ctx, r.rel, true
	case <-time.After(wait):
		cancel()
		r := <-ch
		r.rel()
		return nil, nil, false
	}
}

func runNested(c NCase) (nt bool, err error) {
	ctxs := make([]context.Context, len(c.Limits))
	base := context.Background()
	var keep []cl.ReleaseFunc
	out := make([]int, len(c.Limits)) // tokens out per limiter (model)
	for d, n := range c.Limits {
		base = cl.With(base, n)
		ctxs[d] = base
		if c.OnHeld && d+1 < len(c.Limits) {
			// the next limiter is attached below a context that holds a token of this one
			hc, rel, ok := tryAcquire(base, true)
			if !ok {
				return false, fmt.Errorf("Acquire on a fresh limiter of size %d (depth %d) blocked", n, d)
			}
			keep = append(keep, rel)
			out[d]++
			base = hc
		}
	}
	var holders []*nholder
	probe := func(d int, when string) error {
		// the limiter at depth d must have exactly limits[d]-out[d] tokens left
		free := c.Limits[d] - out[d]
		var got []cl.ReleaseFunc
		defer func() {
			for _, r := range got {
				r()
			}
		}()
		for i := 0; i < free; i++ {
			_, rel, ok := tryAcquire(ctxs[d], true)
			if !ok {
				return fmt.Errorf("%s: limiter of size %d at depth %d has %d tokens out, but Acquire number %d of the %d that must succeed blocked (limits %v)", when, c.Limits[d], d, out[d], i+1, free, c.Limits)
			}
			got = append(got, rel)
		}
		if _, rel, ok := tryAcquire(ctxs[d], false); ok {
			rel()
			return fmt.Errorf("%s: limiter of size %d at depth %d has all its tokens out (%d held + %d just acquired), yet one more Acquire returned (limits %v)", when, c.Limits[d], d, out[d], free, c.Limits)
		}
		return nil
	}
	for i, st := range c.Steps {
		d := st.Depth % len(c.Limits)
		when := fmt.Sprintf("step %d %+v", i, st)
		switch st.Op {
		case "acq":
			expectFree := out[d] < c.Limits[d]
			hc, rel, ok := tryAcquire(ctxs[d], expectFree)
			if ok != expectFree {
				if ok {
					rel()
					return nt, fmt.Errorf("%s: Acquire returned although all %d tokens of the limiter at depth %d are out (limits %v)", when, c.Limits[d], d, c.Limits)
				}
				return nt, fmt.Errorf("%s: Acquire blocked although only %d of %d tokens of the limiter at depth %d are out (limits %v, tokens out per depth %v)", when, out[d], c.Limits[d], d, c.Limits, out)
			}
			if ok {
				holders = append(holders, &nholder{depth: d, ctx: hc, rel: rel})
				out[d]++
				for e := range c.Limits {
					if e != d && out[e] > 0 {
						nt = true // tokens of two stacked limiters are out at once
					}
				}
			}
		case "rel", "relAgain":
			if len(holders) == 0 {
				continue
			}
			h := holders[st.K%len(holders)]
			if h.released != (st.Op == "relAgain") {
				continue
			}
			h.rel()
			if !h.released {
				h.released = true
				out[h.depth]--
			}
		case "temp":
			if len(holders) == 0 {
				continue
			}
			h := holders[st.K%len(holders)]
			var perr error
			cl.TemporarilyRelease(h.ctx, func() {
				if !h.released {
					out[h.depth]--
				}
				perr = probe(h.depth, when+" (inside TemporarilyRelease)")
				if !h.released {
					out[h.depth]++
				}
			})
			if perr != nil {
				return nt, perr
			}
		case "probe":
			if err := probe(d, when); err != nil {
				return nt, err
			}
		}
	}
	for _, h := range holders {
		h.rel()
		if !h.released {
			h.released = true
			out[h.depth]--
		}
	}
	for _, r := range keep {
		r()
	}
	for d := range out {
		out[d] = 0
	}
	for d := range c.Limits {
		if err := probe(d, "after every holder released"); err != nil {
			return nt, err
		}
	}
	return nt, nil
}

func genNested(t *rapid.T) NCase {
	c := NCase{Limits: rapid.SliceOfN(rapid.IntRange(1, 3), 2, 3).Draw(t, "limits"), OnHeld: rapid.Bool().Draw(t, "onheld")}
	n := rapid.IntRange(2, 14).Draw(t, "nsteps")
	for i := 0; i < n; i++ {
		c.Steps = append(c.Steps, NStep{Op: rapid.SampledFrom([]string{"acq", "acq", "acq", "rel", "rel", "relAgain", "temp", "probe"}).Draw(t, "op"), Depth: rapid.IntRange(0, 2).Draw(t, "depth"), K: rapid.IntRange(0, 7).Draw(t, "k")})
	}
	return c
}

func checkNested(t interface{ Fatalf(string, ...interface{}) }, test string, c NCase) {
	nt, err := runNested(c)
	if err != nil {
		p := rec.Violate(test, map[string]interface{}{"nested": c}, err.Error())
		t.Fatalf("%v (replay %s)", err, p)
	}
	b, _ := json.Marshal(c)
	rec.Case("nested"+string(b), nt, "nested-limiters", fmt.Sprintf("depths=%d", len(c.Limits)))
	if nt {
		rec.Sample(fmt.Sprintf("nested,onheld=%v", c.OnHeld), c)
	}
}

func TestNestedWith(t *testing.T) {
	rapid.Check(t, func(t *rapid.T) { checkNested(t, "TestNestedWith", genNested(t)) })
}
