package c09

import (
	"context"
	"encoding/json"
	"fmt"
	"sort"
	"strings"
	"sync"
	"testing"

	"github.com/samsarahq/thunder/federation"
	"github.com/samsarahq/thunder/graphql"
	"github.com/samsarahq/thunder/graphql/introspection"
	"pgregory.net/rapid"

	"verifharness/introm"
	"verifharness/world"
)

// ---------- (2) real schemas in several versions ----------

type version struct {
	name   string
	schema *graphql.Schema
	client federation.ExecutorClient
}

type versionedClient struct {
	svc      string
	versions []*version
	mu       *sync.Mutex
	failures *[]string
	sent     *int
}

// Execute validates the sub-query against every version of the service and runs it on the
// first one.
func (c *versionedClient) Execute(ctx context.Context, req *federation.QueryRequest) (*federation.QueryResponse, error) {
	isIntro := req.Query.SelectionSet != nil && len(req.Query.SelectionSet.Selections) > 0 && strings.HasPrefix(req.Query.SelectionSet.Selections[0].Name, "__schema")
	if !isIntro {
		c.mu.Lock()
		*c.sent++
		c.mu.Unlock()
		for _, v := range c.versions {
			pb, err := federation.MarshalQuery(req.Query)
			if err != nil {
				return nil, err
			}
			q, err := federation.UnmarshalQuery(pb)
			if err != nil {
				return nil, err
			}
			root := v.schema.Query
			if q.Kind == "mutation" {
				root = v.schema.Mutation
			}
			if err := graphql.PrepareQuery(ctx, root, q.SelectionSet); err != nil {
				c.mu.Lock()
				*c.failures = append(*c.failures, fmt.Sprintf("sub-query sent to service %s does not validate against its version %s: %v", c.svc, v.name, err))
				c.mu.Unlock()
			}
		}
	}
	return c.versions[0].client.Execute(ctx, req)
}

type versionedSyncer struct {
	services map[string][]*version
}

func (s *versionedSyncer) FetchPlannerAndSchema(ctx context.Context) (*federation.Planner, *graphql.Schema, error) {
	in := map[string]map[string]*federation.IntrospectionQueryResult{}
	q, err := graphql.Parse(introspection.IntrospectionQuery, map[string]interface{}{})
	if err != nil {
		return nil, nil, err
	}
	for svc, vs := range s.services {
		in[svc] = map[string]*federation.IntrospectionQueryResult{}
		for _, v := range vs {
			resp, err := v.client.Execute(ctx, &federation.QueryRequest{Query: q})
			if err != nil {
				return nil, nil, err
			}
			var iq federation.IntrospectionQueryResult
			if err := json.Unmarshal(resp.Result, &iq); err != nil {
				return nil, nil, err
			}
			in[svc][v.name] = &iq
		}
	}
	types, err := federation.ConvertVersionedSchemas(in)
	if err != nil {
		return nil, nil, err
	}
	planner, err := federation.NewPlanner(types, nil)
	if err != nil {
		return nil, nil, err
	}
	return planner, introspection.BareIntrospectionSchema(types.Schema), nil
}

// deriveVersion edits a spec: drop field funcs, add field funcs, toggle string/pstring
// results, give a field an argument struct with an optional member.
func deriveVersion(t *rapid.T, s *world.Spec) (*world.Spec, []string) {
	b, _ := json.Marshal(s)
	var c world.Spec
	json.Unmarshal(b, &c)
	var log []string
	for oi := range c.Objects {
		o := &c.Objects[oi]
		var kept []world.FieldSpec
		for _, f := range o.Fields {
			if strings.HasPrefix(f.Name, "all") {
				kept = append(kept, f)
				continue
			}
			switch rapid.IntRange(0, 5).Draw(t, "vedit") {
			case 0:
				log = append(log, "drop "+o.Type+"."+f.Name)
				continue
			case 1:
				if f.Ret == "string" {
					f.Ret, f.NilMod = "pstring", 2
					log = append(log, "nullable "+o.Type+"."+f.Name)
				} else if f.Ret == "pstring" {
					f.Ret = "string"
					log = append(log, "non-null "+o.Type+"."+f.Name)
				}
			case 2:
				if f.Args == "" {
					f.Args = "C" // an optional argument
					if rapid.IntRange(0, 4).Draw(t, "requiredarg") == 0 {
						f.Args = "B" // a required (s) and an optional (n) argument
					}
					log = append(log, "args+"+f.Args+" "+o.Type+"."+f.Name)
				} else if f.Args == "B" || f.Args == "C" {
					f.Args = ""
					log = append(log, "args- "+o.Type+"."+f.Name)
				}
			}
			kept = append(kept, f)
		}
		if rapid.IntRange(0, 2).Draw(t, "vadd") == 0 {
			name := fmt.Sprintf("n%d", rapid.IntRange(0, 2).Draw(t, "vaddname"))
			dup := false
			for _, f := range kept {
				dup = dup || f.Name == name
			}
			if !dup {
				recv := "ptr"
				if o.Type == "Query" {
					recv = "none"
				}
				kept = append(kept, world.FieldSpec{Name: name, Ret: "int64", Seed: 99, Recv: recv})
				log = append(log, "add "+o.Type+"."+name)
			}
		}
		o.Fields = kept
	}
	return &c, log
}

func TestVersionedGateway(t *testing.T) {
	rapid.Check(t, func(t *rapid.T) {
		base := world.GenFedSpec(t)
		part := world.GenPartition(t, base)
		part.Services = part.Services[:2]
		for k := range part.Fields {
			part.Fields[k] = []string{part.Services[rapid.IntRange(0, 1).Draw(t, "svc")]}
		}
		// per service 1-3 versions of the spec
		services := map[string][]*version{}
		var edits []string
		differ := false
		for _, svc := range part.Services {
			nv := rapid.SampledFrom([]int{1, 2, 3, 3}).Draw(t, "nversions")
			spec := base
			for vi := 0; vi < nv; vi++ {
				if vi > 0 {
					if vi >= 2 && rapid.Bool().Draw(t, "frombase") {
						// not a chain of deploys: this version was cut from the first one again
						// (what the version in between changed is not in it)
						spec = base
					}
					var log []string
					spec, log = deriveVersion(t, spec)
					if len(log) > 0 {
						differ = true
					}
					for _, l := range log {
						edits = append(edits, fmt.Sprintf("%s/v%d: %s", svc, vi+1, l))
					}
				}
				onePart := &world.FedPartition{Services: []string{svc}, Fields: part.Fields, Keys: part.Keys}
				svcs, err := world.BindFed(spec, onePart, world.Modes{})
				if err != nil {
					t.Fatalf("harness: %v", err)
				}
				srv, err := federation.NewServer(svcs[0].Schema)
				if err != nil {
					t.Fatalf("harness: %v", err)
				}
				services[svc] = append(services[svc], &version{name: fmt.Sprintf("v%d", vi+1), schema: svcs[0].Schema, client: &federation.DirectExecutorClient{Client: srv}})
			}
		}
		var mu sync.Mutex
		var failures []string
		sent := 0
		execs := map[string]federation.ExecutorClient{}
		for svc, vs := range services {
			execs[svc] = &versionedClient{svc: svc, versions: vs, mu: &mu, failures: &failures, sent: &sent}
		}
		ctx, cancel := context.WithCancel(context.Background())
		defer cancel()
		syncer := &versionedSyncer{services: services}
		gw, err := federation.NewExecutor(ctx, execs, &federation.SchemaSyncerConfig{SchemaSyncer: syncer})
		if err != nil {
			// the versions do not merge (e.g. a required argument in only one version): no claim
			rec.Case("versioned-nomerge"+fmt.Sprint(edits), false, "versioned:merge-error")
			return
		}
		// queries from the merged, advertised schema
		in := map[string]map[string]*federation.IntrospectionQueryResult{}
		iq, _ := graphql.Parse(introspection.IntrospectionQuery, map[string]interface{}{})
		for svc, vs := range services {
			in[svc] = map[string]*federation.IntrospectionQueryResult{}
			for _, v := range vs {
				resp, err := v.client.Execute(ctx, &federation.QueryRequest{Query: iq})
				if err != nil {
					t.Fatalf("harness: introspection: %v", err)
				}
				var r federation.IntrospectionQueryResult
				json.Unmarshal(resp.Result, &r)
				in[svc][v.name] = &r
			}
		}
		merged, err := federation.MergeIntrospectionSchemas(in)
		if err != nil {
			t.Fatalf("harness: ConvertVersionedSchemas succeeded but MergeIntrospectionSchemas failed: %v", err)
		}
		mb, _ := json.Marshal(merged)
		model, err := introm.FromJSON(mb)
		if err != nil {
			t.Fatalf("harness: %v", err)
		}
		var texts []string
		accepted := 0
		for qi := 0; qi < 6; qi++ {
			introm.KeyCounter = 0
			root := model.GenSel(t, "Query", rapid.IntRange(1, 4).Draw(t, "depth"), false)
			text := introm.Text(root)
			texts = append(texts, text)
			pq, err := graphql.Parse(text, map[string]interface{}{})
			if err != nil {
				t.Fatalf("harness: generated query does not parse: %v\n%s", err, text)
			}
			func() {
				defer func() {
					if r := recover(); r != nil {
						mu.Lock()
						failures = append(failures, fmt.Sprintf("gateway panicked: %v", r))
						mu.Unlock()
					}
				}()
				if _, _, err := gw.Execute(ctx, pq, nil); err == nil {
					accepted++
				}
			}()
		}
		mu.Lock()
		f := append([]string{}, failures...)
		n := sent
		mu.Unlock()
		cs := map[string]interface{}{"edits": edits, "queries": texts, "partition": part.Fields}
		if len(f) > 0 {
			sort.Strings(f)
			p := rec.Violate("TestVersionedGateway", cs, f[0])
			t.Fatalf("%s\nedits: %v (replay %s)", f[0], edits, p)
		}
		nt := differ && n > 0
		rec.Case("versioned"+fmt.Sprint(edits)+strings.Join(texts, "|"), nt, "versioned", fmt.Sprintf("versions-differ=%v", differ))
		if nt {
			rec.Sample("versioned-gateway", map[string]interface{}{"edits": edits, "queries": texts[:2], "sub_queries_validated": n})
		}
	})
}
