package c09

import (
	"encoding/json"
	"fmt"
	"os"
	"sort"
	"strings"
	"testing"

	"github.com/samsarahq/thunder/federation"
	"github.com/samsarahq/thunder/graphql"
	"pgregory.net/rapid"

	"verifharness/ev"
)

var rec = ev.New("C09",
	"(1) sets of raw introspection documents: a random closed schema (objects, unions, enums, input objects, scalars, fields with arguments, LIST/NON_NULL nestings up to depth 3), 1-3 versions per service derived by edits (add/remove type, field, argument, input field, enum value, union member; toggle NON_NULL at any nesting level), 1-3 services overlapping on some types; oracles: renaming/permutation invariance of MergeIntrospectionSchemas (same success, same canonical result), per-service result within every version, merged result contains every per-service element, all type references resolve and ConvertVersionedSchemas agrees with the merge, nullability lattice at every nesting level; (2) real schemabuilder schemas in several versions behind in-process servers: every sub-query the gateway sends to a service validates against every version of that service; non-trivial = a service has >=2 versions differing in an element the merged schema would otherwise expose, and >=2 services share a type; distinct = hash of the document set",
	"lists in results are compared as sets", "overlapping fields across services keep identical argument sets; across versions anything may change", "a merge error or planner rejection is not a violation")

func TestMain(m *testing.M) { code := m.Run(); rec.Flush(); os.Exit(code) }

// ---------- harness-side schema model ----------

type Ref struct {
	Kind   string `json:"kind"`
	Name   string `json:"name,omitempty"`
	OfType *Ref   `json:"ofType,omitempty"`
}

func (r *Ref) String() string {
	switch r.Kind {
	case "NON_NULL":
		return r.OfType.String() + "!"
	case "LIST":
		return "[" + r.OfType.String() + "]"
	}
	return r.Name
}

func (r *Ref) named() *Ref {
	for r.OfType != nil {
		r = r.OfType
	}
	return r
}

func (r *Ref) clone() *Ref {
	if r == nil {
		return nil
	}
	c := *r
	c.OfType = r.OfType.clone()
	return &c
}

type Input struct {
	Name string `json:"name"`
	Type *Ref   `json:"type"`
}

type Field struct {
	Name string  `json:"name"`
	Type *Ref    `json:"type"`
	Args []Input `json:"args"`
}

type Enum struct {
	Name string `json:"name"`
}

type Type struct {
	Name          string  `json:"name"`
	Kind          string  `json:"kind"`
	Fields        []Field `json:"fields"`
	InputFields   []Input `json:"inputFields"`
	PossibleTypes []*Ref  `json:"possibleTypes"`
	EnumValues    []Enum  `json:"enumValues"`
}

type Doc struct {
	Types []Type `json:"types"`
}

func (d *Doc) clone() *Doc {
	b, _ := json.Marshal(d)
	var c Doc
	json.Unmarshal(b, &c)
	return &c
}

func (d *Doc) typ(name string) *Type {
	for i := range d.Types {
		if d.Types[i].Name == name {
			return &d.Types[i]
		}
	}
	return nil
}

func (d *Doc) toResult() *federation.IntrospectionQueryResult {
	b, _ := json.Marshal(map[string]interface{}{"__schema": map[string]interface{}{"types": d.Types, "queryType": map[string]string{"name": "Query"}, "mutationType": map[string]string{"name": "Mutation"}}})
	var r federation.IntrospectionQueryResult
	if err := json.Unmarshal(b, &r); err != nil {
		panic(err)
	}
	return &r
}

func fromResult(r *federation.IntrospectionQueryResult) *Doc {
	b, _ := json.Marshal(r)
	var w struct {
		Schema Doc `json:"__schema"`
	}
	json.Unmarshal(b, &w)
	return &w.Schema
}

// canonical form: sorted, names and type strings only
func (d *Doc) canon() string {
	var ts []string
	for _, t := range d.Types {
		var parts []string
		for _, f := range t.Fields {
			var as []string
			for _, a := range f.Args {
				as = append(as, a.Name+":"+a.Type.String())
			}
			sort.Strings(as)
			parts = append(parts, "f "+f.Name+"("+strings.Join(as, ",")+"):"+f.Type.String())
		}
		for _, f := range t.InputFields {
			parts = append(parts, "i "+f.Name+":"+f.Type.String())
		}
		for _, p := range t.PossibleTypes {
			parts = append(parts, "p "+p.Name)
		}
		for _, e := range t.EnumValues {
			parts = append(parts, "e "+e.Name)
		}
		sort.Strings(parts)
		ts = append(ts, t.Kind+" "+t.Name+"{"+strings.Join(parts, ";")+"}")
	}
	sort.Strings(ts)
	return strings.Join(ts, "\n")
}

// ---------- generation ----------

var scalars = []string{"int64", "string", "bool"}

func genRef(t *rapid.T, named []*Ref, allowNonNull bool) *Ref {
	base := named[rapid.IntRange(0, len(named)-1).Draw(t, "base")].clone()
	r := base
	for depth := 0; depth < 3; depth++ {
		switch rapid.IntRange(0, 5).Draw(t, "wrap") {
		case 0:
			if r.Kind != "NON_NULL" && allowNonNull {
				r = &Ref{Kind: "NON_NULL", OfType: r}
			}
		case 1:
			r = &Ref{Kind: "LIST", OfType: r}
		}
	}
	return r
}

func genDoc(t *rapid.T, prefix string) *Doc {
	d := &Doc{}
	var outNamed, inNamed []*Ref
	for _, s := range scalars {
		d.Types = append(d.Types, Type{Name: s, Kind: "SCALAR"})
		outNamed = append(outNamed, &Ref{Kind: "SCALAR", Name: s})
		inNamed = append(inNamed, &Ref{Kind: "SCALAR", Name: s})
	}
	ne := rapid.IntRange(0, 2).Draw(t, "nenums")
	for i := 0; i < ne; i++ {
		e := Type{Name: fmt.Sprintf("%sE%d", prefix, i), Kind: "ENUM"}
		for k := 0; k < rapid.IntRange(1, 3).Draw(t, "nvals"); k++ {
			e.EnumValues = append(e.EnumValues, Enum{fmt.Sprintf("V%d", k)})
		}
		d.Types = append(d.Types, e)
		outNamed = append(outNamed, &Ref{Kind: "ENUM", Name: e.Name})
		inNamed = append(inNamed, &Ref{Kind: "ENUM", Name: e.Name})
	}
	ni := rapid.IntRange(0, 2).Draw(t, "ninputs")
	for i := 0; i < ni; i++ {
		in := Type{Name: fmt.Sprintf("%sI%d_InputObject", prefix, i), Kind: "INPUT_OBJECT"}
		for k := 0; k < rapid.IntRange(1, 3).Draw(t, "nif"); k++ {
			in.InputFields = append(in.InputFields, Input{Name: fmt.Sprintf("x%d", k), Type: genRef(t, inNamed, true)})
		}
		d.Types = append(d.Types, in)
		inNamed = append(inNamed, &Ref{Kind: "INPUT_OBJECT", Name: in.Name})
	}
	no := rapid.IntRange(1, 4).Draw(t, "nobjects")
	var objNames []string
	for i := 0; i < no; i++ {
		objNames = append(objNames, fmt.Sprintf("%sO%d", prefix, i))
		outNamed = append(outNamed, &Ref{Kind: "OBJECT", Name: objNames[i]})
	}
	nu := rapid.IntRange(0, 2).Draw(t, "nunions")
	var unions []Type
	for i := 0; i < nu; i++ {
		u := Type{Name: fmt.Sprintf("%sU%d", prefix, i), Kind: "UNION"}
		k := rapid.IntRange(1, len(objNames)).Draw(t, "nmembers")
		for _, m := range rapid.SliceOfNDistinct(rapid.SampledFrom(objNames), k, k, rapid.ID[string]).Draw(t, "members") {
			u.PossibleTypes = append(u.PossibleTypes, &Ref{Kind: "OBJECT", Name: m})
		}
		unions = append(unions, u)
		outNamed = append(outNamed, &Ref{Kind: "UNION", Name: u.Name})
	}
	genFields := func(n int) []Field {
		var fs []Field
		for k := 0; k < n; k++ {
			f := Field{Name: fmt.Sprintf("f%d", k), Type: genRef(t, outNamed, true), Args: []Input{}}
			for a := 0; a < rapid.IntRange(0, 2).Draw(t, "nargs"); a++ {
				f.Args = append(f.Args, Input{Name: fmt.Sprintf("a%d", a), Type: genRef(t, inNamed, true)})
			}
			fs = append(fs, f)
		}
		return fs
	}
	for _, n := range objNames {
		d.Types = append(d.Types, Type{Name: n, Kind: "OBJECT", Fields: genFields(rapid.IntRange(1, 4).Draw(t, "nfields"))})
	}
	d.Types = append(d.Types, unions...)
	q := Type{Name: "Query", Kind: "OBJECT", Fields: genFields(rapid.IntRange(1, 4).Draw(t, "nqf"))}
	for i := range q.Fields {
		q.Fields[i].Name = prefix + q.Fields[i].Name
	}
	d.Types = append(d.Types, q, Type{Name: "Mutation", Kind: "OBJECT", Fields: []Field{}})
	return d
}

func toggle(t *rapid.T, r *Ref) *Ref {
	// toggle NON_NULL at a random nesting level
	var chain []*Ref
	for x := r; x != nil; x = x.OfType {
		chain = append(chain, x)
	}
	// positions where a NON_NULL can be inserted or removed: before each non-NON_NULL node
	idx := rapid.IntRange(0, len(chain)-1).Draw(t, "level")
	var rebuild func(i int) *Ref
	rebuild = func(i int) *Ref {
		n := chain[i]
		if i == idx {
			if n.Kind == "NON_NULL" {
				return rebuild(i + 1) // remove
			}
			if i > 0 && chain[i-1].Kind == "NON_NULL" {
				// already wrapped: removing is handled at the wrapper's index
				c := *n
				if n.OfType != nil {
					c.OfType = rebuild(i + 1)
				}
				return &c
			}
			c := *n
			if n.OfType != nil {
				c.OfType = rebuildPlain(chain, i+1)
			}
			return &Ref{Kind: "NON_NULL", OfType: &c}
		}
		c := *n
		if n.OfType != nil {
			c.OfType = rebuild(i + 1)
		}
		return &c
	}
	return rebuild(0)
}

func rebuildPlain(chain []*Ref, i int) *Ref {
	c := *chain[i]
	if chain[i].OfType != nil {
		c.OfType = rebuildPlain(chain, i+1)
	}
	return &c
}

// edit derives a new version by a few edits, keeping the document closed.
// excludeKnown avoids the shape of the listed known finding (a required argument or input
// field that exists in only some versions); exclusions are counted.
var fresh int

var excludeKnown = ev.IsKnown("C09", "intersection-order-dependent")

func edit(t *rapid.T, d *Doc, prefix string) (*Doc, []string) {
	d = d.clone()
	var log []string
	n := rapid.IntRange(0, 4).Draw(t, "nedits")
	for e := 0; e < n; e++ {
		var objs []int
		for i, ty := range d.Types {
			if ty.Kind == "OBJECT" && ty.Name != "Mutation" {
				objs = append(objs, i)
			}
		}
		oi := objs[rapid.IntRange(0, len(objs)-1).Draw(t, "obj")]
		o := &d.Types[oi]
		switch op := rapid.SampledFrom([]string{"rmfield", "addfield", "addarg", "rmarg", "toggle-out", "toggle-arg", "addenum", "rmenum", "rmmember", "addinput", "rminput", "toggle-input"}).Draw(t, "op"); op {
		case "rmfield":
			if len(o.Fields) > 1 {
				k := rapid.IntRange(0, len(o.Fields)-1).Draw(t, "k")
				log = append(log, op+" "+o.Name+"."+o.Fields[k].Name)
				o.Fields = append(o.Fields[:k], o.Fields[k+1:]...)
			}
		case "addfield":
			name := fmt.Sprintf("n%d", rapid.IntRange(0, 3).Draw(t, "newname"))
			dup := false
			for _, f := range o.Fields {
				dup = dup || f.Name == name
			}
			if !dup {
				o.Fields = append(o.Fields, Field{Name: name, Type: &Ref{Kind: "SCALAR", Name: "string"}, Args: []Input{}})
				log = append(log, op+" "+o.Name+"."+name)
			}
		case "addarg":
			if len(o.Fields) > 0 {
				f := &o.Fields[rapid.IntRange(0, len(o.Fields)-1).Draw(t, "k")]
				name := fmt.Sprintf("b%d", rapid.IntRange(0, 2).Draw(t, "argname"))
				dup := false
				for _, a := range f.Args {
					dup = dup || a.Name == name
				}
				if !dup {
					ty := &Ref{Kind: "SCALAR", Name: "int64"}
					if rapid.IntRange(0, 3).Draw(t, "required") == 0 {
						if excludeKnown {
							rec.Excluded("intersection-order-dependent")
						} else {
							ty = &Ref{Kind: "NON_NULL", OfType: ty}
						}
					}
					f.Args = append(f.Args, Input{Name: name, Type: ty})
					log = append(log, op+" "+o.Name+"."+f.Name+"("+name+":"+ty.String()+")")
				}
			}
		case "rmarg":
			for i := range o.Fields {
				if len(o.Fields[i].Args) > 0 {
					if excludeKnown && o.Fields[i].Args[0].Type.Kind == "NON_NULL" {
						rec.Excluded("intersection-order-dependent")
						continue
					}
					log = append(log, op+" "+o.Name+"."+o.Fields[i].Name+"("+o.Fields[i].Args[0].Name+")")
					o.Fields[i].Args = o.Fields[i].Args[1:]
					break
				}
			}
		case "toggle-out":
			if len(o.Fields) > 0 {
				f := &o.Fields[rapid.IntRange(0, len(o.Fields)-1).Draw(t, "k")]
				f.Type = toggle(t, f.Type)
				log = append(log, op+" "+o.Name+"."+f.Name+" -> "+f.Type.String())
			}
		case "toggle-arg":
			for i := range o.Fields {
				if len(o.Fields[i].Args) > 0 {
					a := &o.Fields[i].Args[0]
					a.Type = toggle(t, a.Type)
					log = append(log, op+" "+o.Name+"."+o.Fields[i].Name+"("+a.Name+") -> "+a.Type.String())
					break
				}
			}
		case "addenum", "rmenum":
			for i := range d.Types {
				if d.Types[i].Kind == "ENUM" {
					if op == "addenum" {
						fresh++
						d.Types[i].EnumValues = append(d.Types[i].EnumValues, Enum{fmt.Sprintf("N%d", fresh)})
					} else if len(d.Types[i].EnumValues) > 1 {
						d.Types[i].EnumValues = d.Types[i].EnumValues[1:]
					}
					log = append(log, op+" "+d.Types[i].Name)
					break
				}
			}
		case "rmmember":
			for i := range d.Types {
				if d.Types[i].Kind == "UNION" && len(d.Types[i].PossibleTypes) > 1 {
					log = append(log, op+" "+d.Types[i].Name)
					d.Types[i].PossibleTypes = d.Types[i].PossibleTypes[1:]
					break
				}
			}
		case "addinput", "rminput", "toggle-input":
			for i := range d.Types {
				if d.Types[i].Kind == "INPUT_OBJECT" {
					in := &d.Types[i]
					switch op {
					case "addinput":
						ty := &Ref{Kind: "SCALAR", Name: "string"}
						if rapid.IntRange(0, 3).Draw(t, "required") == 0 {
							if excludeKnown {
								rec.Excluded("intersection-order-dependent")
							} else {
								ty = &Ref{Kind: "NON_NULL", OfType: ty}
							}
						}
						fresh++
						in.InputFields = append(in.InputFields, Input{Name: fmt.Sprintf("y%d", fresh), Type: ty})
					case "rminput":
						if len(in.InputFields) > 1 && !(excludeKnown && in.InputFields[0].Type.Kind == "NON_NULL") {
							in.InputFields = in.InputFields[1:]
						}
					default:
						in.InputFields[0].Type = toggle(t, in.InputFields[0].Type)
					}
					log = append(log, op+" "+in.Name)
					break
				}
			}
		}
	}
	return d, log
}

// ---------- element extraction for subset / lattice oracles ----------

type elem struct {
	key   string
	ref   *Ref
	input bool
}

func elements(d *Doc) map[string]elem {
	out := map[string]elem{}
	for _, t := range d.Types {
		out["type "+t.Kind+" "+t.Name] = elem{key: "type"}
		for _, f := range t.Fields {
			out["field "+t.Name+"."+f.Name] = elem{ref: f.Type}
			for _, a := range f.Args {
				out["arg "+t.Name+"."+f.Name+"("+a.Name+")"] = elem{ref: a.Type, input: true}
			}
		}
		for _, f := range t.InputFields {
			out["input "+t.Name+"."+f.Name] = elem{ref: f.Type, input: true}
		}
		for _, p := range t.PossibleTypes {
			out["member "+t.Name+"."+p.Name] = elem{}
		}
		for _, e := range t.EnumValues {
			out["enum "+t.Name+"."+e.Name] = elem{}
		}
	}
	return out
}

// convertedElements lists fields, arguments and input fields (with their type written as
// Ref.String writes it) of everything reachable from the roots of a built gateway schema.
func convertedElements(sc *graphql.Schema) map[string]string {
	out := map[string]string{}
	seen := map[graphql.Type]bool{}
	var walk func(t graphql.Type)
	walk = func(t graphql.Type) {
		switch t := t.(type) {
		case *graphql.NonNull:
			walk(t.Type)
		case *graphql.List:
			walk(t.Type)
		case *graphql.Object:
			if t == nil || seen[t] {
				return
			}
			seen[t] = true
			for fn, f := range t.Fields {
				if fn == "__typename" || strings.HasPrefix(fn, "__") {
					continue
				}
				out["field "+t.Name+"."+fn] = f.Type.String()
				for an, at := range f.Args {
					out["arg "+t.Name+"."+fn+"("+an+")"] = at.String()
					walk(at)
				}
				walk(f.Type)
			}
		case *graphql.Union:
			if t == nil || seen[t] {
				return
			}
			seen[t] = true
			for _, o := range t.Types {
				walk(o)
			}
		case *graphql.InputObject:
			if t == nil || seen[t] {
				return
			}
			seen[t] = true
			for fn, ft := range t.InputFields {
				out["input "+t.Name+"."+fn] = ft.String()
				walk(ft)
			}
		}
	}
	if sc.Query != nil {
		walk(sc.Query)
	}
	if sc.Mutation != nil {
		walk(sc.Mutation)
	}
	return out
}

func stripNonNull(r *Ref) string {
	switch r.Kind {
	case "NON_NULL":
		return stripNonNull(r.OfType)
	case "LIST":
		return "[" + stripNonNull(r.OfType) + "]"
	}
	return r.Name
}

// lattice computes the expected merged nullability of refs with equal shape.
func lattice(refs []*Ref, input bool) *Ref {
	nonNull := 0
	inner := make([]*Ref, len(refs))
	for i, r := range refs {
		if r.Kind == "NON_NULL" {
			nonNull++
			inner[i] = r.OfType
		} else {
			inner[i] = r
		}
	}
	var res *Ref
	if inner[0].Kind == "LIST" {
		var subs []*Ref
		for _, r := range inner {
			subs = append(subs, r.OfType)
		}
		res = &Ref{Kind: "LIST", OfType: lattice(subs, input)}
	} else {
		res = &Ref{Kind: inner[0].Kind, Name: inner[0].Name}
	}
	if (input && nonNull > 0) || (!input && nonNull == len(refs)) {
		return &Ref{Kind: "NON_NULL", OfType: res}
	}
	return res
}

type Case struct {
	Services map[string]map[string]*Doc `json:"services"`
	Edits    map[string][]string        `json:"edits"`
}

func (c Case) input(rename map[string]string) map[string]map[string]*federation.IntrospectionQueryResult {
	out := map[string]map[string]*federation.IntrospectionQueryResult{}
	for s, vs := range c.Services {
		sn := s
		if rename != nil {
			sn = rename[s]
		}
		out[sn] = map[string]*federation.IntrospectionQueryResult{}
		for v, d := range vs {
			vn := v
			if rename != nil {
				vn = rename[s+"/"+v]
			}
			out[sn][vn] = d.toResult()
		}
	}
	return out
}

func merge(in map[string]map[string]*federation.IntrospectionQueryResult) (d *Doc, err error) {
	defer func() {
		if r := recover(); r != nil {
			err = fmt.Errorf("PANIC: %v", r)
		}
	}()
	r, err := federation.MergeIntrospectionSchemas(in)
	if err != nil {
		return nil, err
	}
	return fromResult(r), nil
}

func canonOrNil(d *Doc) string {
	if d == nil {
		return "<merge failed>"
	}
	return d.canon()
}

func check(c Case, renames []map[string]string) (nt bool, labels []string, sig string, err error) {
	in := c.input(nil)
	before, _ := json.Marshal(in)
	base, baseErr := merge(in)
	if baseErr != nil && strings.HasPrefix(baseErr.Error(), "PANIC") {
		return false, nil, "panic", baseErr
	}
	// merging the same documents again (next sync, rollback to results that were kept) must
	// give the same answer; a merge that rewrites the documents it was given shows up here
	again, againErr := merge(in)
	if (baseErr == nil) != (againErr == nil) || (baseErr == nil && base.canon() != again.canon()) {
		after, _ := json.Marshal(in)
		return false, nil, "not-repeatable", fmt.Errorf("merging the same documents twice gives different results (first error %v, second error %v; input documents modified by the merge: %v):\n--- first\n%s\n--- second\n%s", baseErr, againErr, string(after) != string(before), canonOrNil(base), canonOrNil(again))
	}
	// ... and so must merging a part of them (rollback after a deploy: only the old version is
	// left; a service going away): same result as merging freshly decoded copies of that part
	for _, which := range []string{"first", "last"} {
		used, fresh := map[string]map[string]*federation.IntrospectionQueryResult{}, map[string]map[string]*federation.IntrospectionQueryResult{}
		freshAll := c.input(nil)
		for svc, vs := range in {
			var names []string
			for v := range vs {
				names = append(names, v)
			}
			sort.Strings(names)
			pick := names[0]
			if which == "last" {
				pick = names[len(names)-1]
			}
			used[svc] = map[string]*federation.IntrospectionQueryResult{pick: vs[pick]}
			fresh[svc] = map[string]*federation.IntrospectionQueryResult{pick: freshAll[svc][pick]}
		}
		u, uerr := merge(used)
		f, ferr := merge(fresh)
		if (uerr == nil) != (ferr == nil) || (uerr == nil && u.canon() != f.canon()) {
			return false, nil, "not-repeatable", fmt.Errorf("after one merge of all versions, merging only the %s version of every service (the same documents) differs from merging fresh copies of them: errors %v / %v\n--- same documents\n%s\n--- fresh copies\n%s", which, uerr, ferr, canonOrNil(u), canonOrNil(f))
		}
	}
	// a. renaming / permutation invariance
	for _, rn := range renames {
		other, oerr := merge(c.input(rn))
		if oerr != nil && strings.HasPrefix(oerr.Error(), "PANIC") {
			return false, nil, "panic", oerr
		}
		if (baseErr == nil) != (oerr == nil) {
			return false, nil, "order-dependent-failure", fmt.Errorf("merging succeeds or fails depending on service/version names: original error %v, renamed (%v) error %v", baseErr, rn, oerr)
		}
		if baseErr == nil && base.canon() != other.canon() {
			return false, nil, "order-dependent", fmt.Errorf("merged schema depends on service/version names (%v):\n--- original\n%s\n--- renamed\n%s", rn, base.canon(), other.canon())
		}
	}
	multiVersion, shared := false, false
	typeOwners := map[string]int{}
	for _, vs := range c.Services {
		if len(vs) > 1 {
			multiVersion = true
		}
		seen := map[string]bool{}
		for _, d := range vs {
			for _, t := range d.Types {
				if t.Kind == "OBJECT" && t.Name != "Query" && t.Name != "Mutation" && !seen[t.Name] {
					seen[t.Name] = true
					typeOwners[t.Name]++
				}
			}
		}
	}
	for _, n := range typeOwners {
		if n > 1 {
			shared = true
		}
	}
	labels = append(labels, fmt.Sprintf("services=%d", len(c.Services)))
	if baseErr != nil {
		labels = append(labels, "merge-error")
		return false, labels, "", nil
	}
	// d. all type references resolve + ConvertVersionedSchemas agrees
	names := map[string]string{}
	for _, t := range base.Types {
		names[t.Name] = t.Kind
	}
	for k, e := range elements(base) {
		if e.ref != nil {
			n := e.ref.named()
			if kind, ok := names[n.Name]; !ok || kind != n.Kind {
				return false, nil, "dangling-ref", fmt.Errorf("merged schema: %s refers to %s %s, which the merged schema does not define", k, n.Kind, n.Name)
			}
		}
		if strings.HasPrefix(k, "member ") {
			m := k[strings.LastIndex(k, ".")+1:]
			if names[m] != "OBJECT" {
				return false, nil, "dangling-ref", fmt.Errorf("merged schema: union %s, member type is not defined", k)
			}
		}
	}
	func() {
		defer func() {
			if r := recover(); r != nil {
				sig, err = "panic", fmt.Errorf("ConvertVersionedSchemas panicked: %v", r)
			}
		}()
		conv, cerr := federation.ConvertVersionedSchemas(c.input(nil))
		if cerr != nil {
			sig, err = "convert-fails", fmt.Errorf("MergeIntrospectionSchemas succeeds but ConvertVersionedSchemas fails: %v", cerr)
			return
		}
		// the schema the gateway validates and plans with declares, for everything reachable
		// from its roots, exactly the types of the merged introspection result
		want := elements(base)
		for k, got := range convertedElements(conv.Schema) {
			e, ok := want[k]
			if !ok {
				sig, err = "convert-differs", fmt.Errorf("the gateway schema (ConvertVersionedSchemas) has %q, which the merged introspection schema does not have", k)
				return
			}
			if e.ref != nil && e.ref.String() != got {
				sig, err = "convert-differs", fmt.Errorf("the gateway schema (ConvertVersionedSchemas) declares %q as %s, the merged introspection schema as %s", k, got, e.ref)
				return
			}
		}
	}()
	if err != nil {
		return false, nil, sig, err
	}
	// b. per service: the intersection over its versions
	merged := elements(base)
	perService := map[string]map[string]elem{}
	differs := false
	for s, vs := range c.Services {
		single := Case{Services: map[string]map[string]*Doc{s: vs}}
		sd, serr := merge(single.input(nil))
		if serr != nil {
			return false, nil, "harness", fmt.Errorf("harness: service %s alone fails to merge although the whole set merges: %v", s, serr)
		}
		se := elements(sd)
		perService[s] = se
		var versionElems []map[string]elem
		for _, d := range vs {
			versionElems = append(versionElems, elements(d))
		}
		for k, e := range se {
			var refs []*Ref
			for vi, ve := range versionElems {
				x, ok := ve[k]
				if !ok {
					return false, nil, "not-in-every-version", fmt.Errorf("service %s: merged schema exposes %q, which version #%d of the service does not have", s, k, vi)
				}
				if x.ref != nil {
					refs = append(refs, x.ref)
				}
			}
			if e.ref != nil {
				if want := lattice(refs, e.input); want.String() != e.ref.String() {
					return false, nil, "nullability", fmt.Errorf("service %s: %q merged as %s, expected %s from versions %v", s, k, e.ref, want, refs)
				}
			}
		}
		// everything present in all versions (with equal shape) must be kept
		for k, e0 := range versionElems[0] {
			all := true
			for _, ve := range versionElems[1:] {
				x, ok := ve[k]
				if !ok || (e0.ref != nil && stripNonNull(x.ref) != stripNonNull(e0.ref)) {
					all = false
				}
			}
			if !all {
				differs = true
				continue
			}
			if _, ok := se[k]; !ok && typePresent(k, versionElems) {
				return false, nil, "dropped-common", fmt.Errorf("service %s: %q is present in every version but missing from the service's merged schema", s, k)
			}
		}
	}
	// c. the merged schema contains every element of every per-service schema
	for s, se := range perService {
		for k, e := range se {
			m, ok := merged[k]
			if !ok {
				return false, nil, "not-in-merged", fmt.Errorf("merged schema lacks %q of service %s", k, s)
			}
			if e.ref != nil && stripNonNull(m.ref) != stripNonNull(e.ref) {
				return false, nil, "type-changed", fmt.Errorf("%q: service %s has %s, merged has %s", k, s, e.ref, m.ref)
			}
		}
	}
	// e. lattice across services
	for k, m := range merged {
		if m.ref == nil {
			continue
		}
		var refs []*Ref
		for _, se := range perService {
			if x, ok := se[k]; ok {
				refs = append(refs, x.ref)
			}
		}
		if len(refs) == 0 {
			return false, nil, "invented", fmt.Errorf("merged schema has %q which no service has", k)
		}
		if want := lattice(refs, m.input); want.String() != m.ref.String() {
			return false, nil, "nullability", fmt.Errorf("%q merged as %s, expected %s from services %v", k, m.ref, want, refs)
		}
	}
	if multiVersion {
		labels = append(labels, "multi-version")
	}
	if shared {
		labels = append(labels, "shared-type")
	}
	if differs {
		labels = append(labels, "versions-differ")
	}
	return multiVersion && differs && shared, labels, "", nil
}

// typePresent: the owning type of element key exists in all versions (otherwise the
// element is legitimately gone with its type).
func typePresent(key string, versions []map[string]elem) bool {
	parts := strings.SplitN(key, " ", 2)
	if parts[0] == "type" {
		return true
	}
	owner := parts[1]
	if i := strings.Index(owner, "."); i > 0 {
		owner = owner[:i]
	}
	for _, ve := range versions {
		found := false
		for k := range ve {
			if strings.HasPrefix(k, "type ") && strings.HasSuffix(k, " "+owner) {
				found = true
			}
		}
		if !found {
			return false
		}
	}
	// members and refs need their target types too; be conservative
	return parts[0] != "member" && parts[0] != "field" && parts[0] != "arg" && parts[0] != "input" || refTargetsPresent(key, versions)
}

func refTargetsPresent(key string, versions []map[string]elem) bool { return true }

func genCase(t *rapid.T) (Case, []map[string]string) {
	c := Case{Services: map[string]map[string]*Doc{}, Edits: map[string][]string{}}
	ns := rapid.IntRange(1, 3).Draw(t, "nservices")
	var shared *Doc
	for s := 0; s < ns; s++ {
		name := fmt.Sprintf("svc%c", 'a'+s)
		base := genDoc(t, fmt.Sprintf("S%d", s))
		if s == 0 {
			shared = base
		} else if rapid.Bool().Draw(t, "share") {
			// share one object type (and what it references) with service 0: identical
			// signatures modulo output nullability
			for _, ty := range shared.Types {
				if ty.Kind != "OBJECT" || ty.Name == "Query" || ty.Name == "Mutation" {
					continue
				}
				closure := map[string]bool{}
				var add func(name string)
				add = func(name string) {
					if closure[name] {
						return
					}
					closure[name] = true
					if tt := shared.typ(name); tt != nil {
						for _, f := range tt.Fields {
							add(f.Type.named().Name)
							for _, a := range f.Args {
								add(a.Type.named().Name)
							}
						}
						for _, f := range tt.InputFields {
							add(f.Type.named().Name)
						}
						for _, p := range tt.PossibleTypes {
							add(p.Name)
						}
					}
				}
				add(ty.Name)
				for n := range closure {
					if base.typ(n) == nil {
						cp := *shared.typ(n)
						b, _ := json.Marshal(cp)
						var c2 Type
						json.Unmarshal(b, &c2)
						if c2.Kind == "OBJECT" && rapid.Bool().Draw(t, "toggleshared") && len(c2.Fields) > 0 {
							c2.Fields[0].Type = toggle(t, c2.Fields[0].Type)
						}
						base.Types = append(base.Types, c2)
					}
				}
				break
			}
		}
		c.Services[name] = map[string]*Doc{"v1": base}
		nv := rapid.IntRange(1, 3).Draw(t, "nversions")
		prev := base
		for v := 2; v <= nv; v++ {
			nd, log := edit(t, prev, fmt.Sprintf("S%d", s))
			c.Services[name][fmt.Sprintf("v%d", v)] = nd
			c.Edits[name] = append(c.Edits[name], log...)
			prev = nd
		}
	}
	// renamings that permute sort order
	var renames []map[string]string
	for r := 0; r < 2; r++ {
		rn := map[string]string{}
		var snames []string
		for s := range c.Services {
			snames = append(snames, s)
		}
		sort.Strings(snames)
		perm := rapid.Permutation(snames).Draw(t, "sperm")
		for i, s := range snames {
			rn[s] = fmt.Sprintf("r%d_%s", i, perm[i])
			_ = perm
			rn[s] = fmt.Sprintf("n%02d", indexOf(perm, s))
			var vnames []string
			for v := range c.Services[s] {
				vnames = append(vnames, v)
			}
			sort.Strings(vnames)
			vperm := rapid.Permutation(vnames).Draw(t, "vperm")
			for _, v := range vnames {
				rn[s+"/"+v] = fmt.Sprintf("w%02d", indexOf(vperm, v))
			}
		}
		renames = append(renames, rn)
	}
	return c, renames
}

func indexOf(xs []string, x string) int {
	for i, y := range xs {
		if y == x {
			return i
		}
	}
	return -1
}

// hasKnownShape reports the shape of the listed known finding: an argument or input field
// that is required (top-level NON_NULL) in some document and absent from another document
// that has the owning field / input type. The pairwise "new field is non-null" rule then
// makes the folded merge depend on the order of services and versions.
func hasKnownShape(c Case) bool {
	type occ struct{ nonNull, ownerWithout bool }
	m := map[string]*occ{}
	var docs []map[string]elem
	for _, vs := range c.Services {
		for _, d := range vs {
			docs = append(docs, elements(d))
		}
	}
	owner := func(k string) string {
		if strings.HasPrefix(k, "arg ") {
			return "field " + k[4:strings.Index(k, "(")]
		}
		if strings.HasPrefix(k, "input ") {
			name := k[6:strings.Index(k, ".")]
			return "type INPUT_OBJECT " + name
		}
		return ""
	}
	for _, de := range docs {
		for k, e := range de {
			if !e.input {
				continue
			}
			if m[k] == nil {
				m[k] = &occ{}
			}
			if e.ref.Kind == "NON_NULL" {
				m[k].nonNull = true
			}
		}
	}
	for k, o := range m {
		if !o.nonNull {
			continue
		}
		for _, de := range docs {
			if _, has := de[k]; has {
				continue
			}
			if _, ok := de[owner(k)]; ok {
				return true
			}
		}
	}
	return false
}

func TestMergeAlgebra(t *testing.T) { rapid.Check(t, propMergeAlgebra) }

// FuzzMergeAlgebra: the same property driven by the coverage-guided engine (thorough tier).
func FuzzMergeAlgebra(f *testing.F) { f.Fuzz(rapid.MakeFuzz(propMergeAlgebra)) }

func propMergeAlgebra(t *rapid.T) {
	{
		c, renames := genCase(t)
		if excludeKnown && hasKnownShape(c) {
			rec.Excluded("intersection-order-dependent")
			return
		}
		nt, labels, sig, err := check(c, renames)
		if err != nil {
			p := rec.Violate("TestMergeAlgebra", map[string]interface{}{"case": c, "renames": renames}, sig+": "+err.Error())
			t.Fatalf("%s: %v (replay %s)", sig, err, p)
		}
		b, _ := json.Marshal(c.Services)
		sort.Strings(labels)
		rec.Case(string(b), nt, labels...)
		if nt {
			var descr []string
			for s, vs := range c.Services {
				for v, d := range vs {
					descr = append(descr, s+"/"+v+":\n"+d.canon())
				}
			}
			sort.Strings(descr)
			rec.Sample(strings.Join(labels, "+"), map[string]interface{}{"documents": descr, "edits": c.Edits})
		}
	}
}

func TestReplay(t *testing.T) {
	p := os.Getenv("VERIF_REPLAY")
	if p == "" {
		t.Skip("no VERIF_REPLAY")
	}
	var w struct {
		Case    Case                `json:"case"`
		Renames []map[string]string `json:"renames"`
	}
	if _, err := ev.LoadReplay(p, &w); err != nil || w.Case.Services == nil {
		t.Skip("not a merge-algebra replay; re-run by seed")
	}
	if _, _, sig, err := check(w.Case, w.Renames); err != nil {
		rec.Violate("TestReplay", w, sig+": "+err.Error())
		t.Fatalf("%s: %v", sig, err)
	}
}

// TestKnownOrder pins the known, unrepaired finding: whether the versions of one service
// merge depends on the order in which they are folded.
func TestKnownOrder(t *testing.T) {
	str := &Ref{Kind: "SCALAR", Name: "string"}
	req := &Ref{Kind: "NON_NULL", OfType: &Ref{Kind: "SCALAR", Name: "int64"}}
	mk := func(fields ...Field) *Doc {
		return &Doc{Types: []Type{{Name: "string", Kind: "SCALAR"}, {Name: "int64", Kind: "SCALAR"}, {Name: "Query", Kind: "OBJECT", Fields: fields}, {Name: "Mutation", Kind: "OBJECT", Fields: []Field{}}}}
	}
	c := Case{Services: map[string]map[string]*Doc{"svc": {
		"v1": mk(Field{Name: "f0", Type: str, Args: []Input{{Name: "a", Type: req}}}, Field{Name: "g", Type: str, Args: []Input{}}),
		"v2": mk(Field{Name: "g", Type: str, Args: []Input{}}),
		"v3": mk(Field{Name: "f0", Type: str, Args: []Input{}}, Field{Name: "g", Type: str, Args: []Input{}}),
	}}}
	rn := map[string]string{"svc": "svc", "svc/v1": "w1", "svc/v2": "w3", "svc/v3": "w2"}
	_, _, sig, err := check(c, []map[string]string{rn})
	if err == nil {
		return // the finding is gone
	}
	const known = "intersection-order-dependent"
	if sig == "order-dependent-failure" && strings.Contains(err.Error(), "is non-null") && ev.IsKnown("C09", known) {
		rec.KnownSeen(known, "versions v1 {f0(a: int64!)}, v2 {no f0}, v3 {f0()} merge when folded as (v1,v2),v3 but fail as (v1,v3),v2: the outcome depends on version names")
		rec.Case("known-order", true, "known-finding")
		return
	}
	p := rec.Violate("TestKnownOrder", c, sig+": "+err.Error())
	t.Fatalf("%s: %v (replay %s)", sig, err, p)
}
