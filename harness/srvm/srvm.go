// Package srvm drives thunder's websocket server (graphql.CreateConnection on a fake
// JSONSocket) over a mutable generated world with a history of client frames, data writes,
// resolver failures, cancellation and socket close, and checks the C02 (convergence) and
// C17 (lifecycle) oracles.
package srvm

import (
	"context"
	"encoding/json"
	"errors"
	"fmt"
	"sort"
	"strings"
	"sync"
	"sync/atomic"
	"time"

	"github.com/samsarahq/thunder/graphql"
	"github.com/samsarahq/thunder/reactive"
	"pgregory.net/rapid"

	"verifharness/ev"
	"verifharness/fakesock"
	jv "verifharness/jsonval"
	"verifharness/sched"
	"verifharness/world"
)

type Action struct {
	Kind string `json:"kind"` // subscribe unsubscribe write mutate echo pause failnext malformed-message malformed-frame unknown-type cancel close
	ID   string `json:"id,omitempty"`
	Q    int    `json:"q,omitempty"`
	Typ  string `json:"typ,omitempty"`
	Eid  int64  `json:"eid,omitempty"`
	Us   int    `json:"us,omitempty"`
	N    int    `json:"n,omitempty"`
	Raw  string `json:"raw,omitempty"`
	Fail string `json:"fail,omitempty"` // mutate: "" succeeds; canceled wrapped plain safe panic
}

type Trigger struct {
	Call   int    `json:"call"` // at the n-th resolver call of the whole history
	Typ    string `json:"typ"`  // entity written from inside the resolver ("" = none)
	Eid    int64  `json:"eid"`
	SlowUs int    `json:"slow_us,omitempty"` // the resolver takes this long: client frames arrive while the run is in flight
}

type Case struct {
	Spec          *world.Spec    `json:"spec"`
	Modes         world.Modes    `json:"modes"`
	Queries       []*world.Query `json:"queries"`
	Texts         []string       `json:"texts"`
	MaxSubs       int            `json:"max_subs"`
	Sched         string         `json:"sched"`
	Actions       []Action       `json:"actions"`
	Triggers      []Trigger      `json:"triggers,omitempty"`
	Lifecycle     bool           `json:"lifecycle"`                 // C17 mode: collisions, failures, malformed frames, close
	HoldUs        int            `json:"hold_us,omitempty"`         // the execution logger's Error takes this long: a failed run stays in flight
	CloserDelayUs int            `json:"closer_delay_us,omitempty"` // every closeSubscription call is delayed at its entry (hook H6)
	RerunDelayUs  int            `json:"rerun_delay_us,omitempty"`  // reactive.WriteThenReadDelay: an unsubscribe / close may land between invalidation and re-run
	// ConnOpts: the less common connection options. bit 0: WithAlwaysSpawnGoroutineFunc(true)
	// (every re-run on a fresh goroutine), bit 1: WithMakeCtx (a derived context per run),
	// bit 2: WithMinRerunIntervalFunc instead of WithMinRerunInterval, bit 3: WithMutationSchema
	ConnOpts int `json:"conn_opts,omitempty"`
}

type makeCtxKey struct{}

// closerDelay (nanoseconds) is read by the hook installed once in init: goroutines of an
// earlier run may still pass the yield point when the next run starts.
var closerDelay int64
var closerCalls int64

// SetCloserDelay makes every conn.closeSubscription call wait at its entry (hook H6).
func SetCloserDelay(d time.Duration) { atomic.StoreInt64(&closerDelay, int64(d)) }

// CloserCalls counts the closeSubscription calls seen by the hook.
func CloserCalls() int64 { return atomic.LoadInt64(&closerCalls) }

func init() {
	graphql.VerifYield = func(site string) {
		if site == "closeSubscription.enter" {
			atomic.AddInt64(&closerCalls, 1)
			if d := atomic.LoadInt64(&closerDelay); d > 0 {
				time.Sleep(time.Duration(d))
			}
		}
	}
}

type ownerKey struct{}

type watch struct {
	owner   string
	key     string
	res     *reactive.Resource
	cleaned int32
}

type Store struct {
	mu             sync.Mutex
	epoch          map[string]int64
	watchers       map[string]map[*watch]struct{}
	all            []*watch
	calls          map[string]int
	ncalls         int
	triggers       []Trigger
	failNext       int
	gen            map[string]int
	WriteDuringRun int32
	SlowCalls      int32
	slowMutateUs   int64
}

func key(typ string, id int64) string { return fmt.Sprintf("%s:%d", typ, id) }

func newStore() *Store {
	return &Store{epoch: map[string]int64{}, watchers: map[string]map[*watch]struct{}{}, calls: map[string]int{}, gen: map[string]int{}}
}

func (st *Store) Epoch(typ string, id int64) int64 {
	st.mu.Lock()
	defer st.mu.Unlock()
	return st.epoch[key(typ, id)]
}

func (st *Store) Write(typ string, id int64) {
	k := key(typ, id)
	st.mu.Lock()
	st.epoch[k]++
	ws := st.watchers[k]
	st.watchers[k] = nil
	st.mu.Unlock()
	for w := range ws {
		w.res.Invalidate()
	}
}

func (st *Store) owner(ctx context.Context) string {
	if o, ok := ctx.Value(ownerKey{}).(string); ok {
		return o
	}
	return "?"
}

// onCall is the resolver hook: count the call for its subscription, register a fresh
// resource (livesql pattern), and fire write triggers.
func (st *Store) onCall(ctx context.Context, typ string, id int64, f *world.FieldSpec) {
	owner := st.owner(ctx)
	k := key(typ, id)
	w := &watch{owner: owner, key: k, res: reactive.NewResource()}
	w.res.Cleanup(func() {
		atomic.AddInt32(&w.cleaned, 1)
		st.mu.Lock()
		if ws := st.watchers[k]; ws != nil {
			delete(ws, w)
		}
		st.mu.Unlock()
	})
	st.mu.Lock()
	st.calls[owner]++
	st.ncalls++
	n := st.ncalls
	var fire []Trigger
	for _, t := range st.triggers {
		if t.Call == n {
			fire = append(fire, t)
		}
	}
	if st.watchers[k] == nil {
		st.watchers[k] = map[*watch]struct{}{}
	}
	st.watchers[k][w] = struct{}{}
	st.all = append(st.all, w)
	st.mu.Unlock()
	reactive.AddDependency(ctx, w.res, nil)
	for _, t := range fire {
		if t.SlowUs > 0 {
			atomic.AddInt32(&st.SlowCalls, 1)
			time.Sleep(time.Duration(t.SlowUs) * time.Microsecond)
		}
		if t.Typ != "" {
			atomic.AddInt32(&st.WriteDuringRun, 1)
			st.Write(t.Typ, t.Eid)
		}
	}
}

func (st *Store) fault(typ string, id int64, f *world.FieldSpec, a world.ArgVal, batch bool) error {
	st.mu.Lock()
	defer st.mu.Unlock()
	if st.failNext > 0 {
		st.failNext--
		return errors.New("injected resolver failure SECRETTOKEN")
	}
	return nil
}

type subLogger struct {
	mu     sync.Mutex
	events []string
	st     *Store
}

func (l *subLogger) Subscribe(ctx context.Context, id string, tags map[string]string) {
	l.mu.Lock()
	l.events = append(l.events, "S:"+id)
	l.mu.Unlock()
	l.st.mu.Lock()
	l.st.gen[id]++
	l.st.mu.Unlock()
}
func (l *subLogger) Unsubscribe(ctx context.Context, id string) {
	l.mu.Lock()
	l.events = append(l.events, "U:"+id)
	l.mu.Unlock()
}
func (l *subLogger) snapshot() []string {
	l.mu.Lock()
	defer l.mu.Unlock()
	return append([]string{}, l.events...)
}

func (l *subLogger) mark(ev string) {
	l.mu.Lock()
	l.events = append(l.events, ev)
	l.mu.Unlock()
}

// execLogger is the connection's GraphqlLogger. Its Error is slow on request, which keeps a
// failed run in flight (the server has already spawned the closer of the failed subscription)
// while the next client frame - unsubscribe of the same id, a new subscribe, socket close -
// is handled.
type execLogger struct{ hold time.Duration }

func (execLogger) StartExecution(ctx context.Context, tags map[string]string, initial bool)     {}
func (execLogger) FinishExecution(ctx context.Context, tags map[string]string, d time.Duration) {}
func (l execLogger) Error(ctx context.Context, err error, tags map[string]string) {
	if l.hold > 0 {
		time.Sleep(l.hold)
	}
}

// checkLogger: every Subscribe is matched by exactly one Unsubscribe. A mutation is tracked
// by the server under its id while it runs and logs an Unsubscribe of its own when it is
// done ("M:" marks are written by the harness when it sends a mutate frame); any other
// Unsubscribe for an id that is not subscribed is one too many.
func checkLogger(evs []string) error {
	open := map[string]bool{}
	credit := map[string]int{}
	for i, e := range evs {
		id := e[2:]
		switch e[0] {
		case 'S':
			if open[id] {
				return fmt.Errorf("Subscribe for %q logged while it is already subscribed: %v", id, evs)
			}
			open[id] = true
		case 'M':
			credit[id]++
		case 'U':
			if open[id] {
				open[id] = false
			} else if credit[id] > 0 {
				credit[id]--
			} else {
				return fmt.Errorf("Unsubscribe for %q logged although it is not subscribed (event %d; a subscription ended twice): %v", id, i, evs)
			}
		}
	}
	return nil
}

// openIDs returns the ids with a Subscribe not yet matched by an Unsubscribe, and the
// maximum number of simultaneously open subscriptions over the event sequence.
func openIDs(evs []string) (map[string]bool, int) {
	open := map[string]bool{}
	max := 0
	for _, e := range evs {
		id := e[2:]
		if e[0] == 'S' {
			open[id] = true
			if len(open) > max {
				max = len(open)
			}
		} else if e[0] == 'U' {
			delete(open, id)
		}
	}
	return open, max
}

// Result of a run.
type Result struct {
	Labels     []string
	Nontrivial bool
	Trace      []string
}

type liveSub struct {
	q     int
	owner string
	since int // segment index of the subscribe
}

func dump(outs []fakesock.Out) string {
	var parts []string
	for _, o := range outs {
		s := string(o.Raw)
		if len(s) > 300 {
			s = s[:300] + "…"
		}
		parts = append(parts, s)
	}
	return "[" + strings.Join(parts, "\n   ") + "]"
}

// Run executes the case.
func Run(c Case) (res Result, sig string, err error) {
	reactive.WriteThenReadDelay = time.Duration(c.RerunDelayUs) * time.Microsecond
	SetCloserDelay(time.Duration(c.CloserDelayUs) * time.Microsecond)
	st := newStore()
	st.triggers = c.Triggers
	spec := *c.Spec
	spec.Epoch = st.Epoch
	b, err := world.Bind(&spec, c.Modes)
	if err != nil {
		return res, "harness-bind", fmt.Errorf("harness: %v", err)
	}
	b.Env.OnCallCtx = st.onCall
	b.Env.Fault = st.fault
	b.Env.OnMutate = func(ctx context.Context, typ string, id int64) {
		if us := atomic.LoadInt64(&st.slowMutateUs); us > 0 {
			// a mutation that takes its time and gives up early when its context ends
			select {
			case <-ctx.Done():
			case <-time.After(time.Duration(us) * time.Microsecond):
			}
		}
		st.Write(typ, id)
	}
	sock := fakesock.New()
	lg := &subLogger{st: st}
	ctx, cancel := context.WithCancel(context.Background())
	defer cancel()
	copts := []graphql.ConnectionOption{graphql.WithMinRerunInterval(0), graphql.WithSubscriptionLogger(lg),
		graphql.WithMaxSubscriptions(c.MaxSubs), graphql.WithExecutionLogger(execLogger{hold: time.Duration(c.HoldUs) * time.Microsecond}), graphql.WithExecutor(graphql.NewExecutor(sched.New(c.Sched, 11)))}
	if c.ConnOpts&1 != 0 {
		copts = append(copts, graphql.WithAlwaysSpawnGoroutineFunc(func(context.Context, *graphql.Query) bool { return true }))
	}
	if c.ConnOpts&2 != 0 {
		copts = append(copts, graphql.WithMakeCtx(func(ctx context.Context) context.Context { return context.WithValue(ctx, makeCtxKey{}, true) }))
	}
	if c.ConnOpts&4 != 0 {
		copts = append(copts, graphql.WithMinRerunIntervalFunc(func(context.Context, *graphql.Query) time.Duration { return 0 }))
	}
	if c.ConnOpts&8 != 0 {
		copts = append(copts, graphql.WithMutationSchema(b.Schema))
	}
	conn := graphql.CreateConnection(ctx, sock, b.Schema, copts...)
	conn.Use(func(in *graphql.ComputationInput, next graphql.MiddlewareNextFunc) *graphql.ComputationOutput {
		st.mu.Lock()
		g := st.gen[in.Id]
		st.mu.Unlock()
		owner := fmt.Sprintf("%s#%d", in.Id, g)
		if in.ParsedQuery != nil && in.ParsedQuery.Kind == "mutation" {
			owner = "mutation:" + owner
		}
		in.Ctx = context.WithValue(in.Ctx, ownerKey{}, owner)
		return next(in)
	})
	served := make(chan struct{})
	go func() { conn.ServeJSONSocket(); close(served) }()
	closed := false
	defer func() {
		sock.Close()
		// a connection that does not wind down (a wedged rerunner) must not wedge the harness
		select {
		case <-served:
		case <-time.After(2 * time.Second):
		}
	}()

	live := map[string]*liveSub{}  // model of accepted, not yet ended subscriptions
	uncertain := map[string]bool{} // ids whose subscription may have died by failure
	ended := map[string]int{}      // owner -> calls at the time the harness learned it ended
	client := fakesock.NewClient()
	seg := 0
	processed := 0
	echoN := 0
	feats := map[string]bool{}
	closedAt := -1

	barrier := func() bool {
		echoN++
		return sock.Echo(fmt.Sprintf("__echo%d", echoN), 10*time.Second)
	}
	// consume processes the envelopes written since the last call, in segment seg, given the
	// action that just happened.
	var allowedThisSeg map[string]bool
	consume := func() (string, error) {
		outs := sock.Outs()
		for ; processed < len(outs); processed++ {
			o := outs[processed]
			if o.Type == "echo" {
				continue
			}
			if strings.Contains(string(o.Raw), "SECRETTOKEN") {
				return "secret-leak", fmt.Errorf("envelope leaks an unsafe error text: %s", o.Raw)
			}
			switch o.Type {
			case "update":
				ls := live[o.ID]
				if ls == nil && !allowedThisSeg[o.ID] {
					return "update-after-end", fmt.Errorf("update for id %q which is not subscribed (unsubscribed and confirmed by an echo barrier, never subscribed, or ended): %s", o.ID, o.Raw)
				}
				if ls != nil {
					if !client.Has[o.ID] {
						// first message must be a full update
						if a, ok := o.Msg.([]interface{}); !ok || len(a) != 1 {
							return "first-not-full", fmt.Errorf("first message of subscription %q is not a full update: %s", o.ID, o.Raw)
						}
					}
					if err := client.Apply(o); err != nil {
						return "bad-delta", fmt.Errorf("update for %q cannot be applied to the client state: %v: %s", o.ID, err, o.Raw)
					}
				}
			case "error":
				if c.Lifecycle {
					continue
				}
				if !allowedThisSeg["error:"+o.ID] {
					return "unexpected-error", fmt.Errorf("unexpected error envelope: %s", o.Raw)
				}
			case "result":
			}
		}
		return "", nil
	}

	// endedCalls: resolver calls counted for a subscription (id#generation) at the moment the
	// echo behind its unsubscribe frame came back: the server has processed the unsubscribe,
	// the rerunner's Stop has returned, none of its resolvers may start any more.
	endedCalls := map[string]int{}
	markEnded := func(id string) {
		st.mu.Lock()
		k := fmt.Sprintf("%s#%d", id, st.gen[id])
		if _, done := endedCalls[k]; !done {
			endedCalls[k] = st.calls[k]
		}
		st.mu.Unlock()
	}
	checkEnded := func() error {
		st.mu.Lock()
		defer st.mu.Unlock()
		for k, n := range endedCalls {
			if st.calls[k] != n {
				return fmt.Errorf("resolvers of subscription %s ran after the server had processed its unsubscribe (%d calls then, %d now)", k, n, st.calls[k])
			}
		}
		return nil
	}
	nMut := 0
	for ai, a := range c.Actions {
		if closed {
			break
		}
		allowedThisSeg = map[string]bool{}
		seg++
		switch a.Kind {
		case "subscribe":
			text := c.Texts[a.Q%len(c.Texts)]
			q := c.Queries[a.Q%len(c.Queries)]
			_, isLive := live[a.ID]
			certain := !c.Lifecycle || !feats["failures"]
			nS0 := 0
			for _, e := range lg.snapshot() {
				if e == "S:"+a.ID {
					nS0++
				}
			}
			if isLive {
				feats["id-reuse-live"] = true
				allowedThisSeg["error:"+a.ID] = true // duplicate subscription
			} else if len(live) >= c.MaxSubs {
				allowedThisSeg["error:"+a.ID] = true // too many subscriptions
				feats["max-subs"] = true
			} else if !c.Lifecycle {
				if client.Has[a.ID] {
					feats["id-reuse"] = true
				}
				delete(client.State, a.ID)
				delete(client.Has, a.ID)
				live[a.ID] = &liveSub{q: a.Q % len(c.Queries), owner: a.ID, since: seg}
			}
			if c.Lifecycle {
				allowedThisSeg["error:"+a.ID] = true
				allowedThisSeg[a.ID] = true
			}
			n0 := sock.NOut()
			vals, _ := json.Marshal(q.Values)
			var vm map[string]interface{}
			json.Unmarshal(vals, &vm)
			sock.SendEnvelope(a.ID, "subscribe", map[string]interface{}{"query": text, "variables": vm})
			if !barrier() {
				return res, "no-echo", fmt.Errorf("no echo reply after subscribe (action %d); written: %s", ai, dump(sock.Outs()))
			}
			rejected, rejMsg := false, ""
			for _, o := range sock.Outs()[n0:] {
				if o.ID == a.ID && o.Type == "error" {
					if m, _ := o.Msg.(string); m == "duplicate subscription" || m == "too many subscriptions" {
						rejected, rejMsg = true, m
					}
				}
			}
			if c.Lifecycle {
				// the logger is the ground truth for acceptance
				nS1 := 0
				for _, e := range lg.snapshot() {
					if e == "S:"+a.ID {
						nS1++
					}
				}
				accepted := nS1 > nS0
				if accepted && rejected {
					return res, "accept-and-reject", fmt.Errorf("subscribe %q was both accepted (Subscribe logged) and rejected (%s)", a.ID, rejMsg)
				}
				if isLive && certain && accepted {
					return res, "duplicate-rule", fmt.Errorf("subscribe with live id %q was accepted", a.ID)
				}
				if accepted {
					delete(client.State, a.ID)
					delete(client.Has, a.ID)
					st.mu.Lock()
					fn := st.failNext
					st.mu.Unlock()
					live[a.ID] = &liveSub{q: a.Q % len(c.Queries), owner: a.ID, since: seg}
					if fn > 0 {
						uncertain[a.ID] = true
					} else {
						delete(uncertain, a.ID)
					}
				}
			} else if isLive || allowedThisSeg["error:"+a.ID] {
				if !rejected {
					if isLive {
						return res, "duplicate-rule", fmt.Errorf("subscribe with live id %q was not rejected as duplicate", a.ID)
					}
					return res, "max-subs", fmt.Errorf("subscribe %q accepted although %d subscriptions are live (max %d)", a.ID, len(live), c.MaxSubs)
				}
				if isLive && rejMsg != "duplicate subscription" {
					return res, "duplicate-rule", fmt.Errorf("subscribe with live id %q answered %q", a.ID, rejMsg)
				}
			}
		case "unsubscribe":
			if ls, ok := live[a.ID]; ok {
				delete(live, a.ID)
				allowedThisSeg[a.ID] = true // updates already in flight before the server processed it
				sock.SendEnvelope(a.ID, "unsubscribe", nil)
				if !barrier() {
					return res, "no-echo", fmt.Errorf("no echo reply after unsubscribe")
				}
				st.mu.Lock()
				ended[ls.owner] = -1
				st.mu.Unlock()
				feats["unsubscribe"] = true
			} else {
				sock.SendEnvelope(a.ID, "unsubscribe", nil)
				if !barrier() {
					return res, "no-echo", fmt.Errorf("no echo reply after unsubscribe of unknown id")
				}
			}
			markEnded(a.ID)
		case "write":
			before := map[string]string{}
			for id, ls := range live {
				before[id] = refResult(&spec, c.Queries[ls.q])
			}
			st.Write(a.Typ, a.Eid)
			for id, ls := range live {
				if refResult(&spec, c.Queries[ls.q]) != before[id] {
					feats["write-changes-live"] = true
				}
			}
		case "mutate":
			nMut++
			id := a.ID
			if _, isLive := live[id]; isLive {
				feats["mutate-collides"] = true
			}
			allowedThisSeg["error:"+id] = true
			lg.mark("M:" + id)
			_, idLive := live[id]
			nLiveBefore := len(live)
			mtext := fmt.Sprintf(`mutation { bump(typ: %q, id: %d) }`, a.Typ, a.Eid)
			if a.Fail != "" {
				mtext = fmt.Sprintf(`mutation { bumpErr(kind: %q) }`, a.Fail)
				feats["mutate-fails"] = true
			}
			mOut0 := sock.NOut()
			sock.SendEnvelope(id, "mutate", map[string]interface{}{"query": mtext, "variables": map[string]interface{}{}})
			if !barrier() {
				return res, "no-echo", fmt.Errorf("no echo reply after mutate")
			}
			if !sock.WaitFor(10*time.Second, func(outs []fakesock.Out) bool {
				for _, o := range outs[mOut0:] {
					if o.ID == id && (o.Type == "result" || (o.Type == "error")) {
						return true
					}
				}
				return false
			}) {
				return res, "mutate-no-result", fmt.Errorf("mutation %q got no result", id)
			}
			feats["mutate"] = true
			// A mutation that has been answered is over: its id is free again. Unless the frame
			// was refused (id of a live subscription, limit reached) or failures make the set of
			// live subscriptions uncertain, a subscribe with that id must be accepted - at the
			// latest a moment later (the server lets go of the id right after the answer).
			refused := false
			for _, o := range sock.Outs()[mOut0:] {
				if m, _ := o.Msg.(string); o.ID == id && o.Type == "error" && (m == "duplicate subscription" || m == "too many subscriptions") {
					refused = true
				}
			}
			if !idLive && !refused && nLiveBefore < c.MaxSubs && len(uncertain) == 0 && !feats["failures"] {
				allowedThisSeg[id] = true
				accepted := false
				for try := 0; try < 300 && !accepted; try++ {
					p0 := sock.NOut()
					sock.SendEnvelope(id, "subscribe", map[string]interface{}{"query": "{ __typename }", "variables": map[string]interface{}{}})
					if !barrier() {
						return res, "no-echo", fmt.Errorf("no echo reply after the subscribe that follows mutation %q", id)
					}
					rej := false
					for _, o := range sock.Outs()[p0:] {
						if m, _ := o.Msg.(string); o.ID == id && o.Type == "error" && (m == "duplicate subscription" || m == "too many subscriptions") {
							rej = true
						}
					}
					if !rej {
						accepted = true
					} else {
						time.Sleep(10 * time.Millisecond)
					}
				}
				if !accepted {
					return res, "mutation-id-not-released", fmt.Errorf("mutation %q (%s) was answered, nothing else uses its id and %d of %d subscriptions are live, yet for 3s every subscribe with that id was refused: %s", id, mtext, nLiveBefore, c.MaxSubs, dump(sock.Outs()[mOut0:]))
				}
				sock.SendEnvelope(id, "unsubscribe", nil)
				if !barrier() {
					return res, "no-echo", fmt.Errorf("no echo reply after unsubscribing the probe of mutation %q", id)
				}
				feats["mutation-id-probe"] = true
			}
		case "mutate-abandon":
			// The client starts a slow mutation, gives it up at once (unsubscribe of its id)
			// and uses the id for a subscription, all before reading anything: three frames
			// back to back. Whatever becomes of the mutation (answered or not, applied or
			// not), the subscription is an accepted subscription like any other.
			id := a.ID
			if _, isLive := live[id]; isLive || len(live) >= c.MaxSubs {
				break
			}
			atomic.StoreInt64(&st.slowMutateUs, int64(a.Us))
			allowedThisSeg["error:"+id] = true
			lg.mark("M:" + id)
			if client.Has[id] {
				feats["id-reuse"] = true
			}
			delete(client.State, id)
			delete(client.Has, id)
			live[id] = &liveSub{q: a.Q % len(c.Queries), owner: id, since: seg}
			q := c.Queries[a.Q%len(c.Queries)]
			vals, _ := json.Marshal(q.Values)
			var vm map[string]interface{}
			json.Unmarshal(vals, &vm)
			sock.SendEnvelope(id, "mutate", map[string]interface{}{"query": fmt.Sprintf(`mutation { bump(typ: %q, id: %d) }`, a.Typ, a.Eid), "variables": map[string]interface{}{}})
			sock.SendEnvelope(id, "unsubscribe", nil)
			sock.SendEnvelope(id, "subscribe", map[string]interface{}{"query": c.Texts[a.Q%len(c.Texts)], "variables": vm})
			ok := barrier()
			atomic.StoreInt64(&st.slowMutateUs, 0)
			if !ok {
				return res, "no-echo", fmt.Errorf("no echo reply after mutate, unsubscribe, subscribe with id %q", id)
			}
			feats["mutate-abandoned"] = true
		case "echo":
			if !barrier() {
				return res, "no-echo", fmt.Errorf("no echo reply")
			}
		case "pause":
			time.Sleep(time.Duration(a.Us) * time.Microsecond)
		case "failnext":
			st.mu.Lock()
			st.failNext = a.N
			st.mu.Unlock()
			for id := range live {
				uncertain[id] = true
			}
			feats["failures"] = true
		case "malformed-message":
			allowedThisSeg["error:"+a.ID] = true
			if a.Typ == "unsubscribe" {
				// the payload of an unsubscribe frame is not looked at: this is an unsubscribe
				if ls, ok := live[a.ID]; ok {
					delete(live, a.ID)
					allowedThisSeg[a.ID] = true
					st.mu.Lock()
					ended[ls.owner] = -1
					st.mu.Unlock()
				}
			}
			sock.Send([]byte(fmt.Sprintf(`{"id":%q,"type":%q,"message":%s}`, a.ID, a.Typ, a.Raw)))
			if !barrier() {
				return res, "no-echo", fmt.Errorf("connection stopped answering after a malformed %s message %s", a.Typ, a.Raw)
			}
			if a.Typ == "unsubscribe" {
				markEnded(a.ID)
			}
			feats["malformed"] = true
		case "partial-frame":
			// a frame that leaves out "id" and/or "type": the missing member is empty, it must
			// not be taken from an earlier frame
			allowedThisSeg["error:"+a.ID] = true
			allowedThisSeg["error:"] = true
			// directly behind a complete frame that names the id (an echo: no effect of its own)
			sock.SendEnvelope(a.ID, "echo", map[string]interface{}{"query": "{ __typename }", "variables": map[string]interface{}{}})
			sock.Send([]byte(a.Raw))
			if !barrier() {
				return res, "no-echo", fmt.Errorf("connection stopped answering after the partial frame %s", a.Raw)
			}
			feats["partial-frame"] = true
		case "unknown-type":
			allowedThisSeg["error:"+a.ID] = true
			sock.SendEnvelope(a.ID, a.Typ, nil)
			if !barrier() {
				return res, "no-echo", fmt.Errorf("connection stopped answering after unknown message type")
			}
		case "cancel":
			cancel()
			feats["cancel"] = true
			time.Sleep(time.Millisecond)
			sock.Close()
			closed = true
		case "close":
			sock.Close()
			closed = true
			feats["close"] = true
		case "writefault":
			// The socket cannot encode the next update it is handed (WriteJSON returns a JSON
			// encoding error for it and writes nothing), then the data changes once more. The
			// client has then missed an update: the only way to keep "the client holds the
			// result" is to end the connection (what thunder does); it may not carry on as if
			// the update had been delivered. Last action of a history.
			sock.FailNextUpdate(&json.UnsupportedValueError{Str: "NaN"})
			st.Write(a.Typ, a.Eid)
			feats["write-fault-armed"] = true
			for i := 0; i < 40 && !sock.Closed() && sock.Failed() == 0; i++ {
				time.Sleep(time.Millisecond)
			}
			if sock.Failed() > 0 {
				feats["write-fault"] = true
				// give the server a moment to end the connection
				for i := 0; i < 500 && !sock.Closed(); i++ {
					time.Sleep(time.Millisecond)
				}
			}
			if sock.Closed() {
				closed = true
			}
		}
		if s, e := consume(); e != nil {
			return res, s, e
		}
		if e := checkEnded(); e != nil {
			return res, "runs-after-unsubscribe", e
		}
		if c.Lifecycle {
			evs := lg.snapshot()
			if err := checkLogger(evs); err != nil {
				return res, "logger-sequence", err
			}
			open, maxOpen := openIDs(evs)
			if maxOpen > c.MaxSubs {
				return res, "max-subs", fmt.Errorf("%d subscriptions were live at once (max %d): %v", maxOpen, c.MaxSubs, evs)
			}
			for id := range live {
				if !open[id] {
					// ended by its own failure (observed through the logger): only possible
					// once a failure has been injected
					if !feats["failures"] && !closed {
						return res, "spontaneous-end", fmt.Errorf("subscription %q ended (Unsubscribe logged) although it was not unsubscribed, no resolver failed and the connection is open: %v", id, evs)
					}
					delete(live, id)
					delete(uncertain, id)
					delete(client.State, id)
					delete(client.Has, id)
				}
			}
		}
		res.Trace = append(res.Trace, a.Kind)
	}
	_ = closedAt

	// ---------- quiescence / convergence (C02 d) ----------
	if !closed {
		// failures pending would make re-computations retry forever with failNext>0: clear
		st.mu.Lock()
		st.failNext = 0
		st.mu.Unlock()
		deadline := time.Now().Add(5 * time.Second)
		var last error
		for {
			last = nil
			allowedThisSeg = map[string]bool{}
			if s, e := consume(); e != nil {
				return res, s, e
			}
			if c.Lifecycle {
				open, _ := openIDs(lg.snapshot())
				for id := range live {
					if !open[id] {
						delete(live, id) // ended by its own failure
					}
				}
			}
			for id, ls := range live {
				want := refResult(&spec, c.Queries[ls.q])
				if !client.Has[id] {
					last = fmt.Errorf("subscription %q never received its first update", id)
					continue
				}
				if got := jv.Canon(client.State[id]); got != want {
					last = fmt.Errorf("subscription %q: client state after applying every update\n  %s\ndiffers from the query result on the final data\n  %s\nquery:\n%s", id, got, want, c.Texts[ls.q])
				}
			}
			if feats["write-fault-armed"] && sock.Closed() {
				// the refused update came late: the server has ended the connection
				last, closed = nil, true
				break
			}
			if last == nil || time.Now().After(deadline) {
				break
			}
			time.Sleep(500 * time.Microsecond)
		}
		if last != nil {
			return res, "not-converged", last
		}
	}

	// ---------- lifecycle (C17) ----------
	if c.Lifecycle {
		if !closed {
			sock.Close()
			closed = true
		}
		select {
		case <-served:
		case <-time.After(ev.Patience(10 * time.Second)):
			return res, "serve-hangs", fmt.Errorf("ServeJSONSocket does not return within 10s after the socket closed: the connection does not wind down")
		}
		// everything must wind down: no resolver runs, no envelopes, resources released,
		// every Subscribe has its Unsubscribe
		settle := func() (map[string]int, int) {
			st.mu.Lock()
			defer st.mu.Unlock()
			cp := map[string]int{}
			for k, v := range st.calls {
				cp[k] = v
			}
			return cp, st.ncalls
		}
		// ServeJSONSocket has returned: every rerunner's Stop has returned, no run is in progress
		c1, n1 := settle()
		nout1 := sock.NOut()
		time.Sleep(15 * time.Millisecond)
		c2, n2 := settle()
		if e := checkEnded(); e != nil {
			return res, "runs-after-unsubscribe", e
		}
		if n2 != n1 {
			var who []string
			for k, v := range c2 {
				if v != c1[k] {
					who = append(who, k)
				}
			}
			sort.Strings(who)
			return res, "runs-after-close", fmt.Errorf("resolvers of subscriptions %v still run after the connection closed (%d -> %d calls)", who, n1, n2)
		}
		if sock.NOut() != nout1 {
			return res, "writes-after-close", fmt.Errorf("envelopes are still written after the connection closed")
		}
		evs := lg.snapshot()
		if err := checkLogger(evs); err != nil {
			return res, "logger-sequence", err
		}
		open := map[string]int{}
		for _, e := range evs {
			switch e[0] {
			case 'S':
				open[e[2:]]++
			case 'U':
				if open[e[2:]] > 0 {
					open[e[2:]]--
				}
			}
		}
		for id, n := range open {
			if n > 0 {
				return res, "missing-unsubscribe", fmt.Errorf("subscription %q was logged with Subscribe but never with Unsubscribe although the connection is closed: %v", id, evs)
			}
		}
		deadline := time.Now().Add(3 * time.Second)
		for {
			leaked := ""
			st.mu.Lock()
			for _, w := range st.all {
				cl := atomic.LoadInt32(&w.cleaned)
				if cl > 1 {
					leaked = fmt.Sprintf("resource of %s on %s cleaned up %d times", w.owner, w.key, cl)
				} else if cl == 0 {
					leaked = fmt.Sprintf("resource registered by subscription %s on %s was never released", w.owner, w.key)
				}
			}
			st.mu.Unlock()
			if leaked == "" {
				break
			}
			if time.Now().After(deadline) {
				return res, "resource-leak", errors.New(leaked)
			}
			time.Sleep(time.Millisecond)
		}
	}
	if atomic.LoadInt32(&st.WriteDuringRun) > 0 {
		feats["write-during-recompute"] = true
	}
	if atomic.LoadInt32(&st.SlowCalls) > 0 {
		feats["slow-resolver"] = true
	}
	for k, v := range feats {
		if v {
			res.Labels = append(res.Labels, k)
		}
	}
	sort.Strings(res.Labels)
	if c.Lifecycle {
		res.Nontrivial = feats["mutate-collides"] || feats["id-reuse-live"] || feats["failures"] || feats["close"] || feats["cancel"]
	} else {
		res.Nontrivial = feats["write-changes-live"] && (feats["write-during-recompute"] || feats["unsubscribe"] || feats["id-reuse"] || feats["mutate"])
	}
	return res, "", nil
}

func refResult(spec *world.Spec, q *world.Query) string {
	r := &world.Ref{S: spec, Q: q}
	return jv.Canon(jv.StripKeyRef(mustTree(r.Eval())))
}

func mustTree(x interface{}) interface{} {
	b, _ := json.Marshal(x)
	var y interface{}
	json.Unmarshal(b, &y)
	return y
}

// ---------- generation ----------

var entTypes = []string{"Query", "O1", "O2", "O3", "O4"}

func Gen(t *rapid.T, lifecycle bool) Case {
	s := world.GenSpec(t)
	s.Intern = rapid.Bool().Draw(t, "intern")
	c := Case{Spec: s, Lifecycle: lifecycle, Sched: rapid.SampledFrom(sched.Names).Draw(t, "sched")}
	c.Modes = world.Modes{}
	for _, o := range s.Objects {
		for _, f := range o.Fields {
			kinds := []string{"plain", "expensive", "batch"}
			if o.Type == "Query" {
				kinds = []string{"plain", "expensive"}
			}
			c.Modes[o.Type+"."+f.Name] = world.Mode{Kind: rapid.SampledFrom(kinds).Draw(t, "mode"), Ctx: true, K: -100}
		}
	}
	nq := rapid.IntRange(1, 3).Draw(t, "nqueries")
	for i := 0; i < nq; i++ {
		q, _ := world.GenQuery(t, s, world.GenOpts{MaxDepth: 3})
		c.Queries = append(c.Queries, q)
		c.Texts = append(c.Texts, q.Text())
	}
	c.MaxSubs = 10
	if rapid.IntRange(0, 2).Draw(t, "hasconnopts") == 0 {
		c.ConnOpts = rapid.IntRange(1, 15).Draw(t, "connopts")
	}
	ids := []string{"a", "b", "c", "d"}
	if lifecycle {
		c.MaxSubs = rapid.IntRange(1, 3).Draw(t, "maxsubs")
		ids = []string{"a", "b", "c"}
		c.HoldUs = rapid.SampledFrom([]int{0, 0, 300, 3000}).Draw(t, "holdus")
	}
	ent := func() (string, int64) {
		typ := rapid.SampledFrom(entTypes).Draw(t, "etyp")
		if typ == "Query" {
			return typ, 0
		}
		return typ, int64(rapid.IntRange(0, s.NIds-1).Draw(t, "eid"))
	}
	n := rapid.IntRange(4, 30).Draw(t, "nactions")
	kinds := []string{"subscribe", "subscribe", "subscribe", "unsubscribe", "write", "write", "write", "write", "write", "mutate", "echo", "pause", "partial-frame"}
	if !lifecycle {
		kinds = append(kinds, "mutate-abandon")
	}
	if lifecycle {
		kinds = append(kinds, "failnext", "malformed-message", "unknown-type", "close", "cancel", "mutate", "subscribe")
	}
	for i := 0; i < n; i++ {
		a := Action{Kind: rapid.SampledFrom(kinds).Draw(t, "kind")}
		if i == 0 {
			a.Kind = "subscribe"
		}
		switch a.Kind {
		case "subscribe", "unsubscribe":
			a.ID = rapid.SampledFrom(ids).Draw(t, "id")
			a.Q = rapid.IntRange(0, nq-1).Draw(t, "q")
			if a.Kind == "unsubscribe" && rapid.Bool().Draw(t, "resub") {
				// unsubscribe directly followed by a new subscription with the same id
				c.Actions = append(c.Actions, a)
				a = Action{Kind: "subscribe", ID: a.ID, Q: rapid.IntRange(0, nq-1).Draw(t, "q")}
			}
		case "write":
			a.Typ, a.Eid = ent()
		case "mutate":
			if lifecycle {
				a.ID = rapid.SampledFrom(append([]string{"m"}, ids...)).Draw(t, "mid")
			} else {
				a.ID = fmt.Sprintf("m%d", i)
			}
			a.Typ, a.Eid = ent()
			a.Fail = rapid.SampledFrom([]string{"", "", "", "canceled", "wrapped", "plain", "safe", "panic"}).Draw(t, "mfail")
		case "mutate-abandon":
			a.ID = rapid.SampledFrom(ids).Draw(t, "id")
			a.Q = rapid.IntRange(0, nq-1).Draw(t, "q")
			a.Typ, a.Eid = ent()
			a.Us = rapid.SampledFrom([]int{300, 2000, 20000}).Draw(t, "us")
		case "pause":
			a.Us = rapid.SampledFrom([]int{0, 100, 500, 2000}).Draw(t, "us")
		case "failnext":
			a.N = rapid.IntRange(1, 3).Draw(t, "n")
			if rapid.Bool().Draw(t, "failfollow") {
				// a subscription that fails at once, and the client reacting to the same id (or
				// going away) while the failed run may still be in flight
				id := rapid.SampledFrom(ids).Draw(t, "id")
				c.Actions = append(c.Actions, a, Action{Kind: "subscribe", ID: id, Q: rapid.IntRange(0, nq-1).Draw(t, "q")})
				a = Action{Kind: rapid.SampledFrom([]string{"unsubscribe", "unsubscribe", "subscribe", "close", "mutate"}).Draw(t, "follow"), ID: id, Q: rapid.IntRange(0, nq-1).Draw(t, "q")}
				if a.Kind == "mutate" {
					a.Typ, a.Eid = ent()
				}
			}
		case "malformed-message":
			a.ID = rapid.SampledFrom(ids).Draw(t, "id")
			a.Typ = rapid.SampledFrom([]string{"subscribe", "mutate", "url", "unsubscribe"}).Draw(t, "mtyp")
			a.Raw = rapid.SampledFrom([]string{`"x"`, `5`, `[]`, `{"query": 5}`, `{"query": "{", "variables": {}}`, `{"query": "{ nope }"}`, `null`, `{"query":"{ __typename }","variables":[1]}`}).Draw(t, "raw")
		case "partial-frame":
			a.ID = rapid.SampledFrom(ids).Draw(t, "id")
			a.Raw = strings.Replace(rapid.SampledFrom([]string{`{"type":"unsubscribe"}`, `{"id":"ID"}`, `{}`, `{"message":{"query":"{ __typename }"}}`, `{"type":"unsubscribe","message":null}`, `{"id":"ID","message":5}`}).Draw(t, "partial"), "ID", a.ID, 1)
		case "unknown-type":
			a.ID = rapid.SampledFrom(ids).Draw(t, "id")
			a.Typ = rapid.SampledFrom([]string{"", "ping", "SUBSCRIBE"}).Draw(t, "utyp")
		case "close", "cancel":
			if rapid.IntRange(0, 2).Draw(t, "really") > 0 {
				a.Kind = "pause"
			}
		}
		c.Actions = append(c.Actions, a)
	}
	if !lifecycle && rapid.IntRange(0, 3).Draw(t, "writefault") == 0 {
		typ, id := ent()
		c.Actions = append(c.Actions, Action{Kind: "writefault", Typ: typ, Eid: id})
	}
	for i := 0; i < rapid.IntRange(0, 4).Draw(t, "ntriggers"); i++ {
		typ, id := ent()
		tr := Trigger{Call: rapid.IntRange(1, 200).Draw(t, "call"), Typ: typ, Eid: id}
		if rapid.IntRange(0, 2).Draw(t, "slow") == 0 {
			// a slow resolver call early in the history: the next frames meet a run in flight
			tr.Call = rapid.IntRange(1, 12).Draw(t, "slowcall")
			tr.SlowUs = rapid.SampledFrom([]int{500, 2000}).Draw(t, "slowus")
			if rapid.Bool().Draw(t, "slowonly") {
				tr.Typ = ""
			}
		}
		c.Triggers = append(c.Triggers, tr)
	}
	c.CloserDelayUs = rapid.SampledFrom([]int{0, 0, 0, 200, 1500}).Draw(t, "closerdelay")
	c.RerunDelayUs = rapid.SampledFrom([]int{0, 0, 0, 300, 2000}).Draw(t, "rerundelay")
	return c
}
