package c01

import (
	"context"
	"encoding/json"
	"fmt"
	"os"
	"sort"
	"strings"
	"testing"

	"pgregory.net/rapid"

	"verifharness/ev"
	jv "verifharness/jsonval"
	"verifharness/sched"
	"verifharness/world"
)

var rec = ev.New("C01",
	"cases: generated schema spec (field funcs over a pool of Go types) x generated valid query AST x 3-6 (per-field mode assignment, scheduler, fallback flag, in-rerunner, resolver yields) combinations; oracle = reference interpreter + all combinations agree; non-trivial = a batch invocation with >=2 sources, or a split (K>=2) field invoked >=2 times, or an expensive field on >=2 objects, or a merged alias with sub-selections, or a fragment spread >=2 times, or a union field, and the result contains a null object or empty list or keyed object; distinct = hash of (spec, query text)",
	"same response key implies same field and arguments (thunder rejects the rest in validation)",
	"fragments under an object parent carry the parent's own type",
	"every union member is covered by a fragment in the main generator; uncovered members / fragments typed on the union are separate, separately counted sub-generators",
	"ints < 2^53, no NaN")

func TestMain(m *testing.M) { code := m.Run(); rec.Flush(); os.Exit(code) }

type Combo struct {
	Modes      world.Modes `json:"modes"`
	Sched      string      `json:"sched"`
	SchedSeed  int64       `json:"sched_seed"`
	Fallback   bool        `json:"fallback"`
	InRerunner bool        `json:"in_rerunner"`
	Perturb    int         `json:"perturb"`
	PSeed      uint64      `json:"pseed"`
}

type Case struct {
	Spec   *world.Spec  `json:"spec"`
	Query  *world.Query `json:"query"`
	Combos []Combo      `json:"combos"`
	Text   string       `json:"text"`
}

func genModes(t *rapid.T, s *world.Spec) world.Modes {
	m := world.Modes{}
	for _, o := range s.Objects {
		for _, f := range o.Fields {
			kinds := []string{"plain", "plain", "expensive", "batch", "batch", "batchfb"}
			if o.Type == "Query" {
				kinds = []string{"plain", "expensive"}
			}
			md := world.Mode{Kind: rapid.SampledFrom(kinds).Draw(t, "mode"), Ctx: rapid.Bool().Draw(t, "ctx")}
			md.K = rapid.SampledFrom([]int{-100, -100, -1, 0, 1, 2, 3, 1000, 1005}).Draw(t, "k")
			if md.Kind == "batchfb" {
				md.Ctx = true // the flag function needs a context to be meaningful; signature must match fallback
			}
			m[o.Type+"."+f.Name] = md
		}
	}
	return m
}

func genCase(t *rapid.T, o world.GenOpts) (Case, world.Features) {
	s := world.GenSpec(t)
	q, feat := world.GenQuery(t, s, o)
	c := Case{Spec: s, Query: q, Text: q.Text()}
	n := rapid.IntRange(3, 6).Draw(t, "ncombos")
	for i := 0; i < n; i++ {
		c.Combos = append(c.Combos, Combo{
			Modes:      genModes(t, s),
			Sched:      rapid.SampledFrom(sched.Names).Draw(t, "sched"),
			SchedSeed:  int64(rapid.IntRange(0, 1<<20).Draw(t, "schedseed")),
			Fallback:   rapid.Bool().Draw(t, "fallback"),
			InRerunner: rapid.Bool().Draw(t, "rerunner"),
			Perturb:    rapid.IntRange(0, 2).Draw(t, "perturb"),
			PSeed:      uint64(rapid.IntRange(0, 1<<20).Draw(t, "pseed")),
		})
	}
	return c, feat
}

type outcome struct {
	stats  *world.Stats
	hasNull, hasEmpty, hasKey bool
}

func scan(x interface{}, o *outcome) {
	switch x := x.(type) {
	case map[string]interface{}:
		if _, ok := x["__key"]; ok {
			o.hasKey = true
		}
		for _, v := range x {
			if v == nil {
				o.hasNull = true
			}
			scan(v, o)
		}
	case []interface{}:
		if len(x) == 0 {
			o.hasEmpty = true
		}
		for _, v := range x {
			if v == nil {
				o.hasNull = true
			}
			scan(v, o)
		}
	}
}

// check runs the oracles. sig is a short signature of the failure class.
func check(c Case) (out outcome, sig string, err error) {
	ref := &world.Ref{S: c.Spec, Q: c.Query}
	want := jv.Canon(ref.Eval())
	var wantTree interface{}
	json.Unmarshal([]byte(want), &wantTree)
	scan(wantTree, &out)
	text := c.Query.Text()
	agg := world.NewStats()
	for i, cb := range c.Combos {
		b, err := world.Bind(c.Spec, cb.Modes)
		if err != nil {
			return out, "harness-bind", fmt.Errorf("harness: schema for combo %d does not build: %v", i, err)
		}
		st := world.NewStats()
		b.Env.Set(st, &world.Perturb{Seed: cb.PSeed, Level: cb.Perturb})
		ctx := world.WithFallback(context.Background(), cb.Fallback)
		res, err := b.Run(ctx, text, copyVals(c.Query.Values), sched.New(cb.Sched, cb.SchedSeed), cb.InRerunner)
		if err != nil {
			return out, "exec-error", fmt.Errorf("combo %d (%s, rerunner=%v): valid query failed: %v\nquery:\n%s", i, cb.Sched, cb.InRerunner, err, text)
		}
		got := jv.Canon(res)
		if got != want {
			return out, "mismatch", fmt.Errorf("combo %d (%s, rerunner=%v, fallback=%v):\n got  %s\n want %s\nquery:\n%s", i, cb.Sched, cb.InRerunner, cb.Fallback, got, want, text)
		}
		agg.BatchMulti += st.BatchMulti
		agg.SplitMulti += st.SplitMulti
		agg.BatchCalls += st.BatchCalls
		agg.FallbackCalls += st.FallbackCalls
		for k, v := range st.ExpensiveObjs {
			if v > agg.ExpensiveObjs[k] {
				agg.ExpensiveObjs[k] = v
			}
		}
	}
	out.stats = agg
	return out, "", nil
}

func copyVals(m map[string]interface{}) map[string]interface{} {
	// through JSON, as the HTTP handler receives them
	b, _ := json.Marshal(m)
	var out map[string]interface{}
	json.Unmarshal(b, &out)
	if out == nil {
		out = map[string]interface{}{}
	}
	return out
}

func record(c Case, f world.Features, o outcome) {
	exp2 := false
	for _, v := range o.stats.ExpensiveObjs {
		if v >= 2 {
			exp2 = true
		}
	}
	cls := map[string]bool{
		"batch>=2src": o.stats.BatchMulti > 0, "split>=2": o.stats.SplitMulti > 0, "expensive>=2obj": exp2,
		"merged-alias": f.MergedAlias > 0, "spread-twice": f.SpreadTwice > 0, "union": f.UnionFields > 0,
		"dup-union-frag": f.DupUnionFrag > 0, "frag-on-union": f.FragOnUnion > 0, "uncovered-member": f.UncoveredMember > 0,
		"union-typename": f.UnionTypename > 0, "null": o.hasNull, "empty-list": o.hasEmpty, "keyed": o.hasKey,
		"fallback-used": o.stats.FallbackCalls > 0, "named-frags": f.NamedFrags > 0, "vars": len(c.Query.Vars) > 0,
	}
	exec := cls["batch>=2src"] || cls["split>=2"] || cls["expensive>=2obj"] || cls["merged-alias"] || cls["spread-twice"] || cls["union"]
	shape := o.hasNull || o.hasEmpty || o.hasKey
	var labels []string
	for k, v := range cls {
		if v {
			labels = append(labels, k)
		}
	}
	sort.Strings(labels)
	sb, _ := json.Marshal(c.Spec)
	rec.Case(string(sb)+c.Text, exec && shape, labels...)
	if exec && shape {
		rec.Sample(strings.Join(labels, "+"), map[string]interface{}{"query": c.Text, "vars": c.Query.Values, "combos": len(c.Combos), "spec_objects": c.Spec.Objects})
	}
}

func run(t interface{ Fatalf(string, ...interface{}) }, test string, c Case, f world.Features) {
	o, sig, err := check(c)
	if err != nil {
		p := rec.Violate(test, c, sig+": "+err.Error())
		t.Fatalf("%s: %v (replay %s)", sig, err, p)
	}
	record(c, f, o)
}

func TestMain_(t *testing.T) {}

func TestExec(t *testing.T) {
	rapid.Check(t, func(t *rapid.T) {
		c, f := genCase(t, world.GenOpts{})
		run(t, "TestExec", c, f)
	})
}

func TestReplay(t *testing.T) {
	p := os.Getenv("VERIF_REPLAY")
	if p == "" {
		t.Skip("no VERIF_REPLAY")
	}
	var c Case
	if _, err := ev.LoadReplay(p, &c); err != nil {
		t.Fatalf("harness: cannot load replay: %v", err)
	}
	for i := 0; i < 5; i++ {
		run(t, "TestReplay", c, world.Features{})
	}
}

// TestExecUnionEdge is the separately counted sub-generator: union members without any
// applicable fragment and fragments typed on the union itself.
func TestExecUnionEdge(t *testing.T) {
	rapid.Check(t, func(t *rapid.T) {
		c, f := genCase(t, world.GenOpts{FragOnUnion: true, UncoveredUnion: true})
		run(t, "TestExecUnionEdge", c, f)
	})
}

// TestExecSharedFragments biases the query generator towards named fragments that are spread
// at several places, each spread followed by a fragment that selects one of the fragment's
// composite fields again (a merged copy built on top of a selection set all spreads share).
func TestExecSharedFragments(t *testing.T) {
	rapid.Check(t, func(t *rapid.T) {
		c, f := genCase(t, world.GenOpts{ShareBias: true})
		if rapid.Bool().Draw(t, "structural") {
			if q := world.GenSharedFragQuery(t, c.Spec); q != nil {
				c.Query, c.Text = q, q.Text()
				f = world.Features{SpreadTwice: 1, MergedAlias: 1, NamedFrags: 1}
			}
		}
		run(t, "TestExecSharedFragments", c, f)
	})
}

// TestExecDirectives: the same differential check over queries that carry @skip / @include
// (literal and variable conditions, on fields, inline fragments, spreads and fragments typed
// on the union): what is excluded is not resolved and not answered, in every mode.
func TestExecDirectives(t *testing.T) {
	rapid.Check(t, func(t *rapid.T) {
		c, f := genCase(t, world.GenOpts{Directives: true, FragOnUnion: true})
		run(t, "TestExecDirectives", c, f)
	})
}

func defaultCombos(s *world.Spec) []Combo {
	var out []Combo
	for i, sc := range sched.Names {
		m := world.Modes{}
		kinds := []string{"plain", "expensive", "batch", "batchfb"}
		for _, o := range s.Objects {
			for j, f := range o.Fields {
				k := kinds[(i+j)%len(kinds)]
				if o.Type == "Query" {
					k = kinds[(i+j)%2]
				}
				m[o.Type+"."+f.Name] = world.Mode{Kind: k, Ctx: true, K: []int{-100, 2, 1000, 0}[(i+j)%4]}
			}
		}
		out = append(out, Combo{Modes: m, Sched: sc, SchedSeed: int64(i), Fallback: i%2 == 0, InRerunner: i%3 == 0, Perturb: i % 3, PSeed: uint64(i)})
	}
	return out
}

// TestPinned re-checks the minimal inputs of findings that were repaired in /repo.
func TestPinned(t *testing.T) {
	F, I, S := world.Fld, world.Inl, world.Spr
	s := world.BaseSpec()
	qs := []*world.Query{
		// two fragments for one union member (fixed 759d0a6)
		{Sels: []world.Sel{F("allU1", I("O1", F("id")), I("O1", F("name")), I("O2", F("label")), I("O2", F("ok")))}},
		// union-level __typename with a shared named fragment used elsewhere (fixed 759d0a6)
		{Sels: []world.Sel{F("allU1", F("__typename"), S("FA"), I("O2", F("label"))), F("allO1", S("FA"))},
			Frags: []world.FragDef{{Name: "FA", On: "O1", Sels: []world.Sel{F("name")}}}},
		// member without any applicable fragment is an (empty) object, not null
		{Sels: []world.Sel{F("allU1", I("O2", F("label")))}},
		// root __typename (fixed 61731e1)
		{Sels: []world.Sel{F("__typename"), F("allO2", F("id"))}},
		// fragment typed on the union itself (fixed 1de8b35)
		{Sels: []world.Sel{F("allU1", I("U1", I("O1", F("id")), F("__typename")), I("O2", F("label")))}},
		// same alias merged from direct selection and fragment, nested lists, nil objects
		{Sels: []world.Sel{F("allO1", F("f1", F("id")), I("O1", F("f1", F("label"), F("f2", F("title")))), F("f2", F("sub", F("a"))))}},
	}
	for i, q := range qs {
		c := Case{Spec: s, Query: q, Text: q.Text(), Combos: defaultCombos(s)}
		run(t, fmt.Sprintf("TestPinned-%d", i), c, world.Features{UnionFields: 1})
	}
}
