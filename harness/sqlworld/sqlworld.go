// Package sqlworld holds the pool of sqlgen table structs and generators of row values
// used by the SQL properties (C07, C10, C12, C13).
package sqlworld

import (
	"database/sql/driver"
	"encoding/json"
	"fmt"
	"reflect"
	"time"

	"github.com/samsarahq/thunder/sqlgen"
	"github.com/samsarahq/thunder/thunderpb"
	"pgregory.net/rapid"
)

type Named string
type NamedInt int32

type Custom struct {
	A string
	B int
}

type TextT struct{ V string }

func (t TextT) MarshalText() ([]byte, error) { return []byte("t:" + t.V), nil }
func (t *TextT) UnmarshalText(b []byte) error {
	if len(b) < 2 || string(b[:2]) != "t:" {
		return fmt.Errorf("bad TextT %q", b)
	}
	t.V = string(b[2:])
	return nil
}

// ScanT brings its own SQL representation: driver.Valuer on the value, sql.Scanner on the
// pointer (what database/sql itself would use); no tag.
type ScanT struct{ V string }

func (s ScanT) Value() (driver.Value, error) { return []byte("sc:" + s.V), nil }
func (s *ScanT) Scan(src interface{}) error {
	var b []byte
	switch x := src.(type) {
	case []byte:
		b = x
	case string:
		b = []byte(x)
	case nil:
		*s = ScanT{}
		return nil
	default:
		return fmt.Errorf("bad ScanT source %T", src)
	}
	if len(b) < 3 || string(b[:3]) != "sc:" {
		return fmt.Errorf("bad ScanT %q", b)
	}
	s.V = string(b[3:])
	return nil
}

// BinOnlyT only offers encoding.BinaryMarshaler / BinaryUnmarshaler.
type BinOnlyT struct{ V uint16 }

func (b BinOnlyT) MarshalBinary() ([]byte, error) {
	return []byte{0x6f, byte(b.V >> 8), byte(b.V)}, nil
}
func (b *BinOnlyT) UnmarshalBinary(x []byte) error {
	if len(x) != 3 || x[0] != 0x6f {
		return fmt.Errorf("bad BinOnlyT %x", x)
	}
	b.V = uint16(x[1])<<8 | uint16(x[2])
	return nil
}

// JsonT has its own JSON form.
type JsonT struct{ A, B int }

func (j JsonT) MarshalJSON() ([]byte, error) { return []byte(fmt.Sprintf("[%d,%d]", j.A, j.B)), nil }
func (j *JsonT) UnmarshalJSON(b []byte) error {
	var x []int
	if err := json.Unmarshal(b, &x); err != nil || len(x) != 2 {
		return fmt.Errorf("bad JsonT %q", b)
	}
	j.A, j.B = x[0], x[1]
	return nil
}

type BinT struct{ V []byte }

func (b BinT) Marshal() ([]byte, error) { return append([]byte{0x42}, b.V...), nil }
func (b *BinT) Unmarshal(x []byte) error {
	if len(x) < 1 || x[0] != 0x42 {
		return fmt.Errorf("bad BinT")
	}
	b.V = append([]byte{}, x[1:]...)
	return nil
}

// BothT offers two serialisations: Marshal/Unmarshal (what a binary-tagged column uses) and
// encoding.BinaryMarshaler/Unmarshaler with another byte layout.
type BothT struct{ V uint32 }

func (b BothT) Marshal() ([]byte, error) {
	return []byte{0x62, byte(b.V >> 24), byte(b.V >> 16), byte(b.V >> 8), byte(b.V)}, nil
}
func (b *BothT) Unmarshal(x []byte) error {
	if len(x) != 5 || x[0] != 0x62 {
		return fmt.Errorf("bad BothT %x", x)
	}
	b.V = uint32(x[1])<<24 | uint32(x[2])<<16 | uint32(x[3])<<8 | uint32(x[4])
	return nil
}
func (b BothT) MarshalBinary() ([]byte, error) {
	return []byte{0x6c, byte(b.V), byte(b.V >> 8), byte(b.V >> 16), byte(b.V >> 24)}, nil
}
func (b *BothT) UnmarshalBinary(x []byte) error {
	if len(x) != 5 || x[0] != 0x6c {
		return fmt.Errorf("bad BothT binary %x", x)
	}
	b.V = uint32(x[1]) | uint32(x[2])<<8 | uint32(x[3])<<16 | uint32(x[4])<<24
	return nil
}

// RowA: plain scalar columns of every width. Auto-increment primary key.
type RowA struct {
	Id int64 `sql:",primary"`
	// not a column: struct field positions and column positions differ from here on
	scratch int
	Shard   int64
	I8      int8
	I16     int16
	I32     int32
	I       int
	U8      uint8
	U16     uint16
	U32     uint32
	U64     uint64
	F32     float32
	F64     float64
	B       bool
	S       string
	N       Named
	NI      NamedInt `sql:"ni"`
	Mx      int64    `sql:"MixedCol"` // a column named the way it is spelled in the DDL, capitals included
	By      []byte
	T       time.Time
}

// RowB: pointer (NULLable) columns. Unique-id primary key (two columns).
type RowB struct {
	Id    int64 `sql:",primary"`
	Shard int32 `sql:",primary"`
	// not a column either
	Scratch *int64 `sql:"-" json:"-"`
	PI      *int64
	PI32    *int32
	PU16    *uint16
	PF      *float64
	PB      *bool
	PS      *string
	PN      *Named
	PT      *time.Time
	By      []byte
}

// RowC: tagged columns. String primary key.
type RowC struct {
	Key    string `sql:",primary"`
	Shard  string
	J      Custom                 `sql:",json"`
	JM     map[string]int         `sql:",json"`
	PJ     *Custom                `sql:",json"`
	JI     map[string]interface{} `sql:",json"` // untyped document: numbers decode as float64
	Tx     TextT                  `sql:",string"`
	PTx    *TextT                 `sql:",string"`
	Bin    BinT                   `sql:",binary"`
	PBin   *BinT                  `sql:",binary"`
	Both   BothT                  `sql:",binary"`
	PBoth  *BothT                 `sql:",binary"`
	BinO   BinOnlyT               `sql:",binary"`
	JMar   JsonT                  `sql:",json"`
	JS     string                 `sql:",json"` // a plain string kept as a JSON document
	Sc     ScanT
	PSc    *ScanT
	Proto  thunderpb.Field  `sql:",binary"`
	PProto *thunderpb.Field `sql:",binary"`
	INS    string           `sql:",implicitnull"`
	INI    int64            `sql:"ini,implicitnull"`
	INB    []byte           `sql:",implicitnull"`
}

var Tables = []string{"row_a", "row_b", "row_c"}

var Types = map[string]reflect.Type{"row_a": reflect.TypeOf(RowA{}), "row_b": reflect.TypeOf(RowB{}), "row_c": reflect.TypeOf(RowC{})}

func NewSchema() *sqlgen.Schema {
	s := sqlgen.NewSchema()
	s.MustRegisterType("row_a", sqlgen.AutoIncrement, RowA{})
	s.MustRegisterType("row_b", sqlgen.UniqueId, RowB{})
	s.MustRegisterType("row_c", sqlgen.UniqueId, RowC{})
	return s
}

// ---------- serialisable row description ----------

// R is a JSON-serialisable description of a row: field name -> value description.
// Values: numbers as float64/ints, strings, bools, nil; bytes as {"b": "..."}; times as
// {"t": unixMicro, "zone": offsetSeconds}; structs as nested maps.
type R map[string]interface{}

var strPool = []string{"", "a", "b", "ab", "A", "é", "x y", "0", "null"}
// AddStrings extends the pool string columns are drawn from; a check calls it from an init
// function, so that the pools (and with them the meaning of every seed) of the other checks
// stay as they are.
func AddStrings(s ...string) { strPool = append(strPool, s...) }

// WithStrings replaces the pool for the duration of one generated case (rapid runs the cases of
// a process one after the other); the returned function puts the previous pool back.
func WithStrings(pool []string) func() {
	prev := strPool
	strPool = pool
	return func() { strPool = prev }
}

var bytePool = []string{"", "a", "\x00", "\xff\xfe", "ab"}

// WideTimes makes genTime also draw instants near the edges of MySQL's DATETIME range and of
// what fits an int64 of nanoseconds since 1970 (set by the checks whose legs are known to
// handle them; the binlog-driven checks keep the narrow range).
var WideTimes bool

var timeAnchors = []time.Time{
	time.Date(1000, 1, 1, 0, 0, 0, 0, time.UTC),
	time.Date(1677, 9, 21, 0, 12, 43, 0, time.UTC), // just before the int64-nanosecond range
	time.Date(1677, 9, 22, 0, 0, 0, 0, time.UTC),
	time.Date(1969, 12, 31, 23, 59, 59, 0, time.UTC),
	time.Date(1970, 1, 1, 0, 0, 0, 0, time.UTC),
	time.Date(2038, 1, 19, 3, 14, 8, 0, time.UTC),
	time.Date(2262, 4, 11, 23, 47, 16, 0, time.UTC),
	time.Date(2262, 4, 12, 0, 0, 0, 0, time.UTC), // just after it
	time.Date(9999, 12, 31, 23, 59, 59, 0, time.UTC),
}

func genTime(t *rapid.T) time.Time {
	if WideTimes && rapid.IntRange(0, 3).Draw(t, "widetime") == 0 {
		return timeAnchors[rapid.IntRange(0, len(timeAnchors)-1).Draw(t, "anchor")].Add(time.Duration(rapid.IntRange(0, 3).Draw(t, "us")) * time.Microsecond * 250000)
	}
	base := time.Date(2020, 1, 1, 0, 0, 0, 0, time.UTC)
	tm := base.Add(time.Duration(rapid.IntRange(0, 5).Draw(t, "day"))*24*time.Hour + time.Duration(rapid.IntRange(0, 3).Draw(t, "us"))*time.Microsecond*250000)
	switch rapid.IntRange(0, 2).Draw(t, "zone") {
	case 1:
		return tm.In(time.FixedZone("P2", 2*3600))
	case 2:
		return tm.In(time.FixedZone("M5", -5*3600))
	}
	return tm
}

func genValue(t *rapid.T, typ reflect.Type, name string) reflect.Value {
	v := reflect.New(typ).Elem()
	switch typ {
	case reflect.TypeOf(time.Time{}):
		v.Set(reflect.ValueOf(genTime(t)))
		return v
	case reflect.TypeOf([]byte(nil)):
		switch rapid.IntRange(0, 5).Draw(t, "byteskind") {
		case 0:
			return v // nil
		default:
			v.SetBytes([]byte(rapid.SampledFrom(bytePool).Draw(t, "bytes")))
		}
		return v
	case reflect.TypeOf(Custom{}):
		v.Set(reflect.ValueOf(Custom{A: rapid.SampledFrom(strPool).Draw(t, "ca"), B: rapid.IntRange(0, 3).Draw(t, "cb")}))
		return v
	case reflect.TypeOf(map[string]int(nil)):
		m := map[string]int{}
		for i := 0; i < rapid.IntRange(0, 2).Draw(t, "mlen"); i++ {
			m[rapid.SampledFrom([]string{"k", "l"}).Draw(t, "mk")] = rapid.IntRange(0, 2).Draw(t, "mv")
		}
		v.Set(reflect.ValueOf(m))
		return v
	case reflect.TypeOf(map[string]interface{}(nil)):
		m := map[string]interface{}{}
		for i := 0; i < rapid.IntRange(0, 3).Draw(t, "jilen"); i++ {
			k := rapid.SampledFrom([]string{"n", "s", "l", "o"}).Draw(t, "jik")
			switch k {
			case "n":
				m[k] = rapid.SampledFrom([]float64{0, 1, -2.5, 1e15, 9007199254740993}).Draw(t, "jin")
			case "s":
				m[k] = rapid.SampledFrom(strPool).Draw(t, "jis")
			case "l":
				m[k] = []interface{}{float64(rapid.IntRange(0, 3).Draw(t, "jil")), "x", nil, true}
			default:
				m[k] = map[string]interface{}{"deep": float64(rapid.IntRange(0, 3).Draw(t, "jio"))}
			}
		}
		v.Set(reflect.ValueOf(m))
		return v
	case reflect.TypeOf(TextT{}):
		v.Set(reflect.ValueOf(TextT{V: rapid.SampledFrom(strPool).Draw(t, "tx")}))
		return v
	case reflect.TypeOf(BinT{}):
		v.Set(reflect.ValueOf(BinT{V: []byte(rapid.SampledFrom(bytePool).Draw(t, "bin"))}))
		return v
	case reflect.TypeOf(BothT{}):
		v.Set(reflect.ValueOf(BothT{V: rapid.SampledFrom([]uint32{0, 1, 0x01020304, 0xfffffffe}).Draw(t, "both")}))
		return v
	case reflect.TypeOf(BinOnlyT{}):
		v.Set(reflect.ValueOf(BinOnlyT{V: rapid.SampledFrom([]uint16{0, 1, 0x0102, 0xfffe}).Draw(t, "bino")}))
		return v
	case reflect.TypeOf(JsonT{}):
		v.Set(reflect.ValueOf(JsonT{A: rapid.IntRange(0, 2).Draw(t, "jma"), B: rapid.IntRange(-1, 1).Draw(t, "jmb")}))
		return v
	case reflect.TypeOf(ScanT{}):
		v.Set(reflect.ValueOf(ScanT{V: rapid.SampledFrom(strPool).Draw(t, "sc")}))
		return v
	case reflect.TypeOf(thunderpb.Field{}):
		f := thunderpb.Field{Kind: thunderpb.FieldKind_Int, Value: &thunderpb.Field_Int{Int: int64(rapid.IntRange(0, 3).Draw(t, "pint"))}}
		if rapid.Bool().Draw(t, "pstr") {
			f = thunderpb.Field{Kind: thunderpb.FieldKind_String, Value: &thunderpb.Field_String_{String_: rapid.SampledFrom(strPool).Draw(t, "ps")}}
		}
		v.Set(reflect.ValueOf(f))
		return v
	}
	switch typ.Kind() {
	case reflect.Int8, reflect.Int16, reflect.Int32, reflect.Int64, reflect.Int:
		lim := int64(1)<<(uint(typ.Bits())-1) - 1
		x := rapid.OneOf(rapid.Int64Range(-2, 4), rapid.SampledFrom([]int64{lim, -lim - 1})).Draw(t, "int")
		v.SetInt(x)
	case reflect.Uint8, reflect.Uint16, reflect.Uint32, reflect.Uint64:
		bits := uint(typ.Bits())
		lim := uint64(1)<<bits - 1
		if bits == 64 {
			lim = 1<<63 - 1 // above MaxInt64 is excluded (see DESIGN C13/S)
		}
		half := uint64(1) << (bits - 1)
		cands := []uint64{0, 1, 2, lim}
		if bits < 64 {
			cands = append(cands, half, half+1) // above the signed range of the width
		}
		v.SetUint(rapid.SampledFrom(cands).Draw(t, "uint"))
	case reflect.Float32:
		v.SetFloat(float64(float32(rapid.IntRange(-8, 8).Draw(t, "f32")) / 4))
	case reflect.Float64:
		v.SetFloat(rapid.SampledFrom([]float64{0, 0.1, 1.5, -2.25, 1e10, 1.0 / 3}).Draw(t, "f64"))
	case reflect.Bool:
		v.SetBool(rapid.Bool().Draw(t, "bool"))
	case reflect.String:
		v.SetString(rapid.SampledFrom(strPool).Draw(t, "str"))
	case reflect.Ptr:
		if rapid.IntRange(0, 2).Draw(t, "nil") == 0 {
			return v
		}
		p := reflect.New(typ.Elem())
		p.Elem().Set(genValue(t, typ.Elem(), name))
		return p
	default:
		panic("genValue: " + typ.String())
	}
	return v
}

// GenRow draws a row struct (pointer) of the table. Shard values come from a tiny domain.
func GenRow(t *rapid.T, table string, id int) interface{} {
	typ := Types[table]
	p := reflect.New(typ)
	for i := 0; i < typ.NumField(); i++ {
		sf := typ.Field(i)
		if sf.PkgPath != "" || sf.Tag.Get("sql") == "-" {
			continue // not a column
		}
		switch sf.Name {
		case "Id":
			p.Elem().Field(i).SetInt(int64(id))
		case "Key":
			p.Elem().Field(i).SetString(fmt.Sprintf("k%d", id))
		case "Shard":
			if sf.Type.Kind() == reflect.String {
				p.Elem().Field(i).SetString(rapid.SampledFrom([]string{"s1", "s2"}).Draw(t, "shard"))
			} else {
				p.Elem().Field(i).SetInt(int64(rapid.IntRange(1, 2).Draw(t, "shard")))
			}
		default:
			p.Elem().Field(i).Set(genValue(t, sf.Type, sf.Name))
		}
	}
	return p.Interface()
}

// Describe renders a row for evidence samples / replay messages.
func Describe(row interface{}) string {
	b, err := json.Marshal(row)
	if err != nil {
		return fmt.Sprintf("%+v", row)
	}
	return string(b)
}

// Equalish compares two values structurally with time.Equal for times, nil and empty
// []byte distinguished only when strict is set.
func Equalish(a, b reflect.Value) bool {
	if a.Type() != b.Type() {
		return false
	}
	if a.Type() == reflect.TypeOf(time.Time{}) {
		return a.Interface().(time.Time).Equal(b.Interface().(time.Time))
	}
	switch a.Kind() {
	case reflect.Ptr:
		if a.IsNil() || b.IsNil() {
			return a.IsNil() == b.IsNil()
		}
		return Equalish(a.Elem(), b.Elem())
	case reflect.Slice:
		if a.Type().Elem().Kind() == reflect.Uint8 {
			return string(a.Bytes()) == string(b.Bytes()) && a.IsNil() == b.IsNil()
		}
		if a.Len() != b.Len() {
			return false
		}
		for i := 0; i < a.Len(); i++ {
			if !Equalish(a.Index(i), b.Index(i)) {
				return false
			}
		}
		return true
	case reflect.Map:
		if a.Len() != b.Len() {
			return false
		}
		for _, k := range a.MapKeys() {
			bv := b.MapIndex(k)
			if !bv.IsValid() || !Equalish(a.MapIndex(k), bv) {
				return false
			}
		}
		return true
	case reflect.Struct:
		for i := 0; i < a.NumField(); i++ {
			if a.Type().Field(i).PkgPath != "" {
				continue
			}
			if !Equalish(a.Field(i), b.Field(i)) {
				return false
			}
		}
		return true
	case reflect.Interface:
		if a.IsNil() || b.IsNil() {
			return a.IsNil() == b.IsNil()
		}
		return Equalish(a.Elem(), b.Elem())
	}
	return reflect.DeepEqual(a.Interface(), b.Interface())
}

// TruncSeconds returns a copy of the row with all times truncated to whole seconds.
func TruncSeconds(row interface{}) interface{} {
	cp := reflect.New(reflect.TypeOf(row).Elem())
	cp.Elem().Set(reflect.ValueOf(row).Elem())
	v := cp.Elem()
	for i := 0; i < v.NumField(); i++ {
		f := v.Field(i)
		if f.Type() == reflect.TypeOf(time.Time{}) {
			f.Set(reflect.ValueOf(f.Interface().(time.Time).Truncate(time.Second)))
		}
		if f.Type() == reflect.TypeOf((*time.Time)(nil)) && !f.IsNil() {
			t := f.Elem().Interface().(time.Time).Truncate(time.Second)
			f.Set(reflect.ValueOf(&t))
		}
	}
	return cp.Interface()
}
