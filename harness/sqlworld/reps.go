package sqlworld

import (
	"database/sql/driver"
	"fmt"
	"strconv"
	"time"

	"verifharness/fakesql"
)

// Rep converts canonical driver values (the output of UnbuildStruct) into the form a given
// source hands back for the table's columns.
//   identity - unchanged
//   text     - MySQL text protocol: everything []byte
//   string   - like text but Go strings
//   binary   - go-sql-driver binary protocol (ints int64, FLOAT float32, strings []byte, time.Time)
//   binlog   - replication row image (width-typed signed ints, float32, string, []byte, datetime string)
func Rep(def *fakesql.TableDef, vals []interface{}, rep string) ([]driver.Value, error) {
	out := make([]driver.Value, len(vals))
	for i, v := range vals {
		c := def.Cols[i]
		if v == nil {
			out[i] = nil
			continue
		}
		// canonicalise what the Valuer produced to the column's storage form first
		var cv driver.Value = v
		switch c.Kind {
		case fakesql.KFloat32:
			cv = float64(float32(v.(float64)))
		case fakesql.KTime:
			tm, ok := v.(time.Time)
			if !ok {
				return nil, fmt.Errorf("column %s: expected time.Time from Valuer, got %T", c.Name, v)
			}
			cv = tm.UTC().Truncate(time.Microsecond)
		case fakesql.KString:
			switch x := v.(type) {
			case []byte:
				cv = string(x)
			}
		case fakesql.KBytes:
			switch x := v.(type) {
			case string:
				cv = []byte(x)
			}
		}
		switch rep {
		case "identity":
			out[i] = v
			if b, ok := v.([]byte); ok {
				out[i] = append([]byte{}, b...)
			}
		case "text", "string":
			var s string
			switch x := cv.(type) {
			case int64:
				if c.Kind == fakesql.KUint {
					s = strconv.FormatUint(uint64(x), 10)
				} else {
					s = strconv.FormatInt(x, 10)
				}
			case float64:
				if c.Kind == fakesql.KFloat32 {
					s = strconv.FormatFloat(x, 'g', -1, 32)
				} else {
					s = strconv.FormatFloat(x, 'g', -1, 64)
				}
			case bool:
				s = map[bool]string{true: "1", false: "0"}[x]
			case string:
				s = x
			case []byte:
				s = string(x)
			case time.Time:
				s = x.Format("2006-01-02 15:04:05.000000")
			default:
				return nil, fmt.Errorf("column %s: unexpected driver value %T", c.Name, cv)
			}
			if rep == "string" {
				out[i] = s
			} else {
				out[i] = []byte(s)
			}
		case "binary":
			switch x := cv.(type) {
			case bool:
				out[i] = map[bool]int64{true: 1, false: 0}[x]
			case float64:
				if c.Kind == fakesql.KFloat32 {
					out[i] = float32(x)
				} else {
					out[i] = x
				}
			case string:
				out[i] = []byte(x)
			case []byte:
				out[i] = append([]byte{}, x...)
			default:
				out[i] = cv
			}
		case "binlog":
			switch x := cv.(type) {
			case int64:
				switch c.Bits {
				case 8:
					out[i] = int8(x)
				case 16:
					out[i] = int16(x)
				case 32:
					out[i] = int32(x)
				default:
					out[i] = x
				}
			case bool:
				out[i] = map[bool]int8{true: 1, false: 0}[x]
			case float64:
				if c.Kind == fakesql.KFloat32 {
					out[i] = float32(x)
				} else {
					out[i] = x
				}
			case time.Time:
				// the vendored decoder formats DATETIME2 without the fractional part
				out[i] = x.Format("2006-01-02 15:04:05")
			default:
				out[i] = cv
			}
		default:
			return nil, fmt.Errorf("unknown rep %s", rep)
		}
	}
	return out, nil
}
