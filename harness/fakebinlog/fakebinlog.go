// Package fakebinlog turns the model database's change feed into replication.BinlogEvents
// in the representation the vendored binlog decoder produces.
package fakebinlog

import (
	"github.com/siddontang/go-mysql/replication"
	"strconv"
	"strings"

	"verifharness/fakesql"
	sw "verifharness/sqlworld"
)

// Queued is one committed change waiting for delivery, frozen in the table shape
// (column count, table id) of its commit time.
type Queued struct {
	Change  fakesql.Change
	NCols   int    // database columns at commit time (struct columns + added columns)
	TableID uint64 // table map id at commit time
	Corrupt string // "", "type" (a value of a type the scanner rejects) or "wide:<p>" (one value too many from position p on)
}

func rowImage(def *fakesql.TableDef, r fakesql.Row, ncols int, corrupt string) ([]interface{}, error) {
	vals := make([]interface{}, len(r))
	for i, v := range r {
		vals[i] = v
	}
	dv, err := sw.Rep(def, vals, "binlog")
	if err != nil {
		return nil, err
	}
	out := make([]interface{}, 0, ncols)
	for _, v := range dv {
		out = append(out, v)
	}
	for len(out) < ncols {
		out = append(out, nil)
	}
	if strings.HasPrefix(corrupt, "wide:") {
		// an event logged before a column in the middle of the table was dropped: one value too
		// many, everything behind position p shifted (the value at p appears twice)
		p, _ := strconv.Atoi(corrupt[len("wide:"):])
		if len(out) > 1 {
			p = 1 + p%(len(out)-1)
			out = append(out[:p+1], out[p:]...)
		}
	}
	if corrupt == "type" {
		// an int column arrives as an undecodable value
		for i, c := range def.Cols {
			if c.Kind == fakesql.KInt && !c.Primary {
				out[i] = "not-a-number"
				break
			}
		}
	}
	return out, nil
}

// Events renders the queued change as the events MySQL would send: a table map event
// followed by the rows event.
func Events(database string, def *fakesql.TableDef, q Queued) ([]*replication.BinlogEvent, error) {
	tm := &replication.TableMapEvent{TableID: q.TableID, Schema: []byte(database), Table: []byte(def.Name), ColumnCount: uint64(q.NCols)}
	re := &replication.RowsEvent{Version: 2, Table: tm, TableID: q.TableID, ColumnCount: uint64(q.NCols)}
	var typ replication.EventType
	switch {
	case q.Change.Before == nil:
		typ = replication.WRITE_ROWS_EVENTv2
		a, err := rowImage(def, q.Change.After, q.NCols, q.Corrupt)
		if err != nil {
			return nil, err
		}
		re.Rows = [][]interface{}{a}
	case q.Change.After == nil:
		typ = replication.DELETE_ROWS_EVENTv2
		b, err := rowImage(def, q.Change.Before, q.NCols, q.Corrupt)
		if err != nil {
			return nil, err
		}
		re.Rows = [][]interface{}{b}
	default:
		typ = replication.UPDATE_ROWS_EVENTv2
		b, err := rowImage(def, q.Change.Before, q.NCols, q.Corrupt)
		if err != nil {
			return nil, err
		}
		a, err := rowImage(def, q.Change.After, q.NCols, q.Corrupt)
		if err != nil {
			return nil, err
		}
		re.Rows = [][]interface{}{b, a}
	}
	return []*replication.BinlogEvent{
		{Header: &replication.EventHeader{EventType: replication.TABLE_MAP_EVENT}, Event: tm},
		{Header: &replication.EventHeader{EventType: typ}, Event: re},
	}, nil
}

func kindOf(q Queued) string {
	switch {
	case q.Change.Before == nil:
		return "insert"
	case q.Change.After == nil:
		return "delete"
	}
	return "update"
}

// SameEvent reports whether b can travel in the rows event that carries a: same kind of
// change under the same table map (MySQL packs the rows one statement or transaction changes
// in a table into one event).
func SameEvent(a, b Queued) bool {
	return kindOf(a) == kindOf(b) && a.TableID == b.TableID && a.NCols == b.NCols
}

// EventsMulti renders several queued changes of the same kind as ONE rows event with several
// row images (pairs of images for updates).
func EventsMulti(database string, def *fakesql.TableDef, qs []Queued) ([]*replication.BinlogEvent, error) {
	if len(qs) == 1 {
		return Events(database, def, qs[0])
	}
	var out []*replication.BinlogEvent
	var re *replication.RowsEvent
	for i, q := range qs {
		evs, err := Events(database, def, q)
		if err != nil {
			return nil, err
		}
		if i == 0 {
			out = evs
			re = evs[1].Event.(*replication.RowsEvent)
			continue
		}
		re.Rows = append(re.Rows, evs[1].Event.(*replication.RowsEvent).Rows...)
	}
	return out, nil
}
