// Package rx is a generated-history machine over thunder's reactive package: a store of
// versioned slots guarded by reactive.Resources, rerunners with generated compute
// functions (direct reads, cached sub-computation trees, retry/error outcomes, writes fired
// from inside the computation), driver actions and a yield plan for the verif hook sites.
package rx

import (
	"context"
	"errors"
	"fmt"
	"runtime"
	"sort"
	"strings"
	"sync"
	"sync/atomic"
	"time"
	"unsafe"

	"github.com/samsarahq/thunder/reactive"
	"pgregory.net/rapid"

	"verifharness/ev"
)

type Read struct {
	Slot     int  `json:"slot"`
	AddFirst bool `json:"add_first"` // AddDependency before reading (required for strobe slots)
	// SkipRuns: the read is left out on runs r with r%4 in this set (dependencies that come and go)
	SkipRuns []int `json:"skip_runs,omitempty"`
	// SubCtx: the dependency is registered through a context derived from the run's context:
	// "cancelled" (a sub-context the computation has already cancelled itself, the shape of an
	// errgroup context after Wait), "timeout" (WithTimeout, cancelled right after), "value"
	SubCtx string `json:"sub_ctx,omitempty"`
}

type subCtxKey struct{}

type Child struct {
	Key      int     `json:"key"`
	Reads    []Read  `json:"reads"`
	Children []Child `json:"children,omitempty"`
	// SkipRuns: as a top-level child of a rerunner, not requested on runs r with r%4 in this set
	SkipRuns []int `json:"skip_runs,omitempty"`
}

func skipped(runs []int, run int) bool {
	for _, r := range runs {
		if run%4 == r {
			return true
		}
	}
	return false
}

type Comp struct {
	Reads    []Read  `json:"reads"`
	Children []Child `json:"children,omitempty"`
	Result   string  `json:"result"` // ok | retry-once | error-on-run-N
	ErrRun   int     `json:"err_run,omitempty"`
	// Fire: at read index i (before the read) on run number Run, write slot Slot from inside the computation
	Fire       []Fire `json:"fire,omitempty"`
	PurgeOnRun int    `json:"purge_on_run,omitempty"` // call reactive.PurgeCache at the start of this run (0 = never)
	ExpireMs   int    `json:"expire_ms,omitempty"`    // InvalidateAfter(d) on the first run only (0 = none)
	// StragglerRun / StragglerUs: run number StragglerRun leaves a goroutine behind that asks
	// for the first cached child once more, with that run's context, StragglerUs after it
	// started (work a run handed off and did not wait for); 0 = none
	StragglerRun int `json:"straggler_run,omitempty"`
	StragglerUs  int `json:"straggler_us,omitempty"`
	// MinIntervalUs: the rerunner's minRerunInterval (a re-run stays pending that long after
	// the previous run, unless RerunImmediately flushes it)
	MinIntervalUs int `json:"min_interval_us,omitempty"`
	// SlowFrom / SlowUs: runs number SlowFrom and later take SlowUs before their first read
	// (the previous computation stays the current one, invalidated, for that long)
	SlowFrom int `json:"slow_from,omitempty"`
	SlowUs   int `json:"slow_us,omitempty"`
}

type Fire struct {
	Run   int  `json:"run"`
	At    int  `json:"at"` // read index; len(Reads) = before return
	Slot  int  `json:"slot"`
	After bool `json:"after"` // after the read at index At (between capture and AddDependency is "mid")
	Mid   bool `json:"mid"`
	// Spin > 0: the write is made by another goroutine after that many scheduler yields (it
	// lands around the moment the run returns and the rerunner arms itself)
	Spin int `json:"spin,omitempty"`
	// Arm > 0: the write is made by a goroutine that is already spinning when the run returns;
	// it is let go by the hook between the run's return and the rerunner arming itself, and
	// writes after Arm more spins (At, After, Mid do not apply)
	Arm int `json:"arm,omitempty"`
	// ArmEarly: the spinning writer is let go by the run's last statement instead of the hook
	ArmEarly bool `json:"arm_early,omitempty"`
	// ArmLate: the run spins that many times between its write and its return
	ArmLate int `json:"arm_late,omitempty"`
}

type Action struct {
	Kind string `json:"kind"` // write stop rerun pause cancel
	Slot int    `json:"slot,omitempty"`
	R    int    `json:"r,omitempty"`
	Us   int    `json:"us,omitempty"`
}

type Case struct {
	NSlots    int      `json:"n_slots"`
	Strobe    []bool   `json:"strobe"` // per slot: strobe (keep resource) instead of invalidate+replace
	Comps     []Comp   `json:"comps"`
	PreCancel []bool   `json:"pre_cancel"` // rerunner context cancelled before creation
	Actions   []Action `json:"actions"`
	Yields    []int    `json:"yields,omitempty"`
	Spawn     bool     `json:"spawn"`              // alwaysSpawnGoroutine
	Foreign   bool     `json:"foreign,omitempty"`  // probe an unrelated AddDependency at quiescence
	DelayUs   int      `json:"delay_us,omitempty"` // reactive.WriteThenReadDelay for this case
	// ReleaseGapUs: pause at the yield site between "this dependency has no dependents left"
	// and its release (a registration may land in between)
	ReleaseGapUs int `json:"release_gap_us,omitempty"`
}

type resInfo struct {
	id      int
	added   int32
	cleaned int32
	// exitsAtCleanup: how many runs (of any rerunner) had completed when the cleanup ran
	exitsAtCleanup int64
	// cleanedSeq: value of the machine's event counter when the cleanup ran (0 = not yet)
	cleanedSeq int64
	// releasedSeq: value of the event counter when thunder marked the resource's node released
	// (hook H8; stamped under the node's lock, so a registration that completed earlier has a
	// smaller stamp). res keeps the resource - and so its address - alive while the machine runs.
	releasedSeq int64
	res         *reactive.Resource
	m           *Machine
}

// resByAddr: address of a live resource -> its resInfo, for the hook
var resByAddr sync.Map

// reg: a registration made by a run itself, stamped with the event counter after
// AddDependency returned
type reg struct {
	info *resInfo
	seq  int64
}

type slot struct {
	mu      sync.Mutex
	version int
	res     *reactive.Resource
	info    *resInfo
	strobe  bool
}

type Machine struct {
	c          Case
	slots      []*slot
	resMu      sync.Mutex
	allRes     []*resInfo
	runners    []*runner
	hits       Hits
	exitsTotal int64 // completed runs of all rerunners
	seq        int64 // event counter (registrations and cleanups)
	stragglers int32 // goroutines left behind by runs that have not finished yet
	// ready: the rerunners are set up; checkCleanup: the release oracles apply (C08);
	// online: first violation seen by the release hook
	ready        int32
	checkCleanup bool
	online       atomic.Value
}

// Hits counts the interesting interleavings that actually happened.
type Hits struct {
	ArmWrite               int32
	Straggler              int32
	WriteDuringRunAfterDep int32
	WriteMid               int32
	SharedSlotWrite        int32
	StopDuringRun          int32
	CacheReuse             int32
	ChildRecomputed        int32
	Purge                  int32
	Expire                 int32
	Overlap                int32
	ChildSkipped           int32
	Foreign                int32
}

type runner struct {
	m             *Machine
	idx           int
	comp          Comp
	rr            *reactive.Rerunner
	cancel        context.CancelFunc
	entries       int32
	exits         int32
	runs          int32
	mu            sync.Mutex
	lastSeen      map[int]int // slot -> version read by the last successful run
	lastOK        int
	failed        bool
	stopped       bool
	stopping      int32 // set before the harness calls Stop
	entriesAtStop int32
	childRuns     map[int]int
	violation     string
	preCancelled  bool
	// resources the run in progress / the last successful run registered itself (not through
	// cached children): they hang on that run's computation
	curRegs, lastRegs []reg
}

func (rn *runner) registered(run int, info *resInfo) {
	if run == -1 {
		return
	}
	sq := atomic.AddInt64(&rn.m.seq, 1)
	rn.mu.Lock()
	rn.curRegs = append(rn.curRegs, reg{info, sq})
	rn.mu.Unlock()
}

func (m *Machine) waitStragglers(d time.Duration) bool {
	deadline := time.Now().Add(d)
	for atomic.LoadInt32(&m.stragglers) != 0 {
		if time.Now().After(deadline) {
			return false
		}
		time.Sleep(100 * time.Microsecond)
	}
	return true
}

// totals: run entries and exits over all rerunners.
func (m *Machine) totals() (int64, int64) {
	var e, x int64
	for _, rn := range m.runners {
		e += int64(atomic.LoadInt32(&rn.entries))
		x += int64(atomic.LoadInt32(&rn.exits))
	}
	return e, x
}

func (m *Machine) newRes(s *slot) {
	m.resMu.Lock()
	info := &resInfo{id: len(m.allRes)}
	m.allRes = append(m.allRes, info)
	m.resMu.Unlock()
	r := reactive.NewResource()
	info.res, info.m = r, m
	resByAddr.Store(uintptr(unsafe.Pointer(r)), info)
	r.Cleanup(func() {
		atomic.StoreInt64(&info.exitsAtCleanup, atomic.LoadInt64(&m.exitsTotal))
		atomic.StoreInt64(&info.cleanedSeq, atomic.AddInt64(&m.seq, 1))
		atomic.AddInt32(&info.cleaned, 1)
	})
	s.res, s.info = r, info
}

func (m *Machine) write(i int) {
	s := m.slots[i%len(m.slots)]
	s.mu.Lock()
	s.version++
	if s.strobe {
		r := s.res
		s.mu.Unlock()
		r.Strobe()
		return
	}
	old := s.res
	m.newRes(s)
	s.mu.Unlock()
	old.Invalidate()
}

func (m *Machine) read(ctx context.Context, rd Read, seen map[int]int, rn *runner, run int, idx int) {
	s := m.slots[rd.Slot%len(m.slots)]
	switch rd.SubCtx {
	case "cancelled":
		sub, cancel := context.WithCancel(ctx)
		cancel()
		ctx = sub
	case "timeout":
		sub, cancel := context.WithTimeout(ctx, time.Hour)
		defer cancel()
		ctx = sub
	case "value":
		ctx = context.WithValue(ctx, subCtxKey{}, idx)
	}
	fireMid := func() {
		for _, f := range rn.comp.Fire {
			if f.Run == run && f.At == idx && f.Mid && f.Arm == 0 {
				atomic.AddInt32(&m.hits.WriteMid, 1)
				m.write(f.Slot)
			}
		}
	}
	if rd.AddFirst || s.strobe {
		s.mu.Lock()
		r, info := s.res, s.info
		s.mu.Unlock()
		atomic.AddInt32(&info.added, 1)
		reactive.AddDependency(ctx, r, nil)
		rn.registered(run, info)
		fireMid()
		s.mu.Lock()
		v := s.version
		cur := s.res
		s.mu.Unlock()
		if cur != r {
			// the slot was replaced between registering and reading: the value belongs to a
			// newer resource; depend on that one as well (what a careful resolver does)
			s.mu.Lock()
			r2, info2, v2 := s.res, s.info, s.version
			s.mu.Unlock()
			atomic.AddInt32(&info2.added, 1)
			reactive.AddDependency(ctx, r2, nil)
			rn.registered(run, info2)
			v = v2
			_ = r2
		}
		seen[rd.Slot%len(m.slots)] = v
		return
	}
	s.mu.Lock()
	v, r, info := s.version, s.res, s.info
	s.mu.Unlock()
	fireMid()
	atomic.AddInt32(&info.added, 1)
	reactive.AddDependency(ctx, r, nil)
	rn.registered(run, info)
	seen[rd.Slot%len(m.slots)] = v
}

func (m *Machine) child(ctx context.Context, ch Child, rn *runner, run int) (map[int]int, error) {
	v, err := reactive.Cache(ctx, fmt.Sprintf("k%d", ch.Key), func(ctx context.Context) (interface{}, error) {
		rn.mu.Lock()
		rn.childRuns[ch.Key]++
		if rn.childRuns[ch.Key] > 1 {
			atomic.AddInt32(&m.hits.ChildRecomputed, 1)
		}
		rn.mu.Unlock()
		seen := map[int]int{}
		for i, rd := range ch.Reads {
			m.read(ctx, rd, seen, rn, -1, i)
		}
		for _, gc := range ch.Children {
			sub, err := m.child(ctx, gc, rn, run)
			if err != nil {
				return nil, err
			}
			for k, v := range sub {
				seen[k] = v
			}
		}
		return seen, nil
	})
	if err != nil {
		return nil, err
	}
	return v.(map[int]int), nil
}

func (rn *runner) compute(ctx context.Context) (interface{}, error) {
	m := rn.m
	e := atomic.AddInt32(&rn.entries, 1)
	x := atomic.LoadInt32(&rn.exits)
	if e-x != 1 {
		atomic.AddInt32(&m.hits.Overlap, 1)
		rn.mu.Lock()
		if rn.violation == "" {
			rn.violation = fmt.Sprintf("runs of rerunner %d overlap: %d entries, %d exits", rn.idx, e, x)
		}
		rn.mu.Unlock()
	}
	defer atomic.AddInt64(&m.exitsTotal, 1)
	defer atomic.AddInt32(&rn.exits, 1)
	rn.mu.Lock()
	if rn.stopped && rn.violation == "" {
		rn.violation = fmt.Sprintf("rerunner %d ran after Stop returned", rn.idx)
	}
	if rn.preCancelled && rn.violation == "" {
		rn.violation = fmt.Sprintf("rerunner %d ran although its context was cancelled before it was created", rn.idx)
	}
	rn.mu.Unlock()
	run := int(atomic.AddInt32(&rn.runs, 1))
	rn.mu.Lock()
	rn.curRegs = nil
	rn.mu.Unlock()
	if rn.comp.SlowFrom > 0 && run >= rn.comp.SlowFrom {
		time.Sleep(time.Duration(rn.comp.SlowUs) * time.Microsecond)
	}
	if rn.comp.PurgeOnRun == run {
		atomic.AddInt32(&m.hits.Purge, 1)
		reactive.PurgeCache(ctx)
	}
	if rn.comp.ExpireMs != 0 && run == 1 {
		atomic.AddInt32(&m.hits.Expire, 1)
		d := time.Duration(rn.comp.ExpireMs) * time.Millisecond
		if d < 0 {
			d = time.Duration(rn.comp.ExpireMs+1) * time.Millisecond // -1: already expired (0), -2: in the past
		}
		if rn.comp.ExpireMs%2 == 0 {
			reactive.InvalidateAt(ctx, time.Now().Add(d)) // the same thing, spelled with an instant
		} else {
			reactive.InvalidateAfter(ctx, d)
		}
	}
	if rn.comp.StragglerRun == run && len(rn.comp.Children) > 0 {
		atomic.AddInt32(&m.stragglers, 1)
		go func() {
			defer atomic.AddInt32(&m.stragglers, -1)
			time.Sleep(time.Duration(rn.comp.StragglerUs) * time.Microsecond)
			atomic.AddInt32(&m.hits.Straggler, 1)
			m.child(ctx, rn.comp.Children[0], rn, -1)
		}()
	}
	var arm *armState
	var armFire Fire
	for _, f := range rn.comp.Fire {
		if f.Run == run && f.Arm > 0 && arm == nil {
			arm = &armState{}
			armFire = f
			atomic.AddInt32(&m.stragglers, 1)
			go func(f Fire, a *armState) {
				defer atomic.AddInt32(&m.stragglers, -1)
				t0 := time.Now()
				for n := 1; atomic.LoadInt32(&a.state) != 1; n++ {
					if n%4096 == 0 && time.Since(t0) > 20*time.Millisecond && atomic.CompareAndSwapInt32(&a.state, 0, 2) {
						return // the run takes its time or took another way out: no write
					}
				}
				// the run has written and is returning: wait for the hook behind the return
				t0 = time.Now()
				for n := 1; atomic.LoadInt32(&armEpoch) == a.epoch; n++ {
					if n%4096 == 0 && time.Since(t0) > time.Second {
						break
					}
				}
				spin(f.Arm)
				atomic.AddInt32(&m.hits.ArmWrite, 1)
				// the value was written when the run ended (see below); this is the notification
				if a.strobe {
					a.res.Strobe()
				} else {
					a.res.Invalidate()
				}
				time.Sleep(20 * time.Microsecond)
				atomic.AddInt32(&armActive, -1)
			}(f, arm)
		}
	}
	seen := map[int]int{}
	fire := func(at int, after bool) {
		for _, f := range rn.comp.Fire {
			if f.Run == run && f.At == at && f.After == after && !f.Mid && f.Arm == 0 {
				if after {
					atomic.AddInt32(&m.hits.WriteDuringRunAfterDep, 1)
				}
				if f.Spin > 0 {
					atomic.AddInt32(&m.stragglers, 1)
					go func(f Fire) {
						defer atomic.AddInt32(&m.stragglers, -1)
						for i := 0; i < f.Spin; i++ {
							runtime.Gosched()
						}
						m.write(f.Slot)
					}(f)
					continue
				}
				m.write(f.Slot)
			}
		}
	}
	for i, rd := range rn.comp.Reads {
		fire(i, false)
		if !skipped(rd.SkipRuns, run) {
			m.read(ctx, rd, seen, rn, run, i)
		}
		fire(i, true)
	}
	rn.mu.Lock()
	before := map[int]int{}
	for k, v := range rn.childRuns {
		before[k] = v
	}
	rn.mu.Unlock()
	for _, ch := range rn.comp.Children {
		if skipped(ch.SkipRuns, run) {
			atomic.AddInt32(&m.hits.ChildSkipped, 1)
			continue
		}
		sub, err := m.child(ctx, ch, rn, run)
		if err != nil {
			return nil, err
		}
		for k, v := range sub {
			seen[k] = v
		}
	}
	rn.mu.Lock()
	reused := false
	for _, ch := range rn.comp.Children {
		if run > 1 && !skipped(ch.SkipRuns, run) && rn.childRuns[ch.Key] == before[ch.Key] {
			reused = true
		}
	}
	rn.mu.Unlock()
	if reused {
		atomic.AddInt32(&m.hits.CacheReuse, 1)
	}
	fire(len(rn.comp.Reads), false)
	switch rn.comp.Result {
	case "retry-once":
		if run == rn.comp.ErrRun {
			return nil, reactive.RetrySentinelError
		}
	case "error":
		if run == rn.comp.ErrRun {
			rn.mu.Lock()
			rn.failed = true
			rn.mu.Unlock()
			return nil, errors.New("computation failed")
		}
	}
	rn.mu.Lock()
	rn.lastSeen, rn.lastOK = seen, run
	rn.lastRegs = rn.curRegs
	rn.mu.Unlock()
	if arm != nil && atomic.CompareAndSwapInt32(&arm.state, 0, 3) {
		// the write itself happens here; its notification (Invalidate or Strobe of the
		// resource readers registered) is left to the spinning goroutine
		s := m.slots[armFire.Slot%len(m.slots)]
		s.mu.Lock()
		s.version++
		arm.strobe = s.strobe
		arm.res = s.res
		if !s.strobe {
			m.newRes(s)
		}
		s.mu.Unlock()
		arm.epoch = atomic.LoadInt32(&armEpoch)
		if armFire.ArmEarly {
			arm.epoch-- // do not wait for the hook: go when the run returns
		}
		atomic.AddInt32(&armActive, 1)
		atomic.StoreInt32(&arm.state, 1)
		// the notification needs a head start to land while the rerunner arms itself
		spin(armFire.ArmLate)
	}
	return nil, nil
}

// armState: one spinning writer. state 0 = the run is still at work, 3 = the run is writing,
// 1 = written (res, strobe, epoch are set), 2 = the writer gave up before the run ended.
type armState struct {
	state  int32
	epoch  int32
	res    *reactive.Resource
	strobe bool
}

// armEpoch is bumped by the hook at rerunner.afterRun (between a run's return and the
// rerunner arming itself); spinning writers go when it moves.
var armEpoch int32

// armActive counts spinning writers between "the run has written" and shortly after their
// notification.
var armActive int32

var spinSink uint64

// spin idles for n iterations (no shared memory is touched until the end)
func spin(n int) {
	var x uint64
	for i := 0; i < n; i++ {
		x += uint64(i)
	}
	atomic.AddUint64(&spinSink, x)
}

var yieldState struct {
	mu   sync.Mutex
	plan []int
	hits int
	on   bool
	gap  int
	// decided, when set, is closed at the first hit of the site release.decided
	decided chan struct{}
}

func init() {
	reactive.VerifReleased = func(addr uintptr) {
		if v, ok := resByAddr.Load(addr); ok {
			info := v.(*resInfo)
			m := info.m
			sq := atomic.AddInt64(&m.seq, 1)
			atomic.StoreInt64(&info.releasedSeq, sq)
			if atomic.LoadInt32(&m.ready) == 0 || !m.checkCleanup {
				return
			}
			// Checked at the moment of the marking (the node's lock is held, so the order
			// against completed registrations is exact): no live rerunner's current computation
			// - its last successful run, until a later one succeeds or Stop is called - has
			// registered this resource itself.
			for _, rn := range m.runners {
				if atomic.LoadInt32(&rn.stopping) == 1 {
					continue
				}
				rn.mu.Lock()
				if !rn.stopped && !rn.failed {
					for _, rg := range rn.lastRegs {
						if rg.info == info && rg.seq < sq {
							m.online.CompareAndSwap(nil, fmt.Sprintf("resource %d was marked released while it is registered by the current computation of rerunner %d (its run #%d, registered at event %d, released at event %d; the rerunner is not stopped and has not failed)", info.id, rn.idx, rn.lastOK, rg.seq, sq))
						}
					}
				}
				rn.mu.Unlock()
			}
		}
	}
	reactive.VerifYield = func(site string) {
		if site == "rerunner.afterRun" {
			atomic.AddInt32(&armEpoch, 1)
		}
		if atomic.LoadInt32(&armActive) > 0 {
			// a spinning writer is about to notify or notifying: no perturbation, the hook
			// costs what it costs without a harness
			return
		}
		yieldState.mu.Lock()
		if !yieldState.on {
			yieldState.mu.Unlock()
			return
		}
		if site == "release.decided" {
			g := yieldState.gap
			if yieldState.decided != nil {
				close(yieldState.decided)
				yieldState.decided = nil
			}
			yieldState.mu.Unlock()
			if g > 0 {
				time.Sleep(time.Duration(g) * time.Microsecond)
			}
			return
		}
		k := yieldState.hits
		yieldState.hits++
		d := 0
		if k < len(yieldState.plan) {
			d = yieldState.plan[k]
		}
		yieldState.mu.Unlock()
		switch {
		case d == 1:
			runtime.Gosched()
		case d > 1:
			time.Sleep(time.Duration(d) * time.Microsecond)
		}
	}
}

// Result is what Run observed.
type Result struct {
	Hits    Hits
	Trace   []string
	Nontriv bool
	Labels  []string
}

// stopWithin: Stop waits for a run in flight, which takes milliseconds here; a Stop that does
// not come back is a rerunner that holds its run lock for good.
func stopWithin(rr *reactive.Rerunner, d time.Duration) bool {
	done := make(chan struct{})
	go func() { rr.Stop(); close(done) }()
	select {
	case <-done:
		return true
	case <-time.After(d):
		return false
	}
}

// Run executes the case and checks the C04 and C08 oracles. checkCleanup enables the
// resource-release oracle (C08 b).
func Run(c Case, checkCleanup bool) (Result, string, error) {
	// the delay a rerunner waits before a re-run (between "invalidated" and "runs again"): a
	// Stop, write or cancel may land inside it
	reactive.WriteThenReadDelay = time.Duration(c.DelayUs) * time.Microsecond
	yieldState.mu.Lock()
	yieldState.plan, yieldState.hits, yieldState.on, yieldState.gap = c.Yields, 0, true, c.ReleaseGapUs
	yieldState.mu.Unlock()
	defer func() { yieldState.mu.Lock(); yieldState.on = false; yieldState.mu.Unlock() }()

	m := &Machine{c: c, checkCleanup: checkCleanup}
	defer func() {
		m.resMu.Lock()
		for _, in := range m.allRes {
			resByAddr.Delete(uintptr(unsafe.Pointer(in.res)))
		}
		m.resMu.Unlock()
	}()
	for i := 0; i < c.NSlots; i++ {
		s := &slot{strobe: i < len(c.Strobe) && c.Strobe[i]}
		m.newRes(s)
		m.slots = append(m.slots, s)
	}
	for i, comp := range c.Comps {
		ctx, cancel := context.WithCancel(context.Background())
		rn := &runner{m: m, idx: i, comp: comp, cancel: cancel, childRuns: map[int]int{}}
		if i < len(c.PreCancel) && c.PreCancel[i] {
			cancel()
			rn.preCancelled = true
		}
		rn.rr = reactive.NewRerunner(ctx, rn.compute, time.Duration(comp.MinIntervalUs)*time.Microsecond, c.Spawn)
		m.runners = append(m.runners, rn)
	}
	atomic.StoreInt32(&m.ready, 1)
	var res Result
	// which slots are shared between >= 2 rerunners
	users := map[int]int{}
	for _, comp := range c.Comps {
		seen := map[int]bool{}
		var walk func([]Read, []Child)
		walk = func(rs []Read, cs []Child) {
			for _, r := range rs {
				seen[r.Slot%c.NSlots] = true
			}
			for _, ch := range cs {
				walk(ch.Reads, ch.Children)
			}
		}
		walk(comp.Reads, comp.Children)
		for s := range seen {
			users[s]++
		}
	}
	for _, a := range c.Actions {
		switch a.Kind {
		case "write":
			if users[a.Slot%c.NSlots] >= 2 {
				atomic.AddInt32(&m.hits.SharedSlotWrite, 1)
			}
			m.write(a.Slot)
		case "stop":
			rn := m.runners[a.R%len(m.runners)]
			if atomic.LoadInt32(&rn.entries) != atomic.LoadInt32(&rn.exits) {
				atomic.AddInt32(&m.hits.StopDuringRun, 1)
			}
			atomic.StoreInt32(&rn.stopping, 1)
			if !stopWithin(rn.rr, ev.Patience(10*time.Second)) {
				return res, "wedged", fmt.Errorf("Stop of rerunner %d does not return within 10s although no run takes more than milliseconds: the rerunner is wedged and will never run again", rn.idx)
			}
			e, x := atomic.LoadInt32(&rn.entries), atomic.LoadInt32(&rn.exits)
			rn.mu.Lock()
			if !rn.stopped {
				rn.stopped = true
				rn.entriesAtStop = e
			}
			rn.mu.Unlock()
			if e != x {
				return res, "run-after-stop", fmt.Errorf("Stop of rerunner %d returned while a run is in progress (%d entries, %d exits)", rn.idx, e, x)
			}
		case "rerun":
			m.runners[a.R%len(m.runners)].rr.RerunImmediately()
		case "pause":
			time.Sleep(time.Duration(a.Us) * time.Microsecond)
		case "cancel":
			m.runners[a.R%len(m.runners)].cancel()
		}
		res.Trace = append(res.Trace, a.Kind)
	}
	// quiescence
	current := func() map[int]int {
		out := map[int]int{}
		for i, s := range m.slots {
			s.mu.Lock()
			out[i] = s.version
			s.mu.Unlock()
		}
		return out
	}
	cancelled := map[int]bool{}
	for _, a := range c.Actions {
		if a.Kind == "cancel" {
			cancelled[a.R%len(m.runners)] = true
		}
	}
	deadline := time.Now().Add(5 * time.Second)
	var stale string
	for {
		stale = ""
		cur := current()
		for _, rn := range m.runners {
			rn.mu.Lock()
			exempt := rn.stopped || rn.failed || rn.preCancelled || cancelled[rn.idx]
			seen, lastOK, viol := rn.lastSeen, rn.lastOK, rn.violation
			rn.mu.Unlock()
			if viol != "" {
				return res, "invariant", errors.New(viol)
			}
			if exempt {
				continue
			}
			if lastOK == 0 {
				stale = fmt.Sprintf("rerunner %d never completed a run", rn.idx)
				continue
			}
			if rn.comp.ExpireMs != 0 && lastOK < 2 && atomic.LoadInt32(&rn.runs) < 2 {
				// its first run asked to be invalidated after a delay (possibly one that had
				// already expired): it has to run again
				stale = fmt.Sprintf("rerunner %d: its first run called InvalidateAfter(%dms) and it has not run again", rn.idx, rn.comp.ExpireMs)
				continue
			}
			var keys []int
			for k := range seen {
				keys = append(keys, k)
			}
			sort.Ints(keys)
			for _, k := range keys {
				if seen[k] != cur[k] {
					stale = fmt.Sprintf("rerunner %d: its last successful run (#%d) read slot %d at version %d, current version is %d, and it is not running again", rn.idx, lastOK, k, seen[k], cur[k])
				}
			}
		}
		if stale == "" || time.Now().After(deadline) {
			break
		}
		time.Sleep(500 * time.Microsecond)
	}
	if stale != "" {
		return res, "stale", errors.New(stale)
	}
	// A resource's cleanup runs after the last computation depending on it is superseded or
	// stopped, not before: what the current computation of a live rerunner registered itself
	// has not been cleaned up. (Checked on rerunners that are at rest, and only if they still
	// are afterwards.)
	for _, rn := range m.runners {
		if !checkCleanup {
			break // (a statement of C08; the C04 runs share this machine)
		}
		rn.mu.Lock()
		exempt := rn.stopped || rn.failed || rn.preCancelled || cancelled[rn.idx]
		regs, ok0 := rn.lastRegs, rn.lastOK
		rn.mu.Unlock()
		e0 := atomic.LoadInt32(&rn.entries)
		if exempt || e0 != atomic.LoadInt32(&rn.exits) {
			continue
		}
		// (a resource that had been let go before this run registered it - the harness keeps
		// strobed slots on one resource - is not at issue: only one that was marked released
		// after the registration had completed)
		var early *resInfo
		for _, rg := range regs {
			if rs := atomic.LoadInt64(&rg.info.releasedSeq); rs > rg.seq {
				early = rg.info
			}
		}
		rn.mu.Lock()
		same := rn.lastOK == ok0 && !rn.stopped && !rn.failed
		rn.mu.Unlock()
		if early != nil && same && atomic.LoadInt32(&rn.entries) == e0 {
			return res, "early-cleanup", fmt.Errorf("resource %d was released (and its cleanup run) after the current computation of rerunner %d (its run #%d, not superseded, not stopped) had registered it", early.id, rn.idx, ok0)
		}
	}
	// A registration that does not belong to any live computation (AddDependency on a context
	// without rerunner, e.g. from a request that is not reactive) on a resource that live
	// computations depend on must leave it alone: its cleanup only runs after the last dependent
	// computation is gone. Probed at quiescence, in cases without timers (nothing re-runs by
	// itself), on the current resource of every slot a live rerunner's last run read.
	if c.Foreign {
		timers := false
		for _, comp := range c.Comps {
			if comp.ExpireMs != 0 {
				timers = true
			}
		}
		// really quiet: no run entered or left for longer than the re-run delay
		quiet := false
		// (a re-run can stay pending, invisibly, for a rerunner's minRerunInterval - twice
		// that after a retry - plus the re-run delay)
		maxInterval := 0
		for _, comp := range c.Comps {
			if comp.MinIntervalUs > maxInterval {
				maxInterval = comp.MinIntervalUs
			}
		}
		settle := 3*time.Millisecond + 2*time.Duration(c.DelayUs)*time.Microsecond + 2*time.Duration(maxInterval)*time.Microsecond
		for i := 0; i < 50 && !timers; i++ {
			e0, x0 := m.totals()
			time.Sleep(settle)
			e1, x1 := m.totals()
			if e0 == e1 && x0 == x1 && e1 == x1 {
				quiet = true
				break
			}
		}
		if quiet {
			cur := current()
			eQuiet, _ := m.totals()
			probed := map[int]bool{}
		probing:
			for _, rn := range m.runners {
				rn.mu.Lock()
				exempt := rn.stopped || rn.failed || rn.preCancelled || cancelled[rn.idx]
				seen := rn.lastSeen
				rn.mu.Unlock()
				if exempt {
					continue
				}
				for k, v := range seen {
					if v != cur[k] || probed[k] {
						continue
					}
					probed[k] = true
					sl := m.slots[k]
					sl.mu.Lock()
					r, info := sl.res, sl.info
					sl.mu.Unlock()
					if atomic.LoadInt32(&info.cleaned) > 0 {
						continue // already released earlier (a run that did not read the slot)
					}
					exits0 := atomic.LoadInt64(&m.exitsTotal)
					if e1, _ := m.totals(); e1 != eQuiet {
						break probing // a run started since the picture was taken: it is stale
					}
					reactive.AddDependency(context.Background(), r, nil)
					time.Sleep(2 * time.Millisecond)
					if e1, _ := m.totals(); e1 != eQuiet {
						// not at rest after all (a run started during the probe, it may have
						// written the slot): the observation says nothing
						break probing
					}
					// The resource may be let go legitimately in this window, but only after some
					// rerunner completed a new run (the computation that held it was replaced); a
					// cleanup before any run has completed was caused by the unrelated registration.
					if cl := atomic.LoadInt32(&info.cleaned); cl > 0 && atomic.LoadInt64(&info.exitsAtCleanup) == exits0 {
						return res, "early-cleanup", fmt.Errorf("resource %d (slot %d) was cleaned up after an unrelated AddDependency although the current computation of rerunner %d still depends on it (no run has completed in between)", info.id, k, rn.idx)
					}
					atomic.AddInt32(&m.hits.Foreign, 1)
				}
			}
		}
	}
	// stop everything; no run may start afterwards
	if !m.waitStragglers(5 * time.Second) {
		return res, "straggler-stuck", fmt.Errorf("a goroutine that called reactive.Cache with the context of a finished run is still blocked 5s later")
	}
	if v := m.online.Load(); v != nil {
		return res, "early-cleanup", errors.New(v.(string))
	}
	for _, rn := range m.runners {
		atomic.StoreInt32(&rn.stopping, 1)
		if !stopWithin(rn.rr, ev.Patience(10*time.Second)) {
			return res, "wedged", fmt.Errorf("Stop of rerunner %d does not return within 10s although no run takes more than milliseconds: the rerunner is wedged and will never run again", rn.idx)
		}
		rn.mu.Lock()
		if !rn.stopped {
			rn.stopped = true
			rn.entriesAtStop = atomic.LoadInt32(&rn.entries)
		}
		rn.mu.Unlock()
	}
	time.Sleep(2 * time.Millisecond)
	for _, rn := range m.runners {
		rn.mu.Lock()
		viol, eas := rn.violation, rn.entriesAtStop
		rn.mu.Unlock()
		if viol != "" {
			return res, "invariant", errors.New(viol)
		}
		if e := atomic.LoadInt32(&rn.entries); e != eas {
			return res, "run-after-stop", fmt.Errorf("rerunner %d ran again after Stop returned (%d -> %d entries)", rn.idx, eas, e)
		}
		if rn.preCancelled && atomic.LoadInt32(&rn.entries) != 0 {
			return res, "run-after-cancel", fmt.Errorf("rerunner %d ran although its context was cancelled before creation", rn.idx)
		}
	}
	if checkCleanup {
		// every resource a computation registered is cleaned up exactly once; the slots'
		// current resources are invalidated first so that nothing legitimately stays alive
		deadline := time.Now().Add(5 * time.Second)
		var bad string
		for {
			bad = ""
			m.resMu.Lock()
			infos := append([]*resInfo{}, m.allRes...)
			m.resMu.Unlock()
			for _, in := range infos {
				a, cl := atomic.LoadInt32(&in.added), atomic.LoadInt32(&in.cleaned)
				if cl > 1 {
					return res, "double-cleanup", fmt.Errorf("resource %d was cleaned up %d times", in.id, cl)
				}
				if a > 0 && cl != 1 {
					bad = fmt.Sprintf("resource %d: %d computations registered it, cleanup ran %d times after every rerunner stopped", in.id, a, cl)
				}
				if a == 0 && cl != 0 {
					return res, "cleanup-unregistered", fmt.Errorf("resource %d was never registered but cleaned up", in.id)
				}
			}
			if bad == "" || time.Now().After(deadline) {
				break
			}
			time.Sleep(500 * time.Microsecond)
		}
		if bad != "" {
			return res, "leak", errors.New(bad)
		}
	}
	m.waitStragglers(5 * time.Second) // (runs that started after the first wait may have left one more behind)
	res.Hits = m.hits
	h := m.hits
	for k, v := range map[string]bool{"write-after-dep-during-run": h.WriteDuringRunAfterDep > 0, "write-between-capture-and-add": h.WriteMid > 0,
		"shared-slot-write": h.SharedSlotWrite > 0, "stop-during-run": h.StopDuringRun > 0, "cache-reuse": h.CacheReuse > 0,
		"child-recomputed": h.ChildRecomputed > 0, "purge": h.Purge > 0, "expire": h.Expire > 0, "yields": len(c.Yields) > 0, "child-skipped-some-run": h.ChildSkipped > 0, "foreign-registration": h.Foreign > 0, "straggler": h.Straggler > 0, "write-while-arming": h.ArmWrite > 0} {
		if v {
			res.Labels = append(res.Labels, k)
		}
	}
	sort.Strings(res.Labels)
	return res, "", nil
}

// ---------- generation ----------

func genReads(t *rapid.T, nslots int, max int) []Read {
	n := rapid.IntRange(0, max).Draw(t, "nreads")
	var out []Read
	for i := 0; i < n; i++ {
		rd := Read{Slot: rapid.IntRange(0, nslots-1).Draw(t, "slot"), AddFirst: rapid.Bool().Draw(t, "addfirst")}
		if rapid.IntRange(0, 3).Draw(t, "dynread") == 0 {
			rd.SkipRuns = rapid.SliceOfNDistinct(rapid.IntRange(0, 3), 1, 2, rapid.ID[int]).Draw(t, "readskips")
		}
		if rapid.IntRange(0, 4).Draw(t, "subctx") == 0 {
			rd.SubCtx = rapid.SampledFrom([]string{"cancelled", "timeout", "value"}).Draw(t, "subctxkind")
		}
		out = append(out, rd)
	}
	return out
}

// genDefs draws, per rerunner, one definition for each cache key; a definition only uses
// higher-numbered keys as children, so the key graph is acyclic (a cached computation cannot
// contain itself) while keys are shared between branches.
func genDefs(t *rapid.T, nslots, depth int) []Child {
	const nkeys = 5
	defs := make([]Child, nkeys)
	for k := nkeys - 1; k >= 0; k-- {
		d := Child{Key: k, Reads: genReads(t, nslots, 2)}
		if depth > 1 && k < nkeys-1 {
			n := rapid.IntRange(0, 2).Draw(t, "nsub")
			for i := 0; i < n; i++ {
				d.Children = append(d.Children, defs[rapid.IntRange(k+1, nkeys-1).Draw(t, "subkey")])
			}
		}
		defs[k] = d
	}
	return defs
}

func limitDepth(c Child, depth int) Child {
	if depth <= 1 {
		c.Children = nil
		return c
	}
	out := Child{Key: c.Key, Reads: c.Reads}
	for _, ch := range c.Children {
		out.Children = append(out.Children, limitDepth(ch, depth-1))
	}
	return out
}

func genChildren(t *rapid.T, nslots, depth int) []Child {
	if depth <= 0 {
		return nil
	}
	defs := genDefs(t, nslots, depth)
	n := rapid.IntRange(0, 3).Draw(t, "nchildren")
	var out []Child
	for i := 0; i < n; i++ {
		ch := defs[rapid.IntRange(0, len(defs)-1).Draw(t, "key")]
		if rapid.IntRange(0, 2).Draw(t, "dynchild") == 0 {
			ch.SkipRuns = rapid.SliceOfNDistinct(rapid.IntRange(0, 3), 1, 2, rapid.ID[int]).Draw(t, "childskips")
		}
		out = append(out, ch)
	}
	return out
}

// Gen draws a case. cacheDepth > 0 generates cached sub-computation trees.
func Gen(t *rapid.T, cacheDepth int, hooks bool) Case {
	c := Case{NSlots: rapid.IntRange(1, 6).Draw(t, "nslots"), Spawn: rapid.Bool().Draw(t, "spawn")}
	for i := 0; i < c.NSlots; i++ {
		c.Strobe = append(c.Strobe, rapid.IntRange(0, 3).Draw(t, "strobe") == 0)
	}
	nr := rapid.IntRange(1, 3).Draw(t, "nrunners")
	for i := 0; i < nr; i++ {
		comp := Comp{Reads: genReads(t, c.NSlots, 4)}
		if cacheDepth > 0 {
			comp.Children = genChildren(t, c.NSlots, cacheDepth)
		}
		comp.Result = rapid.SampledFrom([]string{"ok", "ok", "ok", "retry-once", "error"}).Draw(t, "result")
		comp.ErrRun = rapid.IntRange(1, 3).Draw(t, "errrun")
		nf := rapid.IntRange(0, 3).Draw(t, "nfire")
		for k := 0; k < nf; k++ {
			f := Fire{Run: rapid.IntRange(1, 3).Draw(t, "frun"), At: rapid.IntRange(0, len(comp.Reads)).Draw(t, "fat"), Slot: rapid.IntRange(0, c.NSlots-1).Draw(t, "fslot")}
			switch rapid.IntRange(0, 2).Draw(t, "fwhen") {
			case 1:
				f.After = true
			case 2:
				f.Mid = true
			}
			if f.At == len(comp.Reads) && !f.Mid && rapid.Bool().Draw(t, "fspin") {
				f.Spin = rapid.SampledFrom([]int{1, 2, 4, 8, 16, 40}).Draw(t, "spin")
			}
			if f.Spin == 0 && rapid.IntRange(0, 2).Draw(t, "farm") == 0 {
				f.Arm = rapid.IntRange(1, 1200).Draw(t, "arm")
				f.ArmEarly = rapid.Bool().Draw(t, "armearly")
				if f.ArmEarly {
					f.Arm = rapid.SampledFrom([]int{1, 1, 1, 100, 400}).Draw(t, "armskew")
					f.ArmLate = rapid.IntRange(0, 6000).Draw(t, "armlate")
				}
			}
			comp.Fire = append(comp.Fire, f)
		}
		if cacheDepth > 0 && rapid.IntRange(0, 4).Draw(t, "purge") == 0 {
			comp.PurgeOnRun = rapid.IntRange(1, 3).Draw(t, "purgerun")
		}
		if len(comp.Children) > 0 && rapid.IntRange(0, 5).Draw(t, "straggler") == 0 {
			comp.StragglerRun = rapid.IntRange(1, 3).Draw(t, "stragglerrun")
			comp.StragglerUs = rapid.SampledFrom([]int{0, 50, 300, 1500}).Draw(t, "stragglerus")
		}
		if cacheDepth > 0 && rapid.IntRange(0, 5).Draw(t, "expire") == 0 {
			comp.ExpireMs = rapid.SampledFrom([]int{1, 2, 3, -1, -2}).Draw(t, "expirems")
		}
		comp.MinIntervalUs = rapid.SampledFrom([]int{0, 0, 0, 0, 1000, 4000}).Draw(t, "mininterval")
		if rapid.IntRange(0, 3).Draw(t, "slow") == 0 {
			comp.SlowFrom = rapid.IntRange(2, 3).Draw(t, "slowfrom")
			comp.SlowUs = rapid.SampledFrom([]int{500, 2000, 4000}).Draw(t, "slowus")
		}
		c.Comps = append(c.Comps, comp)
		c.PreCancel = append(c.PreCancel, rapid.IntRange(0, 9).Draw(t, "precancel") == 0)
	}
	c.Foreign = rapid.Bool().Draw(t, "foreign")
	c.DelayUs = rapid.SampledFrom([]int{0, 0, 0, 300, 2000}).Draw(t, "delayus")
	c.ReleaseGapUs = rapid.SampledFrom([]int{0, 0, 100, 500}).Draw(t, "releasegapus")
	na := rapid.IntRange(2, 30).Draw(t, "nactions")
	for i := 0; i < na; i++ {
		a := Action{Kind: rapid.SampledFrom([]string{"write", "write", "write", "write", "pause", "pause", "rerun", "stop", "cancel", "burst"}).Draw(t, "akind")}
		if a.Kind == "burst" {
			// the same slot written twice in a row (the second write finds dependents whose
			// re-run is still pending), then one rerunner goes away
			sl := rapid.IntRange(0, c.NSlots-1).Draw(t, "aslot")
			gap := rapid.SampledFrom([]int{0, 100, 400}).Draw(t, "burstgap")
			c.Actions = append(c.Actions, Action{Kind: "write", Slot: sl}, Action{Kind: "pause", Us: gap}, Action{Kind: "write", Slot: sl}, Action{Kind: "pause", Us: gap})
			a = Action{Kind: "stop", R: rapid.IntRange(0, nr-1).Draw(t, "ar")}
			c.Actions = append(c.Actions, a)
			continue
		}
		switch a.Kind {
		case "write":
			a.Slot = rapid.IntRange(0, c.NSlots-1).Draw(t, "aslot")
		case "pause":
			a.Us = rapid.SampledFrom([]int{0, 50, 200, 1000}).Draw(t, "us")
		case "cancel":
			if rapid.IntRange(0, 3).Draw(t, "reallycancel") > 0 {
				a.Kind = "pause"
			}
			a.R = rapid.IntRange(0, nr-1).Draw(t, "ar")
		default:
			a.R = rapid.IntRange(0, nr-1).Draw(t, "ar")
		}
		c.Actions = append(c.Actions, a)
	}
	if hooks && rapid.Bool().Draw(t, "useyields") {
		c.Yields = rapid.SliceOfN(rapid.SampledFrom([]int{0, 0, 1, 1, 30, 150, 600}), 0, 60).Draw(t, "yields")
	}
	return c
}

func Describe(c Case) string {
	var b strings.Builder
	fmt.Fprintf(&b, "slots=%d strobe=%v runners=%d actions=%d yields=%d", c.NSlots, c.Strobe, len(c.Comps), len(c.Actions), len(c.Yields))
	return b.String()
}

// ReleaseRaceProbe drives the smallest history of the release race repaired by 6fec84d with
// the plain API: a run registers a resource and fails with the retry sentinel; its computation
// is released on a goroutine, which observes the resource without dependents and pauses at the
// yield site release.decided while the retry registers the same resource. Returns the event
// stamps of the retry's registration and of the resource being marked released (0 = never)
// and whether the cleanup ran, all taken before the rerunner is stopped.
func ReleaseRaceProbe(gapUs int) (regSeq, releasedSeq int64, cleaned bool) {
	reactive.WriteThenReadDelay = 0
	yieldState.mu.Lock()
	decided := make(chan struct{})
	yieldState.plan, yieldState.hits, yieldState.on, yieldState.gap, yieldState.decided = nil, 0, true, gapUs, decided
	yieldState.mu.Unlock()
	defer func() { yieldState.mu.Lock(); yieldState.on, yieldState.decided = false, nil; yieldState.mu.Unlock() }()
	m := &Machine{}
	r := reactive.NewResource()
	info := &resInfo{res: r, m: m}
	resByAddr.Store(uintptr(unsafe.Pointer(r)), info)
	defer resByAddr.Delete(uintptr(unsafe.Pointer(r)))
	r.Cleanup(func() { atomic.AddInt32(&info.cleaned, 1) })
	var runs int32
	var reg2 int64
	first, second := make(chan struct{}), make(chan struct{})
	rr := reactive.NewRerunner(context.Background(), func(ctx context.Context) (interface{}, error) {
		n := atomic.AddInt32(&runs, 1)
		if n > 2 {
			return nil, nil // later runs (after a wrongful invalidation) leave the resource alone
		}
		if n == 2 {
			// the retry registers while the release goroutine of the failed run sits between
			// its observation "no dependents left" and the release
			select {
			case <-decided:
			case <-time.After(200 * time.Millisecond):
			}
		}
		reactive.AddDependency(ctx, r, nil)
		if n == 1 {
			close(first)
			return nil, reactive.RetrySentinelError
		}
		atomic.StoreInt64(&reg2, atomic.AddInt64(&m.seq, 1))
		close(second)
		return nil, nil
	}, 0, false)
	<-first
	rr.RerunImmediately() // the retry does not wait out its back-off
	select {
	case <-second:
	case <-time.After(5 * time.Second):
	}
	time.Sleep(time.Duration(gapUs)*time.Microsecond + 3*time.Millisecond)
	regSeq, releasedSeq, cleaned = atomic.LoadInt64(&reg2), atomic.LoadInt64(&info.releasedSeq), atomic.LoadInt32(&info.cleaned) > 0
	rr.Stop()
	return
}
